#!/bin/sh
# try_seed_all.sh <patch.diff>: apply to /repo, run every quick check in parallel, undo; print the checks that fire
P=$1
git -C /repo apply $P || { echo APPLY-FAILED; exit 9; }
cd /verif
for p in $(/venv/bin/python -c "import json;print(' '.join(c['property_id'] for c in json.load(open('MANIFEST.json'))['checks']))"); do
  ( UPSA_EVIDENCE_DIR=/tmp/seed_ev ./check $p --tier quick > /tmp/tsa_$p.out 2>&1; rc=$?; [ $rc -ne 0 ] && { echo "$p exit=$rc"; grep -B1 "^VIOLATION" /tmp/tsa_$p.out | grep -v "^VIOLATION\|^--" | cut -c1-230 | head -3; grep ANALYSIS-ERROR /tmp/tsa_$p.out | cut -c1-200; } ) &
done
wait
git -C /repo checkout -- .
