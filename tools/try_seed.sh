#!/bin/sh
# try_seed.sh <patch.diff> <PROP> [PROP...]: apply to /repo, run the quick checks, undo
P=$1; shift
git -C /repo apply $P || { echo APPLY-FAILED; exit 9; }
for prop in "$@"; do
  /verif/check $prop --tier quick > /tmp/try_$prop.out 2>&1; echo "$prop exit=$? $(grep -c VIOLATION /tmp/try_$prop.out) violations"; grep -B1 VIOLATION /tmp/try_$prop.out | grep -v "^VIOLATION\|^--" | cut -c1-260 | head -4
done
git -C /repo checkout -- .
