#!/venv/bin/python
"""seed_to_variant.py <patch.diff> <ID> <variant-id> <expected-rule-prefix>: turn a seeded change into a self-test
recipe of variants/<ID>.json (kind "break"): every hunk becomes an (old, new) text replacement, so the thorough tier
replays the change — plain and restyled (renamed locals, reshaped logic) — and requires the named rule to fire."""
import json
import os
import re
import sys

VERIF = os.path.dirname(os.path.dirname(os.path.abspath(__file__)))


def hunks(diff_text):
    cur_file = None
    out = []
    old, new = [], []
    for line in diff_text.splitlines():
        if line.startswith("+++ "):
            if old or new:
                out.append((cur_file, old, new))
                old, new = [], []
            cur_file = re.sub(r"^b/", "", line[4:].split("\t")[0].strip())
        elif line.startswith("--- ") or line.startswith("diff ") or line.startswith("index "):
            continue
        elif line.startswith("@@"):
            if old or new:
                out.append((cur_file, old, new))
            old, new = [], []
        elif cur_file is not None:
            if line.startswith("+"):
                new.append(line[1:])
            elif line.startswith("-"):
                old.append(line[1:])
            elif line.startswith(" ") or line == "":
                old.append(line[1:])
                new.append(line[1:])
    if old or new:
        out.append((cur_file, old, new))
    return out


def main(patch, prop, vid, rule, kind="break"):
    edits = []
    for f, old, new in hunks(open(patch).read()):
        o, n = "\n".join(old) + "\n", "\n".join(new) + "\n"
        src = open(os.path.join("/repo", f)).read()
        if src.count(o) != 1:
            # shrink the context until the old text is unique
            k = 0
            while src.count(o) != 1 and k < 3 and old and new and old[0] == new[0]:
                old, new = old[1:], new[1:]
                o, n = "\n".join(old) + "\n", "\n".join(new) + "\n"
                k += 1
        if src.count(o) != 1:
            print(f"{vid}: hunk of {f} is not unique in /repo HEAD ({src.count(o)} matches) — recipe not written")
            return 1
        edits.append({"file": f, "old": o, "new": n})
    path = os.path.join(VERIF, "variants", f"{prop}.json")
    d = json.load(open(path))
    d["variants"] = [v for v in d["variants"] if v["id"] != vid]
    rec = {"id": vid, "file": edits[0]["file"], "edits": edits, "expect_rule": rule, "kind": kind, "origin": "independently seeded change (DESIGN.md section 10)"}
    if kind == "neutral":
        rec["whole"] = True
        rec["origin"] = "independently written behaviour-preserving refactoring (DESIGN.md section 10, Neutrality)"
    d["variants"].append(rec)
    json.dump(d, open(path, "w"), indent=1)
    print(f"{vid}: {len(edits)} edit(s) -> variants/{prop}.json (expects {rule})")
    return 0


if __name__ == "__main__":
    sys.exit(main(*sys.argv[1:6]))
