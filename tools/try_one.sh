#!/bin/sh
# try_one.sh <patch.diff> <ID> [...]: apply the patch to a scratch copy of /repo's package and run the named quick checks on it
# RENAME=1: additionally rename the locals of every function (upsa/alpha.py) after applying the patch
P=$(realpath $1); shift
S=$(mktemp -d -p ${TMPDIR:-/tmp} upsa_try_XXXXXX)
cp -r /repo/unified_planning $S/ && patch -p1 -s -F0 -d $S -i $P || { echo APPLY-FAILED; rm -rf $S; exit 9; }
if [ -n "$RENAME" ]; then
/venv/bin/python - $S <<'PY'
import os, sys
sys.path.insert(0, '/verif')
from upsa.alpha import alpha_rename
for root, _d, files in os.walk(os.path.join(sys.argv[1], 'unified_planning')):
    if 'generated' in root or '/test' in root: continue
    for f in files:
        if f.endswith('.py'):
            p = os.path.join(root, f); s = open(p).read(); t, _ = alpha_rename(s); open(p, 'w').write(t)
PY
fi
mkdir -p $S/_ev
for p in "$@"; do
  UPSA_EVIDENCE_DIR=$S/_ev /verif/check $p --tier quick --repo $S 2>&1 | grep -v "^KNOWN-FINDING" | grep -B1 "^VIOLATION\|ANALYSIS-ERROR\|^$p \[" | grep -v "^--" | cut -c1-${W:-330}
done
rm -rf $S
