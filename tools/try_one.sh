#!/bin/sh
# try_one.sh <patch.diff> <ID> [...]: apply the patch to a scratch copy of /repo's package and run the named quick checks on it
P=$(realpath $1); shift
S=$(mktemp -d -p ${TMPDIR:-/tmp} upsa_try_XXXXXX)
cp -r /repo/unified_planning $S/ && patch -p1 -s -d $S -i $P || { echo APPLY-FAILED; rm -rf $S; exit 9; }
mkdir -p $S/_ev
for p in "$@"; do
  UPSA_EVIDENCE_DIR=$S/_ev /verif/check $p --tier quick --repo $S 2>&1 | grep -v "^KNOWN-FINDING" | grep -B1 "^VIOLATION\|ANALYSIS-ERROR\|^$p \[" | grep -v "^--" | cut -c1-330
done
rm -rf $S
