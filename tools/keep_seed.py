#!/venv/bin/python
"""keep_seed.py <Cxx> [...]: for each change of /tmp/seed/wt_Cxx/_seeded that I confirmed (line in
/tmp/seed/confirm.log: demo fails with the change, passes without, suite green), evaluate it with every quick
check (tools/eval_seed.py) and copy it to /verif/seeded/<Cxx>_change<N>/ with the outcome added to meta.json."""
from __future__ import annotations

import json
import os
import re
import shutil
import sys

sys.path.insert(0, os.path.dirname(os.path.abspath(__file__)))
import eval_seed  # noqa: E402

VERIF = eval_seed.VERIF
LOG = "/tmp/seed/confirm.log"
ROUND5 = "--round5" in sys.argv
if ROUND5:
    sys.argv.remove("--round5")
    LOG = "/tmp/seed/confirm5.log"
ROUND6 = "--round6" in sys.argv
if ROUND6:
    sys.argv.remove("--round6")
    LOG = "/tmp/seed/confirm6.log"


def confirmations():
    out = {}
    if os.path.exists(LOG):
        for line in open(LOG):
            m = re.match(r"(\S+/w[t56]_(C\d+)/_seeded/change_(\d+)) demo_with_exit=(\d+) demo_without_exit=(\d+) suite: (.*)", line)
            if m:
                out[(m.group(2), int(m.group(3)))] = {"demo_exit_with_change": int(m.group(4)), "demo_exit_on_clean_tree": int(m.group(5)), "suite_with_change": m.group(6).strip()}
    return out


def main(argv):
    conf = confirmations()
    for prop in argv:
        for n in (1, 2, 3):
            src = f"/tmp/seed/{'w6' if ROUND6 else 'w5' if ROUND5 else 'wt'}_{prop}/_seeded/change_{n}"
            if not os.path.isdir(src):
                continue
            c = conf.get((prop, n))
            if c is None:
                print(f"{prop}/{n}: not confirmed yet, skipped")
                continue
            good = c["demo_exit_with_change"] != 0 and c["demo_exit_on_clean_tree"] == 0 and "failed" not in c["suite_with_change"] and "error" not in c["suite_with_change"] and "passed" in c["suite_with_change"]
            if not good:
                print(f"{prop}/{n}: NOT KEPT — confirmation failed: {c}")
                continue
            head_patch = os.path.join(src, "patch_head.diff")
            ev = eval_seed.evaluate(head_patch if os.path.exists(head_patch) else os.path.join(src, "patch.diff"))
            dst = os.path.join(VERIF, "seeded", f"{prop}_r6_change{n}" if ROUND6 else f"{prop}_r5_change{n}" if ROUND5 else f"{prop}_change{n}")
            os.makedirs(dst, exist_ok=True)
            for f in os.listdir(src):
                if os.path.isfile(os.path.join(src, f)) and os.path.getsize(os.path.join(src, f)) < 200_000:
                    shutil.copy(os.path.join(src, f), os.path.join(dst, f))
            meta = {}
            try:
                meta = json.load(open(os.path.join(src, "meta.json")))
            except Exception:
                pass
            meta["property"] = prop
            meta["confirmed_by_me"] = c
            meta["applies_to_repo_head"] = ev.get("applied")
            if os.path.exists(head_patch):
                meta["note_patch"] = "patch.diff is the change as written (against the tree of that time); patch_head.diff is the same edit rebased onto /repo HEAD after later repairs touched neighbouring lines, and is what caught_by refers to"
            meta["caught_by"] = ev.get("fired", {})
            meta["caught"] = bool(ev.get("fired"))
            json.dump(meta, open(os.path.join(dst, "meta.json"), "w"), indent=1)
            print(f"{prop}/{n}: kept; caught by {sorted(ev.get('fired', {})) or 'NOTHING'}" + ("" if ev.get("applied") else f" (patch does not apply to HEAD: {ev.get('error')})"))


if __name__ == "__main__":
    main(sys.argv[1:])
