#!/venv/bin/python
"""Regenerate MANIFEST.json from the table below (kept next to the checks so that it stays current)."""
import json, os, sys

HERE = os.path.dirname(os.path.dirname(os.path.abspath(__file__)))
sys.path.insert(0, HERE)
from tools.claims import CLAIMS, NOT_APPLICABLE  # noqa: E402

ids = [json.loads(l)["id"] for l in open(os.path.join(HERE, "properties.jsonl"))]
checks = []
for pid in ids:
    if pid in CLAIMS:
        c = CLAIMS[pid]
        checks.append(
            {
                "property_id": pid,
                "quick_cmd": f"./check {pid} --tier quick",
                "thorough_cmd": f"./check {pid} --tier thorough",
                "evidence_file": f"evidence/{pid}.json",
                "replay_cmd_template": f"./check {pid} --replay {{path}}",
                "engine": "upsa",
                "level_claimed": {"category": "other", "text": c["text"], "design_ref": f"DESIGN.md section 6, {pid}"},
                "level_note": c["note"],
                "technique": c["technique"],
            }
        )
na = []
for pid in ids:
    if pid not in CLAIMS:
        na.append({"property_id": pid, "reason": NOT_APPLICABLE.get(pid, "check not built yet (framework under construction)")})
m = {
    "version": 1,
    "setup_cmd": "/venv/bin/python -c \"import ast, networkx\" && /venv/bin/python -m compileall -q upsa",
    "hooks": {
        "guard": "AIPLAN4EU_UNIFIED_PLANNING_VERIF",
        "enable": "none needed: static analysis reads the source, no instrumentation is added to the repository",
        "baseline_off_cmd": "cd /repo && /venv/bin/python -m pytest -ra -q -p no:cacheprovider --timeout=900 --continue-on-collection-errors",
        "source_commits": [],
        "add_only": True,
    },
    "engines": [
        {
            "name": "upsa",
            "path": "upsa",
            "serves_properties": sorted(CLAIMS),
            "kind_free_text": "repository-specific static analyser over /repo's current source: ast index with MRO, call graph, statement CFG, def-use / reaching definitions with light path-sensitivity, finite abstract interpreters (ProblemKind DSL, guarded-loop decision tables)",
        }
    ],
    "checks": checks,
    "notes": "Static analysis only: every check decides structural clauses that are necessary conditions of its property (DESIGN.md section 6 says which) from the source text, never by running unified_planning. Exit 2 + ANALYSIS-ERROR means an anchor vanished or a rule matched fewer sites than its confirmed minimum.",
    "not_applicable": na,
}
json.dump(m, open(os.path.join(HERE, "MANIFEST.json"), "w"), indent=1)
print(f"claimed {len(checks)}, not applicable {len(na)}")
