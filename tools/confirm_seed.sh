#!/bin/sh
# confirm_seed.sh <worktree> <change_dir>: demo fails with the change, suite passes, demo passes without
WT=$1; CH=$2
cd $WT || exit 9
git checkout -q -- unified_planning
git apply $CH/patch.diff || { echo "APPLY-FAILED"; exit 9; }
PYTHONPATH=$WT /venv/bin/python $CH/demo.py > /tmp/demo_with.out 2>&1; W=$?
/venv/bin/python -m pytest -q -rf -p no:cacheprovider --timeout=900 -n 12 > /tmp/suite_full.out 2>&1; tail -1 /tmp/suite_full.out > /tmp/suite.out; grep "^FAILED\|^ERROR" /tmp/suite_full.out | cut -c1-200 | head -5 >> /tmp/suite.out
git checkout -q -- unified_planning
PYTHONPATH=$WT /venv/bin/python $CH/demo.py > /tmp/demo_without.out 2>&1; WO=$?
echo "$CH demo_with_exit=$W demo_without_exit=$WO suite: $(cat /tmp/suite.out)"
