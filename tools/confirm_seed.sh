#!/bin/sh
# confirm_seed.sh <worktree> <change_dir>: demo fails with the change, suite passes, demo passes without
WT=$1; CH=$2
T=$(mktemp -d -p ${TMPDIR:-/tmp} confirm_XXXXXX)
cd $WT || exit 9
git checkout -q -- unified_planning
git apply $CH/patch.diff || { echo "$CH APPLY-FAILED"; rm -rf $T; exit 9; }
PYTHONPATH=$WT /venv/bin/python $CH/demo.py > $T/demo_with.out 2>&1; W=$?
/venv/bin/python -m pytest -q -rf -p no:cacheprovider --timeout=900 -n 8 > $T/suite_full.out 2>&1
tail -1 $T/suite_full.out > $T/suite.out
FAILED=$(grep "^FAILED\|^ERROR" $T/suite_full.out | cut -c1-160 | head -5 | tr '\n' ';')
git checkout -q -- unified_planning
PYTHONPATH=$WT /venv/bin/python $CH/demo.py > $T/demo_without.out 2>&1; WO=$?
echo "$CH demo_with_exit=$W demo_without_exit=$WO suite: $(cat $T/suite.out) $FAILED"
rm -rf $T
