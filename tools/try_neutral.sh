#!/bin/sh
# try_neutral.sh <Cxx> <dir-with-refactor_*.diff>: apply each behaviour-preserving refactoring to a scratch copy of
# /repo (one at a time, then all together) and run the property's quick check; anything but exit 0 is a false alarm.
P=$1; D=$2
for f in $D/refactor_1.diff $D/refactor_2.diff $D/refactor_3.diff ALL; do
  T=$(mktemp -d -p ${TMPDIR:-/tmp} upsa_neutral_XXXXXX)
  mkdir -p $T/unified_planning && cp -r /repo/unified_planning/. $T/unified_planning/ 
  rm -rf $T/unified_planning/test
  if [ "$f" = ALL ]; then
    for g in $D/refactor_*.diff; do (cd $T && patch -p1 -s -F0 < $g) || echo "  (did not apply in combination: $g)"; done
  else
    [ -f $f ] || { rm -rf $T; continue; }
    (cd $T && patch -p1 -s -F0 < $f) || { echo "$P $(basename $f): DOES NOT APPLY"; rm -rf $T; continue; }
  fi
  OUT=$(UPSA_EVIDENCE_DIR=$T/_ev /verif/check $P --repo $T 2>&1); RC=$?
  echo "$P $(basename $f): exit=$RC $(echo "$OUT" | grep -v '^KNOWN' | tail -1 | cut -c1-150)"
  if [ $RC -ne 0 ]; then echo "$OUT" | grep -v "^KNOWN\|^VIOLATION" | grep "^  \|ANALYSIS" | cut -c1-${W:-300} | head -${N:-6}; fi
  rm -rf $T
done
