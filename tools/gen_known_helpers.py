#!/venv/bin/python
"""gen_known_helpers.py: freeze, for every function of /repo HEAD, the private symbols it references (helpers it calls,
module- / class-level private names it reads) and the number of nested functions / lambdas it contains
(tables/known_helpers.json), plus the list of all functions. A shape rule that fails in a function which references a
private symbol *not* in this table, or has more nested functions than recorded, reports `inconclusive` instead of a
violation: the logic may have been moved where the rule does not read (benign direction). Committed input; never
written at run time."""
import json, os, sys
sys.path.insert(0, os.path.dirname(os.path.dirname(os.path.abspath(__file__))))
from upsa.index import Index
from upsa.report import private_callees, nested_defs
idx = Index()
fs = {}
for f in idx.all_funcs():
    e = {}
    r = sorted(private_callees(f))
    n = nested_defs(f)
    if r:
        e["refs"] = r
    if n:
        e["nested"] = n
    if e:
        fs[f.qualname] = e
out = {"functions": fs, "all": sorted(f.qualname for f in idx.all_funcs())}
p = os.path.join(os.path.dirname(os.path.dirname(os.path.abspath(__file__))), "tables", "known_helpers.json")
json.dump(out, open(p, "w"), indent=0, sort_keys=True)
print(len(fs), "functions with private references or nested functions;", len(out["all"]), "functions")
