#!/venv/bin/python
"""gen_known_helpers.py: freeze, for every function of /repo HEAD, the private helpers it calls (tables/known_helpers.json).
A shape rule that fails in a function which calls a private helper *not* in this table reports `inconclusive` instead
of a violation: the logic may have been extracted into that helper, which the rule does not read (benign direction)."""
import ast, json, os, sys
sys.path.insert(0, os.path.dirname(os.path.dirname(os.path.abspath(__file__))))
from upsa.index import Index
from upsa.report import private_callees
idx = Index()
out = {f.qualname: sorted(private_callees(f)) for f in idx.all_funcs()}
out = {k: v for k, v in out.items() if v}
p = os.path.join(os.path.dirname(os.path.dirname(os.path.abspath(__file__))), "tables", "known_helpers.json")
json.dump(out, open(p, "w"), indent=0, sort_keys=True)
print(len(out), "functions with private callees")
