#!/bin/sh
# collect_r8.sh <Cxx>...: copy the round-8 refactorings of the scratch worktree /tmp/seed/w8_<Cxx>/_neutral into
# neutral/<Cxx>/refactor_{4,5}.diff (+ notes_r8.json)
cd "$(dirname "$0")/.."
for P in "$@"; do
  S=/tmp/seed/w8_$P/_neutral
  [ -d $S ] || { echo "$P: nothing delivered"; continue; }
  mkdir -p neutral/$P
  [ -f $S/refactor_1.diff ] && cp $S/refactor_1.diff neutral/$P/refactor_4.diff
  [ -f $S/refactor_2.diff ] && cp $S/refactor_2.diff neutral/$P/refactor_5.diff
  [ -f $S/notes.json ] && cp $S/notes.json neutral/$P/notes_r8.json
  echo "$P: $(ls neutral/$P | tr '\n' ' ')"
done
