#!/bin/sh
# run every claimed check (quick tier unless TIER is set) and summarise exit codes
cd "$(dirname "$0")/.."
TIER=${TIER:-quick}
for p in $(/venv/bin/python -c "import json;print(' '.join(c['property_id'] for c in json.load(open('MANIFEST.json'))['checks']))"); do
  ( ./check $p --tier $TIER > /tmp/upsa_$p.out 2>&1; echo "$p exit=$? $(tail -1 /tmp/upsa_$p.out | cut -c1-150)" ) &
done
wait
