#!/bin/sh
# ab.sh <ID>: run the quick check on /repo and on the alpha-renamed tree /tmp/alpha_tree (development aid)
for p in "$@"; do
/verif/check $p 2>&1 | tail -1
UPSA_EVIDENCE_DIR=/tmp/alpha_ev /verif/check $p --repo /tmp/alpha_tree 2>&1 | grep -v "^KNOWN\|^VIOLATION" | cut -c1-${W:-330} | tail -${N:-8}
done
