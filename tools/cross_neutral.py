#!/venv/bin/python
"""cross_neutral.py: every stored behaviour-preserving refactoring (neutral/<ID>/refactor_*.diff) against the quick check
of every property anchored in a file it touches. Anything but exit 0 is a false alarm."""
import json, os, re, subprocess, sys, tempfile, shutil, glob
from concurrent.futures import ThreadPoolExecutor
VERIF = os.path.dirname(os.path.dirname(os.path.abspath(__file__)))
props = {}
for line in open(os.path.join(VERIF, "properties.jsonl")):
    d = json.loads(line)
    props[d["id"]] = d["anchors"]["files"]
claimed = [c["property_id"] for c in json.load(open(os.path.join(VERIF, "MANIFEST.json")))["checks"]]
jobs = []
only = sys.argv[1:]  # optional substrings of the diff paths to run (e.g. C34/refactor_4)
for diff in sorted(glob.glob(os.path.join(VERIF, "neutral", "C*", "refactor_*.diff"))):
    if only and not any(o in diff for o in only):
        continue
    files = set(re.findall(r"^\+\+\+ b/(\S+)", open(diff).read(), re.M))
    for p in claimed:
        if any(f == a or (a.endswith("/") and f.startswith(a)) for f in files for a in props[p]):
            jobs.append((p, diff))
def run(job):
    p, diff = job
    t = tempfile.mkdtemp(prefix="upsa_cross_")
    try:
        shutil.copytree("/repo/unified_planning", os.path.join(t, "unified_planning"), ignore=shutil.ignore_patterns("__pycache__", "test"))
        r = subprocess.run(["patch", "-p1", "-s", "-F0", "-i", diff], cwd=t, capture_output=True, text=True)
        if r.returncode != 0:
            return (p, diff, "does-not-apply", "")
        env = dict(os.environ, UPSA_EVIDENCE_DIR=os.path.join(t, "_ev"))
        c = subprocess.run([os.path.join(VERIF, "check"), p, "--repo", t], capture_output=True, text=True, env=env)
        tail = [l for l in c.stdout.splitlines() if l.startswith("  ") or l.startswith("ANALYSIS")]
        return (p, diff, c.returncode, "\n".join(x[:260] for x in tail[:3]))
    finally:
        shutil.rmtree(t, ignore_errors=True)
bad = 0
with ThreadPoolExecutor(int(os.environ.get("J", "6"))) as ex:
    for p, diff, rc, tail in ex.map(run, jobs):
        if rc != 0:
            bad += 1
            print(f"{p} <- {os.path.relpath(diff, VERIF)}: exit={rc}\n{tail}")
print(f"{len(jobs)} (check, refactoring) pairs, {bad} not silent")
