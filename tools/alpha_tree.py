#!/venv/bin/python
"""alpha_tree.py <dir> [noops]: write a rewritten copy of /repo's package to <dir>/unified_planning (development aid):
renamed + annotated locals; with `noops` additionally a `pass` after every statement."""
import os, shutil, sys
sys.path.insert(0, os.path.dirname(os.path.dirname(os.path.abspath(__file__))))
from upsa.alpha import alpha_rename, interleave_noops
dst = sys.argv[1]
noops = len(sys.argv) > 2
shutil.rmtree(dst, ignore_errors=True)
shutil.copytree("/repo/unified_planning", os.path.join(dst, "unified_planning"), ignore=shutil.ignore_patterns("__pycache__", "test"))
for root, _d, files in os.walk(os.path.join(dst, "unified_planning")):
    if "generated" in root:
        continue
    for f in files:
        if f.endswith(".py"):
            p = os.path.join(root, f)
            s = open(p).read()
            t, _ = alpha_rename(s)
            if noops:
                t = interleave_noops(t)
            compile(t, p, "exec")
            open(p, "w").write(t)
