#!/venv/bin/python
"""alpha_tree.py <dir> [noops|shape]: write a rewritten copy of /repo's package to <dir>/unified_planning (development
aid): renamed + annotated locals; with `noops` additionally a `pass` after every statement; with `shape` instead the
logic-shape rewrite (if/else inverted, constant comparisons mirrored)."""
import os, shutil, sys
sys.path.insert(0, os.path.dirname(os.path.dirname(os.path.abspath(__file__))))
from upsa.alpha import alpha_rename, flatten_else, hoist_returns, hoist_tests, interleave_noops, reshape_logic, split_conjunctions
dst = sys.argv[1]
noops = len(sys.argv) > 2 and sys.argv[2] == 'noops'
shape = len(sys.argv) > 2 and sys.argv[2] == 'shape'
full = len(sys.argv) > 2 and sys.argv[2] == 'full'  # everything the self-test's restyling does
shutil.rmtree(dst, ignore_errors=True)
shutil.copytree("/repo/unified_planning", os.path.join(dst, "unified_planning"), ignore=shutil.ignore_patterns("__pycache__", "test"))
for root, _d, files in os.walk(os.path.join(dst, "unified_planning")):
    if "generated" in root:
        continue
    for f in files:
        if f.endswith(".py"):
            p = os.path.join(root, f)
            s = open(p).read()
            t = reshape_logic(s) if shape else alpha_rename(s)[0]
            if full:
                t = interleave_noops(hoist_tests(hoist_returns(flatten_else(reshape_logic(split_conjunctions(t))))))
            if noops:
                t = interleave_noops(t)
            compile(t, p, "exec")
            open(p, "w").write(t)
