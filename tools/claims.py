"""What each check claims (feeds MANIFEST.json)."""
NOTE = "Trusted base: CPython's ast parser, networkx, and this repository-specific analyser; unresolved constructs are read in the benign direction (may miss, never invents). The behavioural remainder of the property is not decided. Besides the clauses named here, exact bug-class detectors (one-shot iterator reuse, leftover loop variable, non-ground state lookup, swapped arguments, memo-key adequacy, …) run as rules <ID>.G on the functions that implement the property (props/generic.py); the analysis is modulo local names, annotations, no-op statements and logic shape (DESIGN.md section 10, Neutrality)."

CLAIMS = {
    "C01": {
        "text": "All-paths structural necessary conditions of the documented successor semantics: successor checked against invariants and fluent bounds on every path, pre-state evaluation, forall expansion, undefined fluent never satisfies, effect kinds exhaustive. Not the computed values.",
        "note": NOTE,
        "technique": "CFG must-pass-through + def-use access-path closure (ast)",
    },
    "C02": {
        "text": "Definitional clauses of the queries, an abstract simulation of the full-check query path's guarded loops against apply_unsafe over all ordered pairs of effect classes (decision table), exception-safe restore of per-call evaluator fields, and no store through the state argument.",
        "note": NOTE,
        "technique": "guard extraction by dominators + finite decision-table simulation; exception-edge CFG reachability",
    },
    "C03": {
        "text": "Definite assignment on all paths of the validator (incl. the empty plan), documented exceptions handled and mapped to INVALID, declared metric features have an evaluation branch, costs accumulated over pre-states.",
        "note": NOTE,
        "technique": "may-be-unbound dataflow with correlated guards; try-region and table agreement rules",
    },
    "C04": {
        "text": "Must-consult over the call-graph closure of both validators: state invariants and the bounds of the problem's numeric fluents are read by each.",
        "note": NOTE,
        "technique": "call-graph closure + def-use access paths (must-consult)",
    },
    "C05": {
        "text": "Every datum the temporal semantics names is consulted; openness->strictness table of the duration constraint; conflicts raise and become INVALID; VALID only after the condition and goal loops on every path; effect-kind exhaustiveness; definite assignment.",
        "note": NOTE,
        "technique": "CFG dominance / must-pass-through, table agreement, exhaustiveness (ast)",
    },

    "C06": {"text": "Bookkeeping that plan mapping needs: every action added to a compiled problem has a map entry on every path, every CompilerResult carries a way back, and an action whose effect insertion was rejected for a conflict is never published.", "note": NOTE, "technique": "CFG pairing (dominance / post-dominance) and feasible-path search over exception handlers"},
    "C07": {"text": "The 'never drops a needed grounding / variant' clause: only positive static Boolean literals prune groundings, enumeration is a full product, simulator and validators use un-pruned grounding, powerset / DNF splitting is exhaustive with complementary conditions.", "note": NOTE, "technique": "dominating-guard extraction and shape rules (ast + CFG)"},
    "C08": {"text": "Dataclass hook spelling (dead validation), interprocedural origin analysis of the problem handed to get_fresh_name (INPUT / NEW), and agreement between what the pipeline consumes and what compiler classes return.", "note": NOTE, "technique": "interprocedural origin dataflow; table agreement; near-miss hook lint"},
    "C09": {"text": "All ~1300 ProblemKind API call sites agree with the generated method/category tables; every compiler's resulting_problem_kind is evaluated in a finite interpreter on full/empty/single-feature inputs against a frozen entitlement/introduction table; factory threads the resulting kind.", "note": NOTE + " The entitlement table (tables/kind_transfer.json) encodes my reading of each _compile.", "technique": "finite abstract interpretation of the ProblemKind DSL; API/literal agreement sweep"},
    "C10": {"text": "Must-visit: every expression-bearing field of the model flows into the kind updaters (frozen table of 41 rows), every feature has a setter site, operator->feature guards are complete, the multi-agent updater agrees with Problem's.", "note": NOTE + " tables/kind_visits.json is frozen from the model's field annotations.", "technique": "def-use flow-to-sink (must-visit) over a frozen position table"},
    "C11": {"text": "Exact arithmetic in the simplifier, the occurs check of existential elimination tests the right kind of object against the free variables of the right term, operator exhaustiveness.", "note": NOTE, "technique": "exact-arithmetic lint with reaching definitions; annotation-driven entity/expression confusion rule; walker handler resolution"},
    "C12": {"text": "True and false have distinct representations in Dnf.walk_and; NNF polarity table (negation, De Morgan, implication, equivalence, atoms); operator exhaustiveness.", "note": NOTE + " The NNF clause is decided by interpreting the syntax tree on abstract formulas (no repository code runs); the polarity-table extractor is the fallback outside the interpreter's fragment.", "technique": "contradiction rule + finite interpretation of the syntax tree of get_nnf_expression on all formulas of depth <= 2 (syntactic decision table as fallback)"},
    "C13": {"text": "Rejection before rewriting, bound-variable filter and fresh substituter for quantifier bodies, top-down no-resubstitution lookup, memo invalidation.", "note": NOTE, "technique": "CFG must-pass-through + shape rules"},
    "C14": {"text": "All walkers inherit a stack/memo that must be restored on exceptional exit (exception-edge CFG), memo-key adequacy for the 24 walker classes, create_node stores a node only after the type check, evaluator fields restored.", "note": NOTE, "technique": "exception-safe-restore and validate-before-commit path rules on a CFG with implicit raise edges"},
    "C15": {"text": "Exact arithmetic in the type checker; the decision table of walk_equals is extracted by a three-valued abstract interpreter over the 5x5 type classes and checked for symmetry; operator exhaustiveness.", "note": NOTE, "technique": "finite abstract interpretation (decision-table extraction)"},
    "C16": {"text": "Ownership of FNode construction / fields / expression table, allocation only on a table miss with a fresh id, tuple children at all create_node sites, the documented constructor normalisations as guarded early returns.", "note": NOTE, "technique": "who-may-construct / who-may-write rules + dominating guards"},
    "C17": {"text": "Sibling agreement walk_times / walk_div on how the sign of a fluent-free operand is known; linearity shape clauses.", "note": NOTE, "technique": "sibling-agreement rule over return shapes and consulted attributes; finite interpretation of the syntax trees of walk_minus / walk_default on all operand-result combinations"},
    "C20": {"text": "Writer/reader operator tables are mutually inverse, numeric type-name vocabulary incl. infinities is handled by the matching reader branch, enum/message/metric coverage on both sides, equality usable, exact arithmetic.", "note": NOTE, "technique": "table agreement between sibling if-chains; vocabulary check"},
    "C22": {"text": "MRO-aware clone completeness for every class with clone() in unified_planning.model (state field = initialised and later mutated), container aliasing, eq/hash agreement and bidirectional dictionary comparison.", "note": NOTE, "technique": "field-set comparison over the class hierarchy (T8) + eq/hash attribute sets (T9)"},
    "C23": {"text": "Every store into the initial-value / default maps and every Effect built by add_*effect is dominated by a raising compatibility (and constant-ness) test; ActionInstance parameter checks; no model write before a raise.", "note": NOTE, "technique": "dominating-guard rule + write-then-raise path rule"},
    "C24": {"text": "No bookkeeping write before a raise in the conflict predicates and their callers; abstract execution of the two conflict functions on all ordered pairs of insertions (5 kinds x conditional x Boolean) for order independence and state preservation on rejection.", "note": NOTE, "technique": "write-then-raise path rule + finite abstract execution of the predicate (decision table)"},
    "C25": {"text": "copy_stn copies both dictionaries and carries the scalars; the shared linked cells are never modified after construction; query methods do not write.", "note": NOTE, "technique": "ownership / immutability rules"},
    "C27": {"text": "The read set is built from preconditions and each expanded effect's condition, value and target; grounding with actual parameters; edge directions and last-modifier update.", "note": NOTE, "technique": "def-use must-consult inside one function"},
    "C28": {"text": "On every path the chosen duration depends on the lower bound; upper bound and right-openness are consulted; bounds evaluated in the current simulated state.", "note": NOTE, "technique": "reaching definitions + dependency closure"},
    "C31": {"text": "A plan is returned by the interpreted-functions planner only under a dominating VALID validation of that very plan against the original problem; SOLVED_OPTIMALLY only where incomplete is false, decreasing-weight powerset order, every status classified; dataclass hook spelling.", "note": NOTE, "technique": "dominance / must-pass-through + enum exhaustiveness"},
    "C32": {"text": "Per operation-mode branch, every optional requirement is asserted None or checked through the matching engine predicate; selection returns only checked engines, else raises; registry agreement.", "note": NOTE, "technique": "decision-table coverage over an if-chain + CFG exit rule"},
    "C33": {"text": "hash uses the same filtered view of the features as eq; operators do not mutate operands (alias analysis through a helper that may return its parameter); upgrade table completeness and deprecated-feature removal.", "note": NOTE, "technique": "may-return-parameter summary + mutator-on-alias rule; table agreement"},
    "C34": {"text": "What counts as a precedence (all five filters dominate the append, failed filters end the translation), an order is reported only when every temporal constraint became a precedence, total order only with a unique leading task at every step, and the returned object carries the extracted precedences. _build_total_order is decided by interpreting its syntax tree on every precedence relation over at most 3 (thorough: 4) task names.", "note": NOTE, "technique": "dominating-guard facts (ast/CFG) + finite interpretation of the syntax tree of _build_total_order"},
    "C35": {"text": "Per-fluent default source consulted for the deterministic clone; hidden state drawn from all oneof/or constraints before the simulator exists; apply delegates to the simulator and reads observations from the successor.", "note": NOTE, "technique": "must-consult + CFG ordering"},
    "C36": {"text": "Reads and child creation do not write the state, lookup order values->ancestors->default->raise, updates win when the chain is flattened, eq/hash after condensation.", "note": NOTE + " Several clauses match the current shape of UPState (tier-B).", "technique": "no-store-through-self rule + shape rules"},
    "C38": {"text": "Every list-head token the PDDL writer emits is reserved; the two renaming maps are written together and only in one place; the substituted character class is exactly the complement of the identifier alphabet (regex syntax tree); keyword avoidance runs on the final spelling; ANML counterpart.", "note": NOTE, "technique": "vocabulary extraction from string literals; regex AST (re._parser); ownership rule"},
}

NOT_APPLICABLE = {
    "C18": "equality of meaning of a written and a re-read problem is a relation between two runtime objects produced by a 1250-line printer and a 2300-line pyparsing reader; no clause of it is visible in code shape (name-level clauses are claimed under C38)",
    "C19": "same as C18 for the ANML printer/grammar; bisimulation of reachable states is a runtime relation",
    "C21": "behavioural equivalence of two independent parsers (one third-party) on all texts; no shared table or interface whose agreement would be a necessary condition",
    "C26": "consistency of generated temporal constraints with concrete start times is arithmetic over runtime rationals; nothing structural is necessary for it beyond the clauses of C25/C27",
    "C29": "pairing of start/end events by time stamps in two loops; inverse-ness depends on runtime ordering of equal-parameter instances",
    "C30": "soundness/completeness of a 1000-line translation (tags, merge actions, relevance basis) is not a path, pairing or table property",
    "C37": "per-state equivalence of original and compiled actions; the shared splitting helpers are covered only as far as C12 reaches",
}
