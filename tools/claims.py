"""What each check claims (feeds MANIFEST.json)."""
NOTE = "Trusted base: CPython's ast parser, networkx, and this repository-specific analyser; unresolved constructs are read in the benign direction (may miss, never invents). The behavioural remainder of the property is not decided."

CLAIMS = {
    "C01": {
        "text": "All-paths structural necessary conditions of the documented successor semantics: successor checked against invariants and fluent bounds on every path, pre-state evaluation, forall expansion, undefined fluent never satisfies, effect kinds exhaustive. Not the computed values.",
        "note": NOTE,
        "technique": "CFG must-pass-through + def-use access-path closure (ast)",
    },
    "C02": {
        "text": "Definitional clauses of the queries, an abstract simulation of the full-check query path's guarded loops against apply_unsafe over all ordered pairs of effect classes (decision table), exception-safe restore of per-call evaluator fields, and no store through the state argument.",
        "note": NOTE,
        "technique": "guard extraction by dominators + finite decision-table simulation; exception-edge CFG reachability",
    },
    "C03": {
        "text": "Definite assignment on all paths of the validator (incl. the empty plan), documented exceptions handled and mapped to INVALID, declared metric features have an evaluation branch, costs accumulated over pre-states.",
        "note": NOTE,
        "technique": "may-be-unbound dataflow with correlated guards; try-region and table agreement rules",
    },
    "C04": {
        "text": "Must-consult over the call-graph closure of both validators: state invariants and the bounds of the problem's numeric fluents are read by each.",
        "note": NOTE,
        "technique": "call-graph closure + def-use access paths (must-consult)",
    },
    "C05": {
        "text": "Every datum the temporal semantics names is consulted; openness->strictness table of the duration constraint; conflicts raise and become INVALID; VALID only after the condition and goal loops on every path; effect-kind exhaustiveness; definite assignment.",
        "note": NOTE,
        "technique": "CFG dominance / must-pass-through, table agreement, exhaustiveness (ast)",
    },
}

NOT_APPLICABLE = {
    "C18": "equality of meaning of a written and a re-read problem is a relation between two runtime objects produced by a 1250-line printer and a 2300-line pyparsing reader; no clause of it is visible in code shape (name-level clauses are claimed under C38)",
    "C19": "same as C18 for the ANML printer/grammar; bisimulation of reachable states is a runtime relation",
    "C21": "behavioural equivalence of two independent parsers (one third-party) on all texts; no shared table or interface whose agreement would be a necessary condition",
    "C26": "consistency of generated temporal constraints with concrete start times is arithmetic over runtime rationals; nothing structural is necessary for it beyond the clauses of C25/C27",
    "C29": "pairing of start/end events by time stamps in two loops; inverse-ness depends on runtime ordering of equal-parameter instances",
    "C30": "soundness/completeness of a 1000-line translation (tags, merge actions, relevance basis) is not a path, pairing or table property",
    "C34": "correctness of a 25-line topological procedure over all relations on <=5 tasks is a finite combinatorial enumeration, i.e. execution, not static analysis",
    "C37": "per-state equivalence of original and compiled actions; the shared splitting helpers are covered only as far as C12 reaches",
}
