#!/venv/bin/python
"""alpha_all.py [ID ...]: run only the alpha-rename neutrality test of the self-test for the given (default: all claimed) properties."""
import json, os, sys
from concurrent.futures import ThreadPoolExecutor
sys.path.insert(0, os.path.dirname(os.path.dirname(os.path.abspath(__file__))))
from upsa.selftest import run_alpha
props = sys.argv[1:] or [c["property_id"] for c in json.load(open(os.path.join(os.path.dirname(__file__), "..", "MANIFEST.json")))["checks"]]
with ThreadPoolExecutor(6) as ex:
    for p, r in zip(props, ex.map(lambda p: run_alpha(p, "/repo"), props)):
        print(p, r["status"], r.get("detail", "")[:400])
