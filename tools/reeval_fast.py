#!/venv/bin/python
"""reeval_fast.py [name ...]: refresh `caught_by` / `caught` of the kept seeded changes by running, for each, its own
property's quick check and the quick check of every property anchored in a file the change touches (a scratch copy
per seed; /repo is not modified). A check catches the change when it exits 1 (violations not listed as known
findings). Seeds whose note says they no longer break the property on HEAD keep their note."""
import json, os, re, shutil, subprocess, sys, tempfile
from concurrent.futures import ThreadPoolExecutor
VERIF = os.path.dirname(os.path.dirname(os.path.abspath(__file__)))
root = os.path.join(VERIF, "seeded")
anch = {}
for line in open(os.path.join(VERIF, "properties.jsonl")):
    if line.strip():
        d = json.loads(line)
        anch[d["id"]] = d["anchors"]["files"]
claimed = [c["property_id"] for c in json.load(open(os.path.join(VERIF, "MANIFEST.json")))["checks"]]
names = sys.argv[1:] or sorted(d for d in os.listdir(root) if os.path.isdir(os.path.join(root, d)))
def run(name):
    d = os.path.join(root, name)
    patch = os.path.join(d, "patch_head.diff")
    if not os.path.exists(patch):
        patch = os.path.join(d, "patch.diff")
    if not os.path.exists(patch):
        return name, None, {}
    meta = json.load(open(os.path.join(d, "meta.json")))
    files = set(re.findall(r"^\+\+\+ b/(\S+)", open(patch).read(), re.M))
    todo = [p for p in claimed if p == meta.get("property") or any(f == a or (a.endswith("/") and f.startswith(a)) for f in files for a in anch[p])]
    t = tempfile.mkdtemp(prefix="upsa_rf_")
    try:
        shutil.copytree("/repo/unified_planning", os.path.join(t, "unified_planning"), ignore=shutil.ignore_patterns("__pycache__", "test"))
        r = subprocess.run(["patch", "-p1", "-s", "-F0", "-d", t, "-i", patch], capture_output=True, text=True)
        if r.returncode != 0:
            return name, False, {}
        env = dict(os.environ, UPSA_EVIDENCE_DIR=os.path.join(t, "_ev"))
        fired = {}
        for p in todo:
            c = subprocess.run([os.path.join(VERIF, "check"), p, "--repo", t], capture_output=True, text=True, env=env)
            if c.returncode == 1:
                rules = sorted({m.group(1) for m in re.finditer(r"^  \S+: \[([^\]]+)\]", c.stdout, re.M)})
                fired[p] = {"exit": 1, "violation_lines": c.stdout.count("\nVIOLATION ") + c.stdout.startswith("VIOLATION "), "rules": rules[:6]}
        return name, True, fired
    finally:
        shutil.rmtree(t, ignore_errors=True)
missed = 0
with ThreadPoolExecutor(int(os.environ.get("J", "8"))) as ex:
    for name, applied, fired in ex.map(run, names):
        mp = os.path.join(root, name, "meta.json")
        meta = json.load(open(mp))
        if applied is None:
            continue
        meta["applies_to_repo_head"] = bool(applied)
        if applied:
            meta["caught_by"] = fired
            meta["caught"] = bool(fired)
        json.dump(meta, open(mp, "w"), indent=1)
        own = meta.get("property") in fired
        if not fired:
            missed += 1
        print(f"{name}: applies={applied} caught_by={sorted(fired)}" + ("" if own or not applied else "  (not by its own property's check)"))
print(f"{len(names)} seeds, {missed} not caught")
