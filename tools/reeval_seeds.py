#!/venv/bin/python
"""reeval_seeds.py [name ...]: re-evaluate the kept seeded changes (/verif/seeded/<name>/) against every quick check of
the current machinery and rewrite `caught_by` / `caught` / `applies_to_repo_head` in their meta.json. Uses
patch_head.diff when the seed has one (the same edit rebased onto /repo HEAD)."""
import json
import os
import sys

sys.path.insert(0, os.path.dirname(os.path.abspath(__file__)))
import eval_seed  # noqa: E402

root = os.path.join(eval_seed.VERIF, "seeded")
names = sys.argv[1:] or sorted(d for d in os.listdir(root) if os.path.isdir(os.path.join(root, d)))
for name in names:
    d = os.path.join(root, name)
    patch = os.path.join(d, "patch_head.diff")
    if not os.path.exists(patch):
        patch = os.path.join(d, "patch.diff")
    if not os.path.exists(patch):
        continue
    meta = json.load(open(os.path.join(d, "meta.json")))
    ev = eval_seed.evaluate(patch)
    meta["applies_to_repo_head"] = ev.get("applied")
    if ev.get("applied"):
        meta["caught_by"] = ev.get("fired", {})
        meta["caught"] = bool(ev.get("fired"))
    json.dump(meta, open(os.path.join(d, "meta.json"), "w"), indent=1)
    own = meta.get("property") in meta.get("caught_by", {})
    print(f"{name}: applies={ev.get('applied')} caught_by={sorted(meta.get('caught_by', {}))}" + ("" if own or not ev.get("applied") else "  (not by its own property's check)"))
