#!/venv/bin/python
"""quick_reeval.py: regression test of detection. For every kept seeded change that its meta.json records as caught,
apply it to a scratch copy and run only the checks recorded there; report the seeds that no recorded check reports
any more (exit 1 or an analysis error that is not present on the unchanged tree). Does not rewrite meta.json."""
import json, os, shutil, subprocess, sys, tempfile
from concurrent.futures import ThreadPoolExecutor
VERIF = os.path.dirname(os.path.dirname(os.path.abspath(__file__)))
root = os.path.join(VERIF, "seeded")
names = sys.argv[1:] or sorted(d for d in os.listdir(root) if os.path.isdir(os.path.join(root, d)))
def run(name):
    d = os.path.join(root, name)
    patch = os.path.join(d, "patch_head.diff")
    if not os.path.exists(patch):
        patch = os.path.join(d, "patch.diff")
    meta = json.load(open(os.path.join(d, "meta.json")))
    if not meta.get("caught") or not os.path.exists(patch):
        return name, "skipped (recorded as not caught)", []
    t = tempfile.mkdtemp(prefix="upsa_qr_")
    try:
        shutil.copytree("/repo/unified_planning", os.path.join(t, "unified_planning"), ignore=shutil.ignore_patterns("__pycache__", "test"))
        r = subprocess.run(["patch", "-p1", "-s", "-F0", "-d", t, "-i", patch], capture_output=True, text=True)
        if r.returncode != 0:
            return name, "does-not-apply", []
        env = dict(os.environ, UPSA_EVIDENCE_DIR=os.path.join(t, "_ev"))
        fired = []
        for p in sorted(meta.get("caught_by", {})):
            c = subprocess.run([os.path.join(VERIF, "check"), p, "--repo", t], capture_output=True, text=True, env=env)
            if c.returncode == 1:
                fired.append(p)
        return name, "caught" if fired else "LOST", fired
    finally:
        shutil.rmtree(t, ignore_errors=True)
lost = 0
with ThreadPoolExecutor(int(os.environ.get("J", "6"))) as ex:
    for name, st, fired in ex.map(run, names):
        if st != "caught":
            print(name, st)
        lost += st == "LOST"
print(f"{len(names)} seeds, {lost} lost")
