#!/venv/bin/python
"""eval_seed.py <patch.diff> [...]: for each patch, copy /repo's package to a scratch directory, apply the patch
there, run every registered quick check against the copy (--repo), print which checks fire and with which rule.
Nothing in /repo or /verif/evidence is touched. Used while /repo is busy (a suite run) and by keep_seed.py."""
from __future__ import annotations

import json
import os
import shutil
import subprocess
import sys
import tempfile
from concurrent.futures import ThreadPoolExecutor

VERIF = os.path.dirname(os.path.dirname(os.path.abspath(__file__)))


def checks():
    with open(os.path.join(VERIF, "MANIFEST.json")) as fh:
        return [c["property_id"] for c in json.load(fh)["checks"]]


_BASE = None


def baseline():
    global _BASE
    if _BASE is None:
        _BASE = evaluate(None, raw=True)
    return _BASE


def evaluate(patch, raw=False):
    scratch = tempfile.mkdtemp(prefix="upsa_seed_")
    try:
        shutil.copytree("/repo/unified_planning", os.path.join(scratch, "unified_planning"), ignore=shutil.ignore_patterns("__pycache__", "test"))
        if patch is not None:
            r = subprocess.run(["patch", "-p1", "-s", "-F0", "-d", scratch, "-i", os.path.abspath(patch)], capture_output=True, text=True)
            if r.returncode != 0:
                return {"applied": False, "error": (r.stdout + r.stderr)[-400:]}
        ev = os.path.join(scratch, "_ev")
        os.makedirs(ev)
        env = dict(os.environ, UPSA_EVIDENCE_DIR=ev)

        def one(p):
            out = subprocess.run([os.path.join(VERIF, "check"), p, "--tier", "quick", "--repo", scratch, "--dump-keys"], capture_output=True, text=True, env=env)
            rules = []
            for line in out.stdout.splitlines():
                if line.startswith("{") and '"rule"' in line:
                    try:
                        d = json.loads(line)
                        rules.append((d.get("rule"), d.get("function"), d.get("construct")))
                    except Exception:
                        pass
            viol = [l for l in out.stdout.splitlines() if l.startswith("VIOLATION")]
            err = [l for l in out.stdout.splitlines() if l.startswith("ANALYSIS-ERROR")]
            return p, out.returncode, rules, viol, err

        with ThreadPoolExecutor(8) as ex:
            res = list(ex.map(one, checks()))
        if raw:
            return {(p, *r) for p, rc, rules, viol, err in res for r in rules}
        base = baseline()
        fired = {}
        for p, rc, rules, viol, err in res:
            if rc == 0:
                continue
            new = [r for r in rules if (p, *r) not in base]
            fired[p] = {"exit": rc, "violation_lines": len(viol), "analysis_error": err[:1], "rules": sorted({r[0] for r in new if r[0]}), "sites": sorted({f"{r[1]}: {r[2]}"[:160] for r in new})[:4]}
        return {"applied": True, "fired": fired}
    finally:
        shutil.rmtree(scratch, ignore_errors=True)


if __name__ == "__main__":
    for p in sys.argv[1:]:
        print(p, json.dumps(evaluate(p), indent=1))
