"""Statement-level control-flow graph for one Python function, on networkx.

Nodes are CFGNode objects. Edge attribute 'label':
  None   – sequential flow
  True / False – outcome of a test node (if / while / the 'has next' test of a for)
  'exc'  – exceptional edge from a statement inside a try body (or an explicit raise) to a handler,
           taken *before* the statement's own definitions take effect
Finally bodies are duplicated per exit kind (normal / exceptional / return / break / continue) so that
no infeasible "normal completion then re-raise" paths are introduced.
"""
from __future__ import annotations

import ast
from dataclasses import dataclass, field
from typing import Dict, Iterable, List, Optional, Sequence, Set, Tuple

import networkx as nx


@dataclass(eq=False)
class CFGNode:
    idx: int
    kind: str  # entry | exit | raise_exit | stmt | test | for | handler | with | return | raise | pass
    ast: Optional[ast.AST] = None
    owner: Optional[ast.AST] = None  # the compound statement a test/for node belongs to
    note: str = ""

    @property
    def lineno(self) -> int:
        return getattr(self.ast, "lineno", 0) if self.ast is not None else 0

    def __repr__(self) -> str:
        t = ""
        if self.ast is not None:
            try:
                t = ast.unparse(self.ast).split("\n")[0][:60]
            except Exception:
                t = type(self.ast).__name__
        return f"<{self.idx}:{self.kind}@{self.lineno} {t}>"


Dangling = List[Tuple[CFGNode, object]]  # (node, label)

_SAFE_CALLS = {"isinstance", "len", "cast", "id", "type", "bool", "set", "dict", "list", "tuple", "frozenset"}


def _may_raise(s: ast.AST) -> bool:
    """Implicit exceptions are modelled only for statements that contain a call (other than a few builtins
    that cannot fail on well-typed arguments)."""
    if isinstance(s, (ast.FunctionDef, ast.AsyncFunctionDef, ast.ClassDef)):
        return False
    if isinstance(s, (ast.With, ast.AsyncWith)):
        return True
    for n in ast.walk(s):
        if isinstance(n, ast.Call):
            if isinstance(n.func, ast.Name) and n.func.id in _SAFE_CALLS:
                continue
            return True
    return False


@dataclass
class _Ctx:
    # innermost last
    loops: List[Tuple[CFGNode, Dangling, int]] = field(default_factory=list)  # (continue target, break sink, finally depth)
    trys: List[Tuple[List[CFGNode], bool, int]] = field(default_factory=list)  # (handler nodes, catches_all, finally depth)
    finals: List[Sequence[ast.stmt]] = field(default_factory=list)  # enclosing finally bodies


class CFG:
    def __init__(self, fn: ast.AST, implicit_raise: bool = False):
        self.fn = fn
        self.g = nx.DiGraph()
        self.nodes: List[CFGNode] = []
        self.by_ast: Dict[ast.AST, List[CFGNode]] = {}
        self.implicit_raise = implicit_raise
        self.entry = self._new("entry")
        self.exit = self._new("exit")  # normal return (incl. falling off the end)
        self.raise_exit = self._new("raise_exit")  # exception leaves the function
        ctx = _Ctx()
        out = self._block(fn.body, [(self.entry, None)], ctx)
        self._connect(out, self.exit)

    # ------------------------------------------------------------------ construction helpers
    def _new(self, kind: str, node: Optional[ast.AST] = None, owner: Optional[ast.AST] = None, note: str = "") -> CFGNode:
        n = CFGNode(len(self.nodes), kind, node, owner, note)
        self.nodes.append(n)
        self.g.add_node(n)
        if node is not None:
            self.by_ast.setdefault(node, []).append(n)
        return n

    def _connect(self, dangling: Dangling, target: CFGNode) -> None:
        for n, lab in dangling:
            if self.g.has_edge(n, target):
                # keep both labels if they differ
                old = self.g[n][target].get("label")
                if old != lab:
                    self.g[n][target]["label"] = (old, lab) if not isinstance(old, tuple) else old + (lab,)
            else:
                self.g.add_edge(n, target, label=lab)

    def _exc_targets(self, ctx: _Ctx, node: CFGNode, explicit: bool) -> None:
        """Connect exceptional flow out of `node`."""
        fdepth = len(ctx.finals)
        for handlers, catches_all, depth in reversed(ctx.trys):
            # run the finally bodies between here and that try
            src: Dangling = [(node, "exc")]
            src = self._run_finals(ctx, src, fdepth, depth)
            for h in handlers:
                self._connect(src, h)
            if catches_all:
                return
            fdepth = depth
        if explicit or self.implicit_raise:
            src = self._run_finals(ctx, [(node, "exc")], fdepth, 0)
            self._connect(src, self.raise_exit)

    def _run_finals(self, ctx: _Ctx, src: Dangling, frm: int, to: int) -> Dangling:
        """Inline copies of ctx.finals[to:frm] (innermost first)."""
        for i in range(frm - 1, to - 1, -1):
            sub = _Ctx(loops=[], trys=[t for t in ctx.trys if t[2] <= i], finals=list(ctx.finals[:i]))
            src = self._block(ctx.finals[i], src, sub)
        return src

    # ------------------------------------------------------------------ statements
    def _block(self, stmts: Sequence[ast.stmt], preds: Dangling, ctx: _Ctx) -> Dangling:
        cur = preds
        for s in stmts:
            cur = self._stmt(s, cur, ctx)
        return cur

    def _simple(self, kind: str, s: ast.AST, preds: Dangling, ctx: _Ctx, owner: Optional[ast.AST] = None) -> CFGNode:
        n = self._new(kind, s, owner)
        self._connect(preds, n)
        if ctx.trys or (self.implicit_raise and _may_raise(s)):
            self._exc_targets(ctx, n, explicit=False)
        return n

    def _stmt(self, s: ast.stmt, preds: Dangling, ctx: _Ctx) -> Dangling:
        if isinstance(s, ast.If):
            t = self._simple("test", s.test, preds, ctx, owner=s)
            out = self._block(s.body, [(t, True)], ctx)
            if s.orelse:
                out = out + self._block(s.orelse, [(t, False)], ctx)
            else:
                out = out + [(t, False)]
            return out
        if isinstance(s, (ast.For, ast.AsyncFor)):
            it = self._simple("iter", s.iter, preds, ctx, owner=s)
            head = self._new("for", s.target, owner=s)  # 'has next' test + target binding on True edge
            self._connect([(it, None)], head)
            if ctx.trys:
                self._exc_targets(ctx, head, explicit=False)
            breaks: Dangling = []
            ctx.loops.append((head, breaks, len(ctx.finals)))
            body_out = self._block(s.body, [(head, True)], ctx)
            ctx.loops.pop()
            self._connect(body_out, head)
            out = self._block(s.orelse, [(head, False)], ctx) if s.orelse else [(head, False)]
            return out + breaks
        if isinstance(s, ast.While):
            t = self._simple("test", s.test, preds, ctx, owner=s)
            breaks = []
            ctx.loops.append((t, breaks, len(ctx.finals)))
            body_out = self._block(s.body, [(t, True)], ctx)
            ctx.loops.pop()
            self._connect(body_out, t)
            const_true = isinstance(s.test, ast.Constant) and bool(s.test.value) is True
            out: Dangling = []
            if not const_true:
                out = self._block(s.orelse, [(t, False)], ctx) if s.orelse else [(t, False)]
            return out + breaks
        if isinstance(s, ast.Try) or (hasattr(ast, "TryStar") and isinstance(s, getattr(ast, "TryStar"))):
            return self._try(s, preds, ctx)
        if isinstance(s, (ast.With, ast.AsyncWith)):
            w = self._simple("with", s, preds, ctx, owner=s)
            return self._block(s.body, [(w, None)], ctx)
        if isinstance(s, ast.Return):
            n = self._simple("return", s, preds, ctx)
            src = self._run_finals(ctx, [(n, None)], len(ctx.finals), 0)
            self._connect(src, self.exit)
            return []
        if isinstance(s, ast.Raise):
            n = self._new("raise", s)
            self._connect(preds, n)
            self._exc_targets(ctx, n, explicit=True)
            return []
        if isinstance(s, ast.Break):
            n = self._new("stmt", s)
            self._connect(preds, n)
            if ctx.loops:
                _, sink, fd = ctx.loops[-1]
                sink.extend(self._run_finals(ctx, [(n, None)], len(ctx.finals), fd))
            return []
        if isinstance(s, ast.Continue):
            n = self._new("stmt", s)
            self._connect(preds, n)
            if ctx.loops:
                tgt, _, fd = ctx.loops[-1]
                self._connect(self._run_finals(ctx, [(n, None)], len(ctx.finals), fd), tgt)
            return []
        if isinstance(s, ast.Assert):
            n = self._new("assert", s)
            self._connect(preds, n)
            self._exc_targets(ctx, n, explicit=True)
            return [(n, None)]
        if hasattr(ast, "Match") and isinstance(s, ast.Match):
            subj = self._simple("test", s.subject, preds, ctx, owner=s)
            out = []
            exhaustive = False
            for c in s.cases:
                out += self._block(c.body, [(subj, True)], ctx)
                if isinstance(c.pattern, ast.MatchAs) and c.pattern.pattern is None and c.guard is None:
                    exhaustive = True
            if not exhaustive:
                out.append((subj, False))
            return out
        # simple statement (Assign, AugAssign, AnnAssign, Expr, Pass, Delete, Import, FunctionDef, ClassDef, Global, ...)
        n = self._simple("stmt", s, preds, ctx)
        return [(n, None)]

    def _try(self, s: ast.Try, preds: Dangling, ctx: _Ctx) -> Dangling:
        has_final = bool(s.finalbody)
        if has_final:
            ctx.finals.append(s.finalbody)
        fdepth = len(ctx.finals)
        handlers = [self._new("handler", h, owner=s) for h in s.handlers]
        catches_all = any(
            h.type is None or (isinstance(h.type, ast.Name) and h.type.id in ("Exception", "BaseException"))
            for h in s.handlers
        )
        # try body
        ctx.trys.append((handlers, catches_all, fdepth))
        if not s.handlers:
            ctx.trys.pop()
            # try/finally only: exceptions run the finally and propagate outwards
            ctx.trys.append(([], False, fdepth))
        body_out = self._block(s.body, preds, ctx)
        ctx.trys.pop()
        # else
        if s.orelse:
            body_out = self._block(s.orelse, body_out, ctx)
        out = body_out
        # handlers
        for h, hn in zip(s.handlers, handlers):
            out = out + self._block(h.body, [(hn, None)], ctx)
        if has_final:
            ctx.finals.pop()
            out = self._block(s.finalbody, out, ctx)
        return out

    # ------------------------------------------------------------------ queries
    def nodes_for(self, node: ast.AST) -> List[CFGNode]:
        return self.by_ast.get(node, [])

    def stmt_nodes(self) -> Iterable[CFGNode]:
        return (n for n in self.nodes if n.ast is not None)

    def node_containing(self, expr: ast.AST) -> List[CFGNode]:
        """CFG nodes whose ast contains expr (by identity)."""
        res = []
        for n in self.nodes:
            if n.ast is None:
                continue
            roots = [n.ast]
            if n.kind == "with":
                roots = [i for i in n.ast.items]
            elif n.kind == "handler":
                roots = [n.ast.type] if n.ast.type is not None else []
            for r in roots:
                if any(x is expr for x in ast.walk(r)):
                    res.append(n)
                    break
        return res

    def dominators(self) -> Dict[CFGNode, CFGNode]:
        return nx.immediate_dominators(self.g, self.entry)

    def dominates(self, a: CFGNode, b: CFGNode, idom: Optional[Dict[CFGNode, CFGNode]] = None) -> bool:
        idom = idom or self.dominators()
        cur = b
        while True:
            if cur is a:
                return True
            nxt = idom.get(cur)
            if nxt is None or nxt is cur:
                return False
            cur = nxt

    def reachable_from(self, n: CFGNode, skip_labels: Tuple = ()) -> Set[CFGNode]:
        seen = set()
        todo = [n]
        while todo:
            x = todo.pop()
            for y in self.g.successors(x):
                lab = self.g[x][y].get("label")
                if lab in skip_labels:
                    continue
                if y not in seen:
                    seen.add(y)
                    todo.append(y)
        return seen

    def path_avoiding(self, src: CFGNode, dst: CFGNode, avoid: Set[CFGNode], skip_edge=None) -> Optional[List[CFGNode]]:
        """A path src -> dst that passes through no node in `avoid` (endpoints excepted), or None."""
        prev: Dict[CFGNode, Optional[CFGNode]] = {src: None}
        todo = [src]
        while todo:
            x = todo.pop(0)
            if x is dst and x is not src:
                break
            for y in self.g.successors(x):
                if skip_edge is not None and skip_edge(x, y, self.g[x][y].get("label")):
                    continue
                if y in prev or (y in avoid and y is not dst):
                    continue
                prev[y] = x
                todo.append(y)
        if dst not in prev or dst is src:
            return None
        path = []
        cur: Optional[CFGNode] = dst
        while cur is not None:
            path.append(cur)
            cur = prev[cur]
        return list(reversed(path))

    def edge_label(self, a: CFGNode, b: CFGNode):
        return self.g[a][b].get("label")
