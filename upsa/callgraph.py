"""Call resolution and reachability closure.

Resolution order for a call inside function F (class K):
  1. plain / imported name -> module function, or class (its __init__ through the MRO);
  2. self.m / cls.m / super().m -> MRO of K, plus overrides of m in subclasses of K (dynamic dispatch);
  3. Dotted.Name.m -> resolve through the import tables;
  4. x.m where x is a local bound to `Cls(...)` or annotated with a class of the index -> MRO of that class;
  5. otherwise *by name*: every method called m in the index (class-hierarchy analysis by name, an
     over-approximation). Dunder names and a few ubiquitous container-method names are not resolved by name.
"""
from __future__ import annotations

import ast
from typing import Dict, Iterable, List, Optional, Set, Tuple

from .index import ClassInfo, FuncInfo, Index, ModuleInfo, walk_no_nested

_CONTAINER_NAMES = {
    "append", "add", "update", "get", "items", "values", "keys", "pop", "extend", "copy", "setdefault", "remove",
    "join", "format", "split", "strip", "startswith", "endswith", "lower", "upper", "replace", "index", "count",
    "sort", "insert", "clear", "discard", "union", "intersection", "difference", "issubset", "write", "read", "close",
}


class CallGraph:
    def __init__(self, idx: Index):
        self.idx = idx
        self._cache: Dict[int, List[Tuple[ast.Call, List[FuncInfo], str]]] = {}

    # ------------------------------------------------------------------ local types
    def _local_types(self, f: FuncInfo) -> Dict[str, ClassInfo]:
        out: Dict[str, ClassInfo] = {}
        args = f.node.args
        for a in list(args.posonlyargs) + list(args.args) + list(args.kwonlyargs):
            if a.annotation is not None:
                c = self._ann_class(f.module, a.annotation)
                if c is not None:
                    out[a.arg] = c
        for n in walk_no_nested(f.node):
            if isinstance(n, ast.Assign) and len(n.targets) == 1 and isinstance(n.targets[0], ast.Name) and isinstance(n.value, ast.Call):
                c = self.idx.resolve_dotted(f.module, ast.unparse(n.value.func)) if isinstance(n.value.func, (ast.Name, ast.Attribute)) else None
                if isinstance(c, ClassInfo):
                    out.setdefault(n.targets[0].id, c)
            elif isinstance(n, ast.AnnAssign) and isinstance(n.target, ast.Name):
                c = self._ann_class(f.module, n.annotation)
                if c is not None:
                    out.setdefault(n.target.id, c)
        return out

    def _ann_class(self, m: ModuleInfo, ann: ast.AST) -> Optional[ClassInfo]:
        txt = None
        if isinstance(ann, ast.Constant) and isinstance(ann.value, str):
            txt = ann.value
        elif isinstance(ann, (ast.Name, ast.Attribute)):
            txt = ast.unparse(ann)
        if not txt or "[" in txt:
            return None
        obj = self.idx.resolve_dotted(m, txt)
        if isinstance(obj, ClassInfo):
            return obj
        short = txt.split(".")[-1]
        cands = self.idx.classes_by_name.get(short, [])
        return cands[0] if len(cands) == 1 else None

    def self_attr_types(self, cls: ClassInfo) -> Dict[str, ClassInfo]:
        """self.x = Cls(...) in any method of the MRO -> type of self.x."""
        out: Dict[str, ClassInfo] = {}
        for c in cls.mro:
            for m in c.methods.values():
                for n in walk_no_nested(m.node):
                    if isinstance(n, (ast.Assign, ast.AnnAssign)):
                        tg = n.targets[0] if isinstance(n, ast.Assign) else n.target
                        if isinstance(tg, ast.Attribute) and isinstance(tg.value, ast.Name) and tg.value.id == "self" and isinstance(n.value, ast.Call) and isinstance(n.value.func, (ast.Name, ast.Attribute)):
                            k = self.idx.resolve_dotted(m.module, ast.unparse(n.value.func))
                            if isinstance(k, ClassInfo):
                                out.setdefault(tg.attr, k)
        return out

    # ------------------------------------------------------------------ resolution
    def callees(self, f: FuncInfo) -> List[Tuple[ast.Call, List[FuncInfo], str]]:
        """[(call node, resolved targets, how)] for every call in f (nested lambdas included, nested defs not)."""
        k = id(f.node)
        if k in self._cache:
            return self._cache[k]
        res: List[Tuple[ast.Call, List[FuncInfo], str]] = []
        ltypes = self._local_types(f)
        satypes = self.self_attr_types(f.cls) if f.cls else {}
        for n in walk_no_nested(f.node):
            if not isinstance(n, ast.Call):
                continue
            res.append((n,) + self._resolve(f, n, ltypes, satypes))
        # properties: attribute loads resolved as calls of @property methods are not followed (by design)
        self._cache[k] = res
        return res

    def _with_overrides(self, cls: ClassInfo, meth: str) -> List[FuncInfo]:
        out: List[FuncInfo] = []
        base = cls.lookup(meth)
        if base is not None:
            out.append(base)
        for sub in self.idx.subclasses(cls):
            if meth in sub.methods and sub.methods[meth] not in out:
                out.append(sub.methods[meth])
        return out

    def _resolve(self, f: FuncInfo, call: ast.Call, ltypes, satypes) -> Tuple[List[FuncInfo], str]:
        fn = call.func
        if isinstance(fn, ast.Name):
            obj = self.idx.resolve_dotted(f.module, fn.id)
            if isinstance(obj, FuncInfo):
                return [obj], "name"
            if isinstance(obj, ClassInfo):
                init = obj.lookup("__init__")
                return ([init] if init else []), "ctor"
            return [], "unresolved-name"
        if isinstance(fn, ast.Attribute):
            m = fn.attr
            recv = fn.value
            if isinstance(recv, ast.Name) and recv.id in ("self", "cls") and f.cls is not None:
                t = self._with_overrides(f.cls, m)
                if t:
                    return t, "self"
            if isinstance(recv, ast.Call) and isinstance(recv.func, ast.Name) and recv.func.id == "super" and f.cls is not None:
                for c in f.cls.mro[1:]:
                    if m in c.methods:
                        return [c.methods[m]], "super"
            if isinstance(recv, ast.Attribute) and isinstance(recv.value, ast.Name) and recv.value.id == "self" and recv.attr in satypes:
                t = self._with_overrides(satypes[recv.attr], m)
                if t:
                    return t, "self-attr-type"
            if isinstance(recv, ast.Name) and recv.id in ltypes:
                t = self._with_overrides(ltypes[recv.id], m)
                if t:
                    return t, "local-type"
            if isinstance(recv, (ast.Name, ast.Attribute)):
                obj = self.idx.resolve_dotted(f.module, ast.unparse(fn))
                if isinstance(obj, FuncInfo):
                    return [obj], "dotted"
                if isinstance(obj, ClassInfo):
                    init = obj.lookup("__init__")
                    return ([init] if init else []), "ctor"
            if m.startswith("__") or m in _CONTAINER_NAMES:
                return [], "unresolved"
            return list(self.idx.methods_by_name.get(m, [])), "by-name"
        return [], "unresolved"

    # ------------------------------------------------------------------ closure
    def closure(self, roots: Iterable[FuncInfo], exclude_module_prefixes: Tuple[str, ...] = (), max_funcs: int = 5000, by_name: bool = True) -> Dict[str, Tuple[FuncInfo, Optional[str]]]:
        """Functions reachable from roots: qualname -> (FuncInfo, qualname of one caller)."""
        seen: Dict[str, Tuple[FuncInfo, Optional[str]]] = {}
        todo: List[Tuple[FuncInfo, Optional[str]]] = [(r, None) for r in roots]
        while todo and len(seen) < max_funcs:
            f, parent = todo.pop()
            if f.qualname in seen:
                continue
            if any(f.module.name.startswith(p) for p in exclude_module_prefixes):
                continue
            seen[f.qualname] = (f, parent)
            for call, targets, how in self.callees(f):
                if how == "by-name" and not by_name:
                    continue
                for t in targets:
                    if t.qualname not in seen:
                        todo.append((t, f.qualname))
        return seen

    def chain_to(self, closure: Dict[str, Tuple[FuncInfo, Optional[str]]], qualname: str) -> List[str]:
        out = [qualname]
        cur = closure.get(qualname, (None, None))[1]
        while cur is not None and len(out) < 50:
            out.append(cur)
            cur = closure.get(cur, (None, None))[1]
        return list(reversed(out))
