"""Dataflow on the statement CFG: definitions, may-be-unbound, reaching definitions, dependency closure."""
from __future__ import annotations

import ast
import re
from typing import Dict, FrozenSet, Iterable, List, Optional, Set, Tuple

from .cfg import CFG, CFGNode
from .index import chain, walk_no_nested


def _target_names(t: ast.AST) -> Set[str]:
    out: Set[str] = set()
    for n in ast.walk(t):
        if isinstance(n, ast.Name) and isinstance(n.ctx, (ast.Store, ast.Del)):
            out.add(n.id)
    return out


def _walrus_names(e: ast.AST) -> Set[str]:
    return {n.target.id for n in walk_no_nested(e) if isinstance(n, ast.NamedExpr) and isinstance(n.target, ast.Name)}


def node_defs(n: CFGNode) -> Set[str]:
    """Local names (re)bound by a CFG node. For 'for' nodes the binding happens on the True edge only."""
    a = n.ast
    if a is None:
        return set()
    if n.kind == "for":
        return _target_names(a)
    if n.kind in ("test", "iter"):
        return _walrus_names(a)
    if n.kind == "handler":
        return {a.name} if getattr(a, "name", None) else set()
    if n.kind == "with":
        out = set()
        for it in a.items:
            if it.optional_vars is not None:
                out |= _target_names(it.optional_vars)
            out |= _walrus_names(it.context_expr)
        return out
    if isinstance(a, ast.Assign):
        out = set()
        for t in a.targets:
            out |= _target_names(t)
        return out | _walrus_names(a.value)
    if isinstance(a, ast.AugAssign):
        return _target_names(a.target)
    if isinstance(a, ast.AnnAssign):
        return _target_names(a.target) if a.value is not None else set()
    if isinstance(a, (ast.FunctionDef, ast.AsyncFunctionDef, ast.ClassDef)):
        return {a.name}
    if isinstance(a, (ast.Import, ast.ImportFrom)):
        return {(x.asname or x.name).split(".")[0] for x in a.names}
    if isinstance(a, ast.Delete):
        return set()
    if isinstance(a, ast.stmt) or isinstance(a, ast.expr):
        return _walrus_names(a)
    return set()


def node_dels(n: CFGNode) -> Set[str]:
    a = n.ast
    if isinstance(a, ast.Delete):
        out = set()
        for t in a.targets:
            if isinstance(t, ast.Name):
                out.add(t.id)
        return out
    return set()


def node_use_roots(n: CFGNode) -> List[ast.AST]:
    """Expressions evaluated by a CFG node (what it reads)."""
    a = n.ast
    if a is None:
        return []
    if n.kind == "for":
        # subscripts / attributes in the target are reads
        return [x for x in ast.walk(a) if isinstance(x, (ast.Subscript, ast.Attribute))]
    if n.kind in ("test", "iter"):
        return [a]
    if n.kind == "handler":
        return [a.type] if a.type is not None else []
    if n.kind == "with":
        return [it.context_expr for it in a.items]
    if isinstance(a, (ast.FunctionDef, ast.AsyncFunctionDef)):
        # default values and decorators are evaluated; the body reads free variables later (closure)
        return list(a.decorator_list) + [d for d in a.args.defaults + a.args.kw_defaults if d is not None]
    if isinstance(a, ast.ClassDef):
        return list(a.decorator_list) + list(a.bases)
    return [a]


def node_uses(n: CFGNode) -> List[ast.Name]:
    out: List[ast.Name] = []
    for r in node_use_roots(n):
        comp_bound: Set[str] = set()
        for x in walk_no_nested(r):
            if isinstance(x, (ast.ListComp, ast.SetComp, ast.DictComp, ast.GeneratorExp)):
                for g in x.generators:
                    comp_bound |= _target_names(g.target)
            if isinstance(x, ast.Lambda):
                comp_bound |= {p.arg for p in x.args.args + x.args.kwonlyargs + x.args.posonlyargs}
        for x in walk_no_nested(r):
            if isinstance(x, ast.Name) and isinstance(x.ctx, ast.Load) and x.id not in comp_bound:
                out.append(x)
    if isinstance(n.ast, ast.AugAssign) and isinstance(n.ast.target, ast.Name):
        out.append(n.ast.target)
    return out


def local_names(fn: ast.AST) -> Set[str]:
    """Names that are local to the function (bound somewhere in it, not declared global/nonlocal)."""
    bound: Set[str] = set()
    declared: Set[str] = set()
    for x in walk_no_nested(fn):
        if x is fn:
            continue
        if isinstance(x, (ast.Global, ast.Nonlocal)):
            declared |= set(x.names)
        elif isinstance(x, ast.Name) and isinstance(x.ctx, (ast.Store, ast.Del)):
            bound.add(x.id)
        elif isinstance(x, (ast.FunctionDef, ast.AsyncFunctionDef, ast.ClassDef)):
            bound.add(x.name)
        elif isinstance(x, ast.ExceptHandler) and x.name:
            bound.add(x.name)
        elif isinstance(x, (ast.Import, ast.ImportFrom)):
            for a in x.names:
                bound.add((a.asname or a.name).split(".")[0])
    # comprehension targets are not function locals
    comp: Set[str] = set()
    for x in walk_no_nested(fn):
        if isinstance(x, (ast.ListComp, ast.SetComp, ast.DictComp, ast.GeneratorExp)):
            for g in x.generators:
                comp |= _target_names(g.target)
    plain: Set[str] = set()
    for x in walk_no_nested(fn):
        if isinstance(x, (ast.ListComp, ast.SetComp, ast.DictComp, ast.GeneratorExp)):
            continue
    # a name bound only in comprehensions is not local; approximate: names bound by statements
    stmt_bound: Set[str] = set()
    for x in walk_no_nested(fn):
        if isinstance(x, (ast.Assign, ast.AugAssign, ast.AnnAssign, ast.For, ast.AsyncFor, ast.With, ast.AsyncWith)):
            tg: List[ast.AST] = []
            if isinstance(x, ast.Assign):
                tg = list(x.targets)
            elif isinstance(x, (ast.AugAssign, ast.AnnAssign)):
                tg = [x.target]
            elif isinstance(x, (ast.For, ast.AsyncFor)):
                tg = [x.target]
            else:
                tg = [i.optional_vars for i in x.items if i.optional_vars is not None]
            for t in tg:
                stmt_bound |= _target_names(t)
        elif isinstance(x, ast.NamedExpr) and isinstance(x.target, ast.Name):
            stmt_bound.add(x.target.id)
        elif isinstance(x, (ast.FunctionDef, ast.AsyncFunctionDef, ast.ClassDef)) and x is not fn:
            stmt_bound.add(x.name)
        elif isinstance(x, ast.ExceptHandler) and x.name:
            stmt_bound.add(x.name)
        elif isinstance(x, (ast.Import, ast.ImportFrom)):
            for a in x.names:
                stmt_bound.add((a.asname or a.name).split(".")[0])
    return stmt_bound - declared


def func_params(fn: ast.AST) -> Set[str]:
    a = fn.args
    ps = {x.arg for x in list(a.posonlyargs) + list(a.args) + list(a.kwonlyargs)}
    if a.vararg:
        ps.add(a.vararg.arg)
    if a.kwarg:
        ps.add(a.kwarg.arg)
    return ps


# ------------------------------------------------------------------------- may-be-unbound
def may_unbound(cfg: CFG) -> Dict[CFGNode, Set[str]]:
    """IN sets: local names that may be unbound on entry to each node."""
    fn = cfg.fn
    locs = local_names(fn) - func_params(fn)
    IN: Dict[CFGNode, Set[str]] = {n: set() for n in cfg.nodes}
    IN[cfg.entry] = set(locs)
    work = [cfg.entry]
    while work:
        n = work.pop()
        inn = IN[n]
        out_def = inn - node_defs(n) | node_dels(n)
        for s in cfg.g.successors(n):
            lab = cfg.g[n][s].get("label")
            labs = lab if isinstance(lab, tuple) else (lab,)
            flow: Set[str] = set()
            for l in labs:
                if l == "exc":
                    flow |= inn | node_dels(n)
                elif n.kind == "for" and l is False:
                    flow |= inn
                else:
                    flow |= out_def
            if not flow <= IN[s]:
                IN[s] |= flow
                work.append(s)
    return IN


def unbound_witness(cfg: CFG, var: str, use: CFGNode, correlated: bool = True, limit: int = 200000) -> Optional[List[CFGNode]]:
    """A path entry -> use along which `var` is never bound; with `correlated`, paths on which two tests with
    identical normalised text (whose variables are not re-bound in between) take different outcomes are
    excluded as infeasible. Returns None if no such path exists."""

    def block(node: CFGNode, succ: CFGNode, label, binds: bool) -> bool:
        return binds and var in node_defs(node) and var not in node_dels(node)

    return feasible_path(cfg, cfg.entry, use, block_edge=block, correlated=correlated, limit=limit)


ENUMS: Dict[str, List[str]] = {}  # enum class name -> member names (filled by Index)
_ENUM_ATOM = re.compile(r"^(.+) == ((?:\w+\.)*(\w+))\.(\w+)$")


def _enum_exhausted(a: Dict[str, bool], txt: str) -> bool:
    """True if `txt` (a false atom `L == E.m`) completes the refutation of every member of enum E for L."""
    m = _ENUM_ATOM.match(txt)
    if not m or m.group(3) not in ENUMS:
        return False
    lhs, prefix = m.group(1), m.group(2)
    return all(a.get(f"{lhs} == {prefix}.{mem}") is False for mem in ENUMS[m.group(3)])


def feasible_path(
    cfg: CFG,
    src: CFGNode,
    dst: CFGNode,
    avoid: Optional[Set[CFGNode]] = None,
    block_edge=None,
    correlated: bool = True,
    limit: int = 200000,
    skip_exc: bool = False,
) -> Optional[List[CFGNode]]:
    """A path src -> dst that avoids `avoid` and every edge for which block_edge(node, succ, label, binds)
    holds, and that is not refuted by the light path-sensitivity below:
      * two tests with the same atoms (see implied_atoms) whose variables are not re-bound in between must
        take consistent outcomes;
      * `x = None` / `x = <literal, f-string, container display>` fix the atom `x is None`;
      * a for loop's zero-iteration exit implies its iterable is empty, an iteration implies it is not.
    Returns the node list, or None when no such path exists."""
    avoid = avoid or set()
    start = (src, frozenset())
    prev: Dict[Tuple[CFGNode, FrozenSet], Optional[Tuple[CFGNode, FrozenSet]]] = {start: None}
    todo = [start]
    test_nodes: Set[CFGNode] = {n for n in cfg.nodes if n.kind == "test" and n.ast is not None and isinstance(n.owner, (ast.If, ast.While))}
    steps = 0
    while todo:
        cur = todo.pop(0)
        node, assum = cur
        steps += 1
        if steps > limit:
            return [src, dst]  # give up: report conservatively as feasible
        if node is dst and cur is not start:
            path = []
            c: Optional[Tuple[CFGNode, FrozenSet]] = cur
            while c is not None:
                path.append(c[0])
                c = prev[c]
            return list(reversed(path))
        defs = node_defs(node)
        for s in cfg.g.successors(node):
            if s in avoid and s is not dst:
                continue
            lab = cfg.g[node][s].get("label")
            labs = lab if isinstance(lab, tuple) else (lab,)
            for l in labs:
                if skip_exc and l == "exc":
                    continue
                binds = not (l == "exc" or (node.kind == "for" and l is False))
                if block_edge is not None and block_edge(node, s, l, binds):
                    continue
                a = dict(assum)
                if binds and defs:
                    for k in [k for k in a if test_text_vars(k) & defs]:
                        del a[k]
                if correlated and node.kind == "iter" and node.owner is not None:
                    a.pop("@it%d" % id(node.owner), None)
                atoms: List[Tuple[str, bool]] = []
                if correlated and node in test_nodes and l in (True, False):
                    atoms = implied_atoms(node.ast, l)
                elif correlated and node.kind == "for" and node.owner is not None and l in (True, False):
                    key = "@it%d" % id(node.owner)
                    E = emptiness_chains(node.owner.iter)
                    if l is True:
                        a[key] = True
                        atoms = [(f"len({e}) == 0", False) for e in E if e != "?"]
                    elif key not in a and len(E) == 1 and "?" not in E:
                        atoms = [(f"len({next(iter(E))}) == 0", True)]  # zero iterations
                elif correlated and binds and isinstance(node.ast, (ast.Assign, ast.AnnAssign)):
                    atoms = assignment_atoms(node.ast)
                if atoms:
                    clash = False
                    for txt, val in atoms:
                        if txt in a and a[txt] != val:
                            clash = True
                            break
                        a[txt] = val
                        if val is False and _enum_exhausted(a, txt):
                            clash = True  # an if-chain over every member of an Enum has no fall-through
                            break
                    if not clash and not _unit_resolve(a):
                        clash = True
                    if clash:
                        continue
                st = (s, frozenset(a.items()))
                if st not in prev:
                    prev[st] = cur
                    todo.append(st)
    return None


def _unit_resolve(a: Dict[str, bool]) -> bool:
    """Unit resolution over the recorded facts: from `(A and B)` false and A true conclude B false; from `(A or B)`
    true and A false conclude B true (a flag computed once and tested twice — `if f and empty: … elif f: …` — makes
    the second branch know `not empty`). Adds the conclusions to `a`; returns False on a contradiction."""
    changed = True
    rounds = 0
    while changed and rounds < 6:
        changed = False
        rounds += 1
        for txt, val in list(a.items()):
            if " and " not in txt and " or " not in txt:
                continue
            try:
                e = ast.parse(txt, mode="eval").body
            except SyntaxError:
                continue
            if not isinstance(e, ast.BoolOp):
                continue
            is_and = isinstance(e.op, ast.And)
            if not ((is_and and val is False) or (not is_and and val is True)):
                continue
            want = is_and  # the value the other operands must be known to have
            unknown = []
            for v in e.values:
                ats = implied_atoms(v, want)
                if ats and all(a.get(t) == b for t, b in ats):
                    continue
                unknown.append(v)
            if not unknown:
                return False
            if len(unknown) == 1:
                for t, b in implied_atoms(unknown[0], not want):
                    if t in a and a[t] != b:
                        return False
                    if t not in a:
                        a[t] = b
                        changed = True
    return True


def assignment_atoms(st: ast.AST) -> List[Tuple[str, bool]]:
    tg = st.targets if isinstance(st, ast.Assign) else [st.target]
    v = st.value
    if v is None or len(tg) != 1 or not isinstance(tg[0], ast.Name):
        return []
    x = tg[0].id
    if isinstance(v, ast.Constant):
        if v.value is None:
            return [(f"{x} is None", True), (x, False)]
        out = [(f"{x} is None", False)]
        if isinstance(v.value, bool):
            out.append((x, v.value))
        return out
    if isinstance(v, (ast.JoinedStr, ast.List, ast.Dict, ast.Set, ast.Tuple, ast.ListComp, ast.DictComp, ast.SetComp, ast.Lambda)):
        return [(f"{x} is None", False)]
    return []


def implied_atoms(test: ast.AST, outcome: bool) -> List[Tuple[str, bool]]:
    """Atomic facts implied by `test` evaluating to `outcome`:
    (a and b) True => a True, b True; (a or b) False => a False, b False; not a => a flipped;
    `x is not None` is recorded as (`x is None`, flipped), likewise != / not in."""
    if isinstance(test, ast.BoolOp):
        if (isinstance(test.op, ast.And) and outcome) or (isinstance(test.op, ast.Or) and not outcome):
            out: List[Tuple[str, bool]] = []
            for v in test.values:
                out += implied_atoms(v, outcome)
            return out
        return [(ast.unparse(test), outcome)]
    if isinstance(test, ast.UnaryOp) and isinstance(test.op, ast.Not):
        return implied_atoms(test.operand, not outcome)
    if isinstance(test, ast.Compare) and len(test.ops) == 1:
        l, op, r = test.left, test.ops[0], test.comparators[0]
        if _is_len(r) and isinstance(l, ast.Constant):  # 0 < len(x)  ->  len(x) > 0
            mirror = {ast.Lt: ast.Gt, ast.Gt: ast.Lt, ast.LtE: ast.GtE, ast.GtE: ast.LtE, ast.Eq: ast.Eq, ast.NotEq: ast.NotEq}
            if type(op) in mirror:
                l, op, r = r, mirror[type(op)](), l
        if _is_len(l) and isinstance(r, ast.Constant) and isinstance(r.value, int):
            atom = f"len({ast.unparse(l.args[0])}) == 0"
            k = r.value
            if (isinstance(op, ast.Eq) and k == 0) or (isinstance(op, ast.Lt) and k == 1) or (isinstance(op, ast.LtE) and k == 0):
                return [(atom, outcome)]
            if (isinstance(op, (ast.NotEq, ast.Gt)) and k == 0) or (isinstance(op, ast.GtE) and k == 1):
                return [(atom, not outcome)]
        flip = {ast.IsNot: ast.Is, ast.NotEq: ast.Eq, ast.NotIn: ast.In}
        for neg, pos in flip.items():
            if isinstance(test.ops[0], neg):
                t2 = ast.Compare(left=test.left, ops=[pos()], comparators=test.comparators)
                return [(ast.unparse(t2), not outcome)]
    if isinstance(test, (ast.Name, ast.Attribute)):
        # truthiness of a container: truthy => non-empty; falsy => nothing to iterate
        return [(ast.unparse(test), outcome), (f"len({ast.unparse(test)}) == 0", not outcome)]
    return [(ast.unparse(test), outcome)]


def _is_len(e: ast.AST) -> bool:
    return isinstance(e, ast.Call) and isinstance(e.func, ast.Name) and e.func.id == "len" and len(e.args) == 1


def emptiness_chains(it: ast.AST) -> Set[str]:
    """Expressions E such that the loop `for _ in it` runs zero times iff (some) E is empty.
    '?' marks an argument whose emptiness is not tied to a nameable container."""
    if isinstance(it, (ast.Name, ast.Attribute)):
        return {ast.unparse(it)}
    if isinstance(it, ast.Call):
        f = it.func
        if isinstance(f, ast.Name):
            if f.id == "zip":
                out: Set[str] = set()
                for a in it.args:
                    out |= emptiness_chains(a)
                return out or {"?"}
            if f.id in ("enumerate", "list", "tuple", "sorted", "reversed", "iter", "set") and it.args:
                return emptiness_chains(it.args[0])
            if f.id == "range":
                # range(len(E)) / range(k, len(E) + k)
                if len(it.args) == 1 and _is_len(it.args[0]):
                    return {ast.unparse(it.args[0].args[0])}
                if len(it.args) == 2 and isinstance(it.args[0], ast.Constant) and isinstance(it.args[1], ast.BinOp) and isinstance(it.args[1].op, ast.Add):
                    b = it.args[1]
                    if _is_len(b.left) and isinstance(b.right, ast.Constant) and b.right.value == it.args[0].value:
                        return {ast.unparse(b.left.args[0])}
                return {"?"}
        if isinstance(f, ast.Attribute) and f.attr in ("items", "values", "keys") and not it.args:
            return emptiness_chains(f.value)
    return {"?"}


_TT_CACHE: Dict[str, Set[str]] = {}


def test_text_vars(txt: str) -> Set[str]:
    if txt not in _TT_CACHE:
        try:
            _TT_CACHE[txt] = {x.id for x in ast.walk(ast.parse(txt, mode="eval")) if isinstance(x, ast.Name)}
        except SyntaxError:
            _TT_CACHE[txt] = set()
    return _TT_CACHE[txt]


def possibly_unbound_uses(cfg: CFG, correlated: bool = True) -> List[Tuple[str, CFGNode, ast.Name, List[CFGNode]]]:
    IN = may_unbound(cfg)
    res = []
    for n in cfg.nodes:
        if n.ast is None:
            continue
        cand = IN[n]
        if not cand:
            continue
        seen: Set[str] = set()
        for nm in node_uses(n):
            if nm.id in cand and nm.id not in seen:
                seen.add(nm.id)
                w = unbound_witness(cfg, nm.id, n, correlated=correlated)
                if w is not None:
                    res.append((nm.id, n, nm, w))
    return res


# ------------------------------------------------------------------------- reaching definitions
Def = Tuple[str, CFGNode]


def reaching_defs(cfg: CFG) -> Dict[CFGNode, Dict[str, Set[CFGNode]]]:
    """IN[n][var] = CFG nodes whose binding of var may reach the entry of n. Parameters are bound at entry."""
    IN: Dict[CFGNode, Dict[str, Set[CFGNode]]] = {n: {} for n in cfg.nodes}
    for p in func_params(cfg.fn):
        IN[cfg.entry][p] = {cfg.entry}
    work = [cfg.entry]
    while work:
        n = work.pop()
        inn = IN[n]
        defs = node_defs(n)
        if defs:
            out = {k: v for k, v in inn.items() if k not in defs}
            for d in defs:
                out[d] = {n}
        else:
            out = inn
        for s in cfg.g.successors(n):
            lab = cfg.g[n][s].get("label")
            labs = lab if isinstance(lab, tuple) else (lab,)
            changed = False
            for l in labs:
                flow = inn if (l == "exc" or (n.kind == "for" and l is False)) else out
                tgt = IN[s]
                for k, v in flow.items():
                    cur = tgt.get(k)
                    if cur is None:
                        tgt[k] = set(v)
                        changed = True
                    elif not v <= cur:
                        cur |= v
                        changed = True
            if changed:
                work.append(s)
    return IN


def def_value(n: CFGNode, var: str) -> Optional[ast.AST]:
    """The expression whose value is bound to `var` by node n (None if not a plain binding).
    For tuple targets / for-targets the whole right-hand side / iterable is returned (element-of relation)."""
    a = n.ast
    if n.kind == "for":
        owner = n.owner
        return owner.iter if owner is not None else None
    if n.kind == "with":
        for it in a.items:
            if it.optional_vars is not None and var in _target_names(it.optional_vars):
                return it.context_expr
        return None
    if isinstance(a, ast.Assign):
        # a, b = x, y  ->  the matching element
        if len(a.targets) == 1 and isinstance(a.targets[0], (ast.Tuple, ast.List)) and isinstance(a.value, (ast.Tuple, ast.List)) and len(a.targets[0].elts) == len(a.value.elts):
            for t, v in zip(a.targets[0].elts, a.value.elts):
                if isinstance(t, ast.Name) and t.id == var:
                    return v
        return a.value
    if isinstance(a, ast.AnnAssign):
        return a.value
    if isinstance(a, ast.AugAssign):
        return a  # depends on both
    for x in ast.walk(a) if a is not None else []:
        if isinstance(x, ast.NamedExpr) and isinstance(x.target, ast.Name) and x.target.id == var:
            return x.value
    return None


class DefUse:
    """Dependency closure of local values inside one function."""

    def __init__(self, cfg: CFG):
        self.cfg = cfg
        self.rd = reaching_defs(cfg)
        self.locals = local_names(cfg.fn) | func_params(cfg.fn)

    def sources(self, expr: ast.AST, at: CFGNode, depth: int = 12) -> Set[Tuple[str, ...]]:
        """Access paths (see index.chain) the value of `expr`, evaluated at node `at`, may be derived from:
        local names are replaced transitively by what was assigned to them."""
        out: Set[Tuple[str, ...]] = set()
        seen: Set[Tuple[int, int]] = set()

        def visit(e: ast.AST, node: CFGNode, d: int) -> None:
            key = (id(e), node.idx)
            if key in seen or d < 0:
                return
            seen.add(key)
            for x in ast.walk(e):
                if isinstance(x, (ast.Attribute, ast.Call, ast.Subscript, ast.Name)):
                    c = chain(x)
                    if c is not None:
                        out.add(c)
                if isinstance(x, ast.Name) and isinstance(x.ctx, ast.Load):
                    for dn in self.rd.get(node, {}).get(x.id, ()):  # definitions reaching here
                        if dn is self.cfg.entry:
                            continue
                        v = def_value(dn, x.id)
                        if v is not None:
                            visit(v, dn, d - 1)

        visit(expr, at, depth)
        return out

    def expanded_chains(self, expr: ast.AST, at: CFGNode, depth: int = 8) -> Set[Tuple[str, ...]]:
        """Like sources(), but local roots are substituted: `t = f.type; t.lower_bound` gives
        ('f','type','lower_bound') and, if f iterates self._problem.fluents,
        ('self','_problem','fluents','<elem>','type','lower_bound')."""
        res: Set[Tuple[str, ...]] = set()

        def expand(c: Tuple[str, ...], node: CFGNode, d: int, seen: FrozenSet) -> Set[Tuple[str, ...]]:
            root = c[0]
            outs: Set[Tuple[str, ...]] = {c}
            if d <= 0 or root.endswith("()"):
                return outs
            for dn in self.rd.get(node, {}).get(root, ()):  # definitions of the root
                if dn is self.cfg.entry or (dn.idx, root) in seen:
                    continue
                v = def_value(dn, root)
                if v is None:
                    continue
                elem = ("<elem>",) if dn.kind == "for" else ()
                # strip wrappers like cast(T, x), list(x), sorted(x), enumerate(x), zip(x, y)
                for base in _value_chains(v):
                    for b in expand(base, dn, d - 1, seen | {(dn.idx, root)}):
                        outs.add(b + elem + c[1:])
            return outs

        for x in ast.walk(expr):
            if isinstance(x, (ast.Attribute, ast.Call, ast.Subscript, ast.Name)):
                c = chain(x)
                if c is not None:
                    res |= expand(c, at, depth, frozenset())
        return res


_TRANSPARENT = {"cast", "list", "tuple", "sorted", "set", "frozenset", "enumerate", "zip", "reversed", "iter", "chain", "product"}


def _value_chains(v: ast.AST) -> List[Tuple[str, ...]]:
    """Chains a bound value is (an element / alias of)."""
    if isinstance(v, ast.Starred):
        return _value_chains(v.value)
    if isinstance(v, ast.Call) and isinstance(v.func, ast.Name) and v.func.id == "map" and len(v.args) >= 2:
        out = []
        for a in v.args[1:]:
            out += _value_chains(a)
        return out
    if isinstance(v, ast.Call) and isinstance(v.func, ast.Name) and v.func.id in _TRANSPARENT:
        out = []
        args = v.args[1:] if v.func.id == "cast" else v.args
        for a in args:
            out += _value_chains(a)
        return out
    if isinstance(v, ast.Call) and isinstance(v.func, ast.Attribute) and v.func.attr in ("items", "values", "keys", "copy"):
        return _value_chains(v.func.value)
    if isinstance(v, (ast.Tuple, ast.List)):
        out = []
        for e in v.elts:
            out += _value_chains(e)
        return out
    if isinstance(v, ast.IfExp):
        return _value_chains(v.body) + _value_chains(v.orelse)
    if isinstance(v, ast.BinOp):
        return _value_chains(v.left) + _value_chains(v.right)
    c = chain(v)
    return [c] if c is not None else []
