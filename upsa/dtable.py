"""Decision-table extraction: a small three-valued abstract interpreter for predicate functions over a finite
domain (DESIGN.md section 2, finite abstract interpreters (b)).

Values: abstract strings (e.g. the type class of an operand: 'bool','int','real','time','user'), the
constants None/True/False, or TOP. Conditions evaluate to True / False / TOP; on TOP both branches are explored
and the outcome is the set of all results. Constructs outside the fragment evaluate to TOP.
"""
from __future__ import annotations

import ast
from typing import Any, Callable, Dict, List, Optional, Set, Tuple


class _Top:
    def __repr__(self) -> str:
        return "TOP"


TOP = _Top()


class Obj:
    """An abstract operand: `cls` is its class in the finite domain, `ident` tells two operands apart."""

    def __init__(self, cls: str, ident: int):
        self.cls = cls
        self.ident = ident

    def __repr__(self) -> str:
        return f"<{self.cls}#{self.ident}>"


Outcome = Tuple[str, str]  # ('return', text) | ('raise', text) | ('fallthrough', '')


class AbsInterp:
    def __init__(self, method_eval: Callable[[Any, str, List[Any]], Any], max_states: int = 4096):
        """method_eval(receiver, method name, args) -> True / False / TOP / value"""
        self.method_eval = method_eval
        self.max_states = max_states
        self.unknown: List[str] = []

    # ------------------------------------------------------------------ public
    def run(self, fn: ast.AST, env: Dict[str, Any]) -> Set[Outcome]:
        self._n = 0
        outs: Set[Outcome] = set()
        for kind, val, _ in self._block(list(fn.body), dict(env)):
            if kind == "next":
                outs.add(("return", "None"))  # falling off the end
            else:
                outs.add((kind, val))
        return outs

    # ------------------------------------------------------------------ statements
    def _block(self, stmts: List[ast.stmt], env: Dict[str, Any]):
        """Yields (kind, value, env): kind in next / return / raise / break / continue."""
        if not stmts:
            yield ("next", "", env)
            return
        s, rest = stmts[0], stmts[1:]
        for kind, val, e2 in self._stmt(s, env):
            if kind == "next":
                yield from self._block(rest, e2)
            else:
                yield (kind, val, e2)

    def _stmt(self, s: ast.stmt, env: Dict[str, Any]):
        self._n += 1
        if self._n > self.max_states:
            self.unknown.append("state budget exhausted")
            yield ("return", "TOP", env)
            return
        if isinstance(s, ast.Expr):
            yield ("next", "", env)
        elif isinstance(s, (ast.Assert, ast.Pass)):
            yield ("next", "", env)
        elif isinstance(s, ast.Assign) and len(s.targets) == 1:
            v = self._expr(s.value, env)
            e2 = dict(env)
            self._bind(s.targets[0], v, e2)
            yield ("next", "", e2)
        elif isinstance(s, ast.AnnAssign) and s.value is not None:
            e2 = dict(env)
            self._bind(s.target, self._expr(s.value, env), e2)
            yield ("next", "", e2)
        elif isinstance(s, ast.Return):
            v = self._expr(s.value, env) if s.value is not None else None
            yield ("return", self._show(v, s.value), env)
        elif isinstance(s, ast.Raise):
            yield ("raise", ast.unparse(s.exc.func if isinstance(s.exc, ast.Call) else s.exc) if s.exc is not None else "re-raise", env)
        elif isinstance(s, ast.If):
            c = self._cond(s.test, env)
            if c is True or c is TOP:
                yield from self._block(list(s.body), env)
            if c is False or c is TOP:
                yield from self._block(list(s.orelse), env)
        elif isinstance(s, ast.For):
            it = self._expr(s.iter, env)
            if not isinstance(it, list):
                self.unknown.append("loop over " + ast.unparse(s.iter))
                e2 = dict(env)
                self._bind(s.target, TOP, e2)
                # zero or one abstract iteration
                yield ("next", "", env)
                for kind, val, e3 in self._block(list(s.body), e2):
                    yield ("next", "", e3) if kind in ("next", "continue", "break") else (kind, val, e3)
                return
            yield from self._loop(s, it, 0, env)
        elif isinstance(s, ast.Break):
            yield ("break", "", env)
        elif isinstance(s, ast.Continue):
            yield ("continue", "", env)
        else:
            self.unknown.append("statement " + type(s).__name__)
            e2 = dict(env)
            for n in ast.walk(s):
                if isinstance(n, ast.Name) and isinstance(n.ctx, ast.Store):
                    e2[n.id] = TOP
            yield ("next", "", e2)

    def _loop(self, s: ast.For, items: List[Any], i: int, env: Dict[str, Any]):
        if i >= len(items):
            yield from self._block(list(s.orelse), env)
            return
        e2 = dict(env)
        self._bind(s.target, items[i], e2)
        for kind, val, e3 in self._block(list(s.body), e2):
            if kind in ("next", "continue"):
                yield from self._loop(s, items, i + 1, e3)
            elif kind == "break":
                yield ("next", "", e3)
            else:
                yield (kind, val, e3)

    def _bind(self, target: ast.AST, v: Any, env: Dict[str, Any]) -> None:
        if isinstance(target, ast.Name):
            env[target.id] = v
        elif isinstance(target, (ast.Tuple, ast.List)):
            for j, t in enumerate(target.elts):
                self._bind(t, v[j] if isinstance(v, (list, tuple)) and j < len(v) else TOP, env)

    def _show(self, v: Any, node: Optional[ast.AST]) -> str:
        if v is TOP and node is not None:
            return ast.unparse(node)
        return repr(v) if not isinstance(v, str) else v

    # ------------------------------------------------------------------ expressions
    def _cond(self, e: ast.expr, env) -> Any:
        v = self._expr(e, env)
        if v is True or v is False:
            return v
        if v is None:
            return False
        if isinstance(v, Obj):
            return True
        return TOP

    def _expr(self, e: Optional[ast.expr], env) -> Any:
        if e is None:
            return None
        if isinstance(e, ast.Constant):
            return e.value
        if isinstance(e, ast.Name):
            return env.get(e.id, e.id if e.id.isupper() else TOP)
        if isinstance(e, ast.Subscript) and isinstance(e.slice, ast.Constant):
            base = self._expr(e.value, env)
            if isinstance(base, (list, tuple)) and isinstance(e.slice.value, int) and e.slice.value < len(base):
                return base[e.slice.value]
            return TOP
        if isinstance(e, ast.BoolOp):
            vals = [self._cond(v, env) for v in e.values]
            if isinstance(e.op, ast.And):
                if any(v is False for v in vals):
                    return False  # conditions are side-effect free: one definite False decides the conjunction
                return TOP if any(v is TOP for v in vals) else True
            if any(v is True for v in vals):
                return True
            return TOP if any(v is TOP for v in vals) else False
        if isinstance(e, ast.UnaryOp) and isinstance(e.op, ast.Not):
            v = self._cond(e.operand, env)
            return TOP if v is TOP else (not v)
        if isinstance(e, ast.Compare) and len(e.ops) == 1:
            l, r = self._expr(e.left, env), self._expr(e.comparators[0], env)
            op = e.ops[0]
            if isinstance(op, (ast.Is, ast.IsNot)):
                if l is TOP or r is TOP:
                    return TOP
                same = (l is r) if not (l is None or r is None) else (l is None and r is None)
                return same if isinstance(op, ast.Is) else (not same)
            if isinstance(op, (ast.Eq, ast.NotEq)):
                if isinstance(l, Obj) and isinstance(r, Obj):
                    if l.ident == r.ident:
                        eq: Any = True
                    elif l.cls != r.cls:
                        eq = False
                    else:
                        eq = TOP
                    if eq is TOP:
                        return TOP
                    return eq if isinstance(op, ast.Eq) else (not eq)
                return TOP
            return TOP
        if isinstance(e, ast.Call):
            f = e.func
            if isinstance(f, ast.Name) and f.id == "cast" and len(e.args) == 2:
                return self._expr(e.args[1], env)
            if isinstance(f, ast.Attribute):
                recv = self._expr(f.value, env)
                args = [self._expr(a, env) for a in e.args]
                return self.method_eval(recv, f.attr, args)
            return TOP
        return TOP
