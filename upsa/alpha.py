"""Behaviour-preserving rewrite used by the self-test: rename the local variables of every function of a source
file (parameters, attributes, globals and anything a nested scope rebinds are left alone). A check that fires on
the renamed tree but not on the original keys on a spelling, not on the property."""
from __future__ import annotations

import ast
from typing import Dict, List, Set, Tuple

SCOPES = (ast.FunctionDef, ast.AsyncFunctionDef, ast.Lambda, ast.ListComp, ast.SetComp, ast.DictComp, ast.GeneratorExp, ast.ClassDef)


def _own_nodes(scope: ast.AST):
    """nodes of the scope itself (nested scopes are yielded as nodes but not entered)"""
    todo = list(ast.iter_child_nodes(scope))
    while todo:
        n = todo.pop()
        yield n
        if not isinstance(n, SCOPES):
            todo.extend(ast.iter_child_nodes(n))


def _params(fn) -> Set[str]:
    a = fn.args
    out = {x.arg for x in list(a.posonlyargs) + list(a.args) + list(a.kwonlyargs)}
    if a.vararg:
        out.add(a.vararg.arg)
    if a.kwarg:
        out.add(a.kwarg.arg)
    return out


def _bound_anywhere(scope: ast.AST) -> Set[str]:
    """names bound by a nested scope (its parameters, its stores, comprehension targets), at any depth"""
    out: Set[str] = set()
    for n in ast.walk(scope):
        if isinstance(n, (ast.FunctionDef, ast.AsyncFunctionDef, ast.Lambda)):
            out |= _params(n)
        if isinstance(n, ast.Name) and isinstance(n.ctx, (ast.Store, ast.Del)):
            out.add(n.id)
    return out


def renamable(fn) -> Set[str]:
    stores: Set[str] = set()
    blocked: Set[str] = set(_params(fn))
    for n in _own_nodes(fn):
        if isinstance(n, ast.Name) and isinstance(n.ctx, ast.Store):
            stores.add(n.id)
        elif isinstance(n, (ast.Global, ast.Nonlocal)):
            blocked |= set(n.names)
        elif isinstance(n, ast.ExceptHandler) and n.name:
            blocked.add(n.name)
        elif isinstance(n, (ast.Import, ast.ImportFrom)):
            blocked |= {(a.asname or a.name).split(".")[0] for a in n.names}
        elif isinstance(n, (ast.FunctionDef, ast.AsyncFunctionDef, ast.ClassDef)):
            blocked.add(n.name)
            blocked |= _bound_anywhere(n)
        elif isinstance(n, (ast.Lambda, ast.ListComp, ast.SetComp, ast.DictComp, ast.GeneratorExp)):
            blocked |= _bound_anywhere(n)
        elif isinstance(n, ast.MatchAs) and n.name:
            blocked.add(n.name)
        elif isinstance(n, ast.MatchStar) and n.name:
            blocked.add(n.name)
    return {s for s in stores - blocked if not s.startswith("__") and s.strip("_")}


def alpha_rename(src: str, suffix: str = "_rn", annotate: bool = True) -> Tuple[str, int]:
    """Returns (new source, number of renamed occurrences). Only top-level functions and methods are treated (their
    nested scopes are renamed consistently or the name is left alone)."""
    tree = ast.parse(src)
    lines = src.splitlines(keepends=True)
    # byte offsets: ast col_offset is in utf-8 bytes
    edits: List[Tuple[int, int, int, str]] = []
    targets = []
    for n in tree.body:
        if isinstance(n, (ast.FunctionDef, ast.AsyncFunctionDef)):
            targets.append(n)
        elif isinstance(n, ast.ClassDef):
            targets += [m for m in n.body if isinstance(m, (ast.FunctionDef, ast.AsyncFunctionDef))]
    for fn in targets:
        names = renamable(fn)
        if not names:
            continue
        taken = {x.id for x in ast.walk(fn) if isinstance(x, ast.Name)} | _params(fn)
        names = {x for x in names if x + suffix not in taken}
        # plain single-target assignments to a renamed local also get an annotation (`x_rn: object = v`): annotations
        # of locals are not evaluated, so this is behaviour-preserving too
        annotated = set()
        if annotate:
            for st in ast.walk(fn):
                if isinstance(st, ast.Assign) and len(st.targets) == 1 and isinstance(st.targets[0], ast.Name) and st.targets[0].id in names:
                    annotated.add(id(st.targets[0]))
        for x in ast.walk(fn):
            if isinstance(x, ast.Name) and x.id in names and x.end_lineno == x.lineno:
                edits.append((x.lineno, x.col_offset, x.end_col_offset, x.id + suffix + (": object" if id(x) in annotated else "")))
    by_line: Dict[int, List[Tuple[int, int, str]]] = {}
    for ln, c0, c1, new in edits:
        by_line.setdefault(ln, []).append((c0, c1, new))
    count = 0
    for ln, es in by_line.items():
        raw = lines[ln - 1].encode("utf-8")
        for c0, c1, new in sorted(set(es), reverse=True):
            raw = raw[:c0] + new.encode("utf-8") + raw[c1:]
            count += 1
        lines[ln - 1] = raw.decode("utf-8")
    return "".join(lines), count


def interleave_noops(src: str) -> str:
    """A second behaviour-preserving rewrite: a no-op statement (`pass`) after every statement of every function body
    (what a maintainer's added log line looks like to a rule that relies on two statements being adjacent). The
    result is re-generated from the tree (comments are lost, which no rule reads)."""
    tree = ast.parse(src)

    class T(ast.NodeTransformer):
        def __init__(self):
            self.depth = 0

        def _blocks(self, node):
            for fld in ("body", "orelse", "finalbody"):
                blk = getattr(node, fld, None)
                if isinstance(blk, list) and blk and all(isinstance(x, ast.stmt) for x in blk):
                    out = []
                    for i, st in enumerate(blk):
                        out.append(st)
                        is_doc = i == 0 and fld == "body" and isinstance(node, (ast.FunctionDef, ast.AsyncFunctionDef)) and isinstance(st, ast.Expr) and isinstance(st.value, ast.Constant) and isinstance(st.value.value, str)
                        if not is_doc and not isinstance(st, (ast.Return, ast.Raise, ast.Continue, ast.Break, ast.Global, ast.Nonlocal)):
                            out.append(ast.copy_location(ast.Pass(), st))
                    setattr(node, fld, out)
            if isinstance(node, ast.Try):
                for h in node.handlers:
                    self._blocks(h)

        def generic_visit(self, node):
            super().generic_visit(node)
            if self.depth > 0 and isinstance(node, (ast.If, ast.For, ast.AsyncFor, ast.While, ast.With, ast.AsyncWith, ast.Try)):
                self._blocks(node)
            return node

        def visit_FunctionDef(self, node):
            self.depth += 1
            self.generic_visit(node)
            self._blocks(node)
            self.depth -= 1
            return node

        visit_AsyncFunctionDef = visit_FunctionDef

        def visit_ClassDef(self, node):
            d, self.depth = self.depth, 0
            self.generic_visit(node)
            self.depth = d
            return node

    return ast.unparse(ast.fix_missing_locations(T().visit(tree))) + "\n"


def reshape_logic(src: str, invert_ifs: bool = True, mirror: bool = True) -> str:
    """A third behaviour-preserving rewrite, inside function bodies only:
    * `if c: A else: B` (no elif chain) becomes `if not c: B else: A`;
    * `x == K` / `x != K` / `x is K` / `x is not K` with K a literal, None or an ALL_CAPS / Enum-like constant becomes
      `K == x` … (both operands are evaluated either way; only builtin comparisons with constants are mirrored, so no
      user-defined reflected operator changes the result).
    What a maintainer's stylistic clean-up looks like to a rule that reads the polarity or the operand order of a test."""
    tree = ast.parse(src)

    def constant_like(e: ast.AST) -> bool:
        if isinstance(e, ast.Constant):
            return True
        if isinstance(e, ast.Name) and e.id.isupper():
            return True
        if isinstance(e, ast.Attribute) and e.attr.isupper() and isinstance(e.value, ast.Name) and e.value.id[:1].isupper():
            return True
        return False

    class T(ast.NodeTransformer):
        def __init__(self):
            self.in_fn = 0

        def visit_FunctionDef(self, node):
            self.in_fn += 1
            self.generic_visit(node)
            self.in_fn -= 1
            return node

        visit_AsyncFunctionDef = visit_FunctionDef

        def visit_If(self, node):
            self.generic_visit(node)
            if self.in_fn and invert_ifs and node.orelse and not (len(node.orelse) == 1 and isinstance(node.orelse[0], ast.If)):
                test = node.test
                if isinstance(test, ast.UnaryOp) and isinstance(test.op, ast.Not):
                    new_test = test.operand
                else:
                    new_test = ast.UnaryOp(op=ast.Not(), operand=test)
                node.test, node.body, node.orelse = ast.copy_location(new_test, test), node.orelse, node.body
            return node

        def visit_Compare(self, node):
            self.generic_visit(node)
            if self.in_fn and mirror and len(node.ops) == 1 and isinstance(node.ops[0], (ast.Eq, ast.NotEq, ast.Is, ast.IsNot)) and constant_like(node.comparators[0]) and not constant_like(node.left):
                node.left, node.comparators = node.comparators[0], [node.left]
            return node

    tree = T().visit(tree)
    ast.fix_missing_locations(tree)
    return ast.unparse(tree) + "\n"


def flatten_else(src: str) -> str:
    """A fourth behaviour-preserving rewrite (pylint's no-else-return): inside function bodies, when the body of an
    `if` always leaves the block (its last statement is return / raise / continue / break), the `else:` branch is
    hoisted after the `if`. elif chains are flattened link by link."""
    tree = ast.parse(src)

    def leaves(block) -> bool:
        return bool(block) and isinstance(block[-1], (ast.Return, ast.Raise, ast.Continue, ast.Break))

    class T(ast.NodeTransformer):
        def __init__(self):
            self.in_fn = 0

        def visit_FunctionDef(self, node):
            self.in_fn += 1
            self.generic_visit(node)
            self.in_fn -= 1
            return node

        visit_AsyncFunctionDef = visit_FunctionDef

        def generic_visit(self, node):
            super().generic_visit(node)
            if not self.in_fn:
                return node
            for fld in ("body", "orelse", "finalbody"):
                blk = getattr(node, fld, None)
                if isinstance(blk, list) and blk and all(isinstance(x, ast.stmt) for x in blk):
                    out = []
                    for st in blk:
                        out.append(st)
                        while isinstance(out[-1], ast.If) and out[-1].orelse and leaves(out[-1].body):
                            i = out[-1]
                            rest, i.orelse = i.orelse, []
                            out.extend(rest)
                    setattr(node, fld, out)
            return node

    tree = T().visit(tree)
    ast.fix_missing_locations(tree)
    return ast.unparse(tree) + "\n"


def hoist_returns(src: str) -> str:
    """A fifth behaviour-preserving rewrite: inside function bodies `return E` (E not a name or a literal) becomes
    `result_k = E; return result_k` — what naming or logging a result looks like."""
    tree = ast.parse(src)

    class T(ast.NodeTransformer):
        def __init__(self):
            self.k = 0
            self.fn = 0

        def visit_FunctionDef(self, node):
            self.fn += 1
            self.generic_visit(node)
            self.fn -= 1
            return node

        visit_AsyncFunctionDef = visit_FunctionDef

        def visit_Lambda(self, node):
            return node

        def generic_visit(self, node):
            super().generic_visit(node)
            if self.fn:
                for fld in ("body", "orelse", "finalbody"):
                    blk = getattr(node, fld, None)
                    if isinstance(blk, list) and blk and all(isinstance(x, ast.stmt) for x in blk):
                        out = []
                        for st in blk:
                            if isinstance(st, ast.Return) and st.value is not None and not isinstance(st.value, (ast.Name, ast.Constant)):
                                self.k += 1
                                nm = f"result_{self.k}"
                                out.append(ast.copy_location(ast.Assign(targets=[ast.Name(nm, ast.Store())], value=st.value), st))
                                out.append(ast.copy_location(ast.Return(ast.Name(nm, ast.Load())), st))
                            else:
                                out.append(st)
                        setattr(node, fld, out)
            return node

    tree = T().visit(tree)
    ast.fix_missing_locations(tree)
    return ast.unparse(tree) + "\n"


def hoist_tests(src: str) -> str:
    """A sixth behaviour-preserving rewrite: `if T:` whose test contains a call becomes `cond_k = T; if cond_k:` (only
    for an `if` that is a statement of a block, not an `elif` link, and not inside a loop header)."""
    tree = ast.parse(src)

    class T(ast.NodeTransformer):
        def __init__(self):
            self.k = 0
            self.fn = 0

        def visit_FunctionDef(self, node):
            self.fn += 1
            self.generic_visit(node)
            self.fn -= 1
            return node

        visit_AsyncFunctionDef = visit_FunctionDef

        def visit_Lambda(self, node):
            return node

        def generic_visit(self, node):
            super().generic_visit(node)
            if self.fn:
                for fld in ("body", "finalbody"):
                    blk = getattr(node, fld, None)
                    if isinstance(blk, list) and blk and all(isinstance(x, ast.stmt) for x in blk):
                        out = []
                        for st in blk:
                            if isinstance(st, ast.If) and any(isinstance(c, ast.Call) for c in ast.walk(st.test)) and not any(isinstance(c, ast.NamedExpr) for c in ast.walk(st.test)):
                                self.k += 1
                                nm = f"cond_{self.k}"
                                out.append(ast.copy_location(ast.Assign(targets=[ast.Name(nm, ast.Store())], value=st.test), st))
                                st.test = ast.copy_location(ast.Name(nm, ast.Load()), st.test)
                            out.append(st)
                        setattr(node, fld, out)
            return node

    tree = T().visit(tree)
    ast.fix_missing_locations(tree)
    return ast.unparse(tree) + "\n"


def split_conjunctions(src: str) -> str:
    """A seventh behaviour-preserving rewrite: inside function bodies `if A and B: X` without else becomes
    `if A: if B: X` (short-circuit order kept)."""
    tree = ast.parse(src)

    class T(ast.NodeTransformer):
        def __init__(self):
            self.fn = 0

        def visit_FunctionDef(self, node):
            self.fn += 1
            self.generic_visit(node)
            self.fn -= 1
            return node

        visit_AsyncFunctionDef = visit_FunctionDef

        def visit_If(self, node):
            self.generic_visit(node)
            if self.fn and not node.orelse and isinstance(node.test, ast.BoolOp) and isinstance(node.test.op, ast.And) and len(node.test.values) >= 2:
                first, rest = node.test.values[0], node.test.values[1:]
                inner_test = rest[0] if len(rest) == 1 else ast.BoolOp(op=ast.And(), values=rest)
                inner = ast.copy_location(ast.If(test=inner_test, body=node.body, orelse=[]), node)
                node.test, node.body = first, [inner]
            return node

    tree = T().visit(tree)
    ast.fix_missing_locations(tree)
    return ast.unparse(tree) + "\n"
