"""Role normalisation. Several clauses are easiest to state with the names the pinned tree uses for its local
variables (`p, e, status = stack.pop()`). To keep them independent of spelling, the local variables are first
recognised by the *role* they play (what they are unpacked from, what is appended to them, where they are
returned) and the function is analysed on a copy in which each recognised local carries its role name. A local
that cannot be recognised keeps its own name; a role that cannot be found makes the clause report an analysis
error, never a violation."""
from __future__ import annotations

import ast
import copy
import dataclasses
from typing import Callable, Dict, Optional

from .index import FuncInfo, call_name, norm, walk_no_nested


def with_roles(f: FuncInfo, mapping: Dict[str, str]) -> FuncInfo:
    """A FuncInfo whose node is a copy of f.node with local names renamed actual -> role (positions kept)."""
    mapping = {a: r for a, r in mapping.items() if a != r}
    if not mapping:
        return f
    node = copy.deepcopy(f.node)
    # a role name that is already used for something else in the function would be captured: rename it away first
    used = {x.id for x in ast.walk(node) if isinstance(x, ast.Name)}
    clash = {r: r + "_other" for r in mapping.values() if r in used and r not in mapping}
    full = dict(clash)
    full.update(mapping)
    for x in ast.walk(node):
        if isinstance(x, ast.Name) and x.id in full:
            x.id = full[x.id]
    return dataclasses.replace(f, node=node)


def unpack_targets(fn: ast.AST, pred: Callable[[ast.AST], bool]) -> Optional[ast.Tuple]:
    """the tuple target of the first `a, b, c = <value satisfying pred>`"""
    for a in walk_no_nested(fn):
        if isinstance(a, ast.Assign) and isinstance(a.targets[0], ast.Tuple) and pred(a.value):
            return a.targets[0]
    return None


def assigned_from_call(fn: ast.AST, *callees: str) -> Dict[str, str]:
    """{local name: callee} for `x = <…>.callee(…)` / `x = callee(…)`"""
    out: Dict[str, str] = {}
    for a in walk_no_nested(fn):
        if isinstance(a, ast.Assign) and len(a.targets) == 1 and isinstance(a.targets[0], ast.Name) and isinstance(a.value, ast.Call) and call_name(a.value) in callees:
            out.setdefault(a.targets[0].id, call_name(a.value))
    return out


def returned_names(fn: ast.AST):
    return [r.value.id for r in walk_no_nested(fn) if isinstance(r, ast.Return) and isinstance(r.value, ast.Name)]
