"""Finite interpreter for the ProblemKind DSL used by supported_kind() / resulting_problem_kind() bodies.

The fragment: ProblemKind(...) construction, .clone(), set_*/unset_*("LIT"), has_*() guards combined with
and/or/not, `for f in FEATURES["CAT"]`, .union/.intersection, calls to another class's supported_kind().
Anything else evaluates to TOP and the enclosing obligation is reported inconclusive, never as a violation.
"""
from __future__ import annotations

import ast
from dataclasses import dataclass, field
from typing import Any, Dict, List, Optional, Set, Tuple

from .index import AnalysisError, ClassInfo, FuncInfo, Index


class Top:
    def __repr__(self) -> str:
        return "TOP"


TOP = Top()


@dataclass
class ApiError:
    node: ast.AST
    func: FuncInfo
    message: str


class KindTables:
    """FEATURES / FEATURES_VERSIONS / LATEST_PROBLEM_KIND_VERSION read from the source."""

    def __init__(self, idx: Index):
        pk = idx.module("model.problem_kind")
        pv = idx.module("model.problem_kind_versioning")
        try:
            self.features: Dict[str, List[str]] = ast.literal_eval(pk.assigns["FEATURES"])
            self.versions: Dict[str, Tuple[int, Optional[int]]] = ast.literal_eval(pv.assigns["FEATURES_VERSIONS"])
            self.latest: int = ast.literal_eval(pv.assigns["LATEST_PROBLEM_KIND_VERSION"])
        except (KeyError, ValueError) as e:
            raise AnalysisError(f"anchor vanished: FEATURES tables are not literal any more ({e})")
        self.all: Set[str] = {f for l in self.features.values() for f in l}
        self.cat_of: Dict[str, List[str]] = {}
        for c, l in self.features.items():
            for f in l:
                self.cat_of.setdefault(f, []).append(c)
        # generated method names (ProblemKindMeta)
        self.methods: Dict[str, Tuple[str, Any]] = {}
        for c, l in self.features.items():
            self.methods["set_" + c.lower()] = ("set", l)
            self.methods["unset_" + c.lower()] = ("unset", l)
            self.methods["has_" + c.lower()] = ("has", l + [c])
            for f in l:
                self.methods["has_" + f.lower()] = ("has", [f])
        # module-level predefined kinds
        self.predefined: Dict[str, Set[str]] = {}

    def deprecated(self) -> Set[str]:
        return {f for f, (_, d) in self.versions.items() if d is not None}


class KindInterp:
    def __init__(self, idx: Index, tables: Optional[KindTables] = None):
        self.idx = idx
        self.t = tables or KindTables(idx)
        self.errors: List[ApiError] = []
        self.unsupported: List[Tuple[FuncInfo, ast.AST, str]] = []
        self._depth = 0

    # --------------------------------------------------------------- public
    def eval_supported(self, cls: ClassInfo, meth: str = "supported_kind") -> Any:
        f = cls.lookup(meth)
        if f is None:
            return TOP
        return self.call(f, {})

    def call(self, f: FuncInfo, args: Dict[str, Any]) -> Any:
        """Evaluate f with the given argument values (sets of features, or TOP). Returns a set, TOP,
        or the string 'raises'."""
        if self._depth > 8:
            return TOP
        self._depth += 1
        try:
            env: Dict[str, Any] = dict(args)
            r = self._block(f.node.body, env, f)
            if isinstance(r, tuple) and r[0] == "return":
                return r[1]
            if r == "raises":
                return "raises"
            return TOP  # fell off the end
        finally:
            self._depth -= 1

    # --------------------------------------------------------------- statements
    def _block(self, stmts, env, f) -> Any:
        for s in stmts:
            r = self._stmt(s, env, f)
            if r is not None:
                return r
        return None

    def _stmt(self, s: ast.stmt, env, f) -> Any:
        if isinstance(s, ast.Expr):
            if isinstance(s.value, ast.Constant):
                return None
            self._expr(s.value, env, f)
            return None
        if isinstance(s, ast.Assign) and len(s.targets) == 1 and isinstance(s.targets[0], ast.Name):
            env[s.targets[0].id] = self._expr(s.value, env, f)
            return None
        if isinstance(s, ast.AnnAssign) and isinstance(s.target, ast.Name) and s.value is not None:
            env[s.target.id] = self._expr(s.value, env, f)
            return None
        if isinstance(s, ast.Return):
            return ("return", self._expr(s.value, env, f) if s.value is not None else None)
        if isinstance(s, ast.Raise):
            return "raises"
        if isinstance(s, (ast.Assert, ast.Pass)):
            return None
        if isinstance(s, ast.If):
            c = self._cond(s.test, env, f)
            if c is TOP:
                # evaluate both branches on copies and join (features: keep union as may-set; mark TOP)
                self.unsupported.append((f, s.test, "guard not in the kind-DSL fragment"))
                e1 = {k: (set(v) if isinstance(v, set) else v) for k, v in env.items()}
                r1 = self._block(s.body, e1, f)
                r2 = self._block(s.orelse, env, f)
                for k in list(env):
                    if k in e1 and isinstance(env[k], set) and isinstance(e1[k], set) and env[k] != e1[k]:
                        env[k] = TOP
                if r1 is not None or r2 is not None:
                    return ("return", TOP)
                return None
            return self._block(s.body if c else s.orelse, env, f)
        if isinstance(s, ast.For) and isinstance(s.target, ast.Name):
            it = self._expr(s.iter, env, f)
            if isinstance(it, list):
                for v in it:
                    env[s.target.id] = v
                    r = self._block(s.body, env, f)
                    if r is not None:
                        return r
                return None
        self.unsupported.append((f, s, "statement not in the kind-DSL fragment"))
        for n in ast.walk(s):
            if isinstance(n, ast.Name) and isinstance(n.ctx, ast.Store):
                env[n.id] = TOP
        # a statement outside the fragment can change any kind in scope (through a bound method taken earlier, a
        # table of handlers, a helper): every feature set known so far is unknown from here on
        if any(isinstance(n, (ast.Call, ast.Attribute)) for n in ast.walk(s)):
            for k in list(env):
                if isinstance(env[k], set):
                    env[k] = TOP
        return None

    # --------------------------------------------------------------- expressions
    def _cond(self, e: ast.expr, env, f) -> Any:
        if isinstance(e, ast.BoolOp):
            vals = [self._cond(v, env, f) for v in e.values]
            if isinstance(e.op, ast.And):
                if any(v is False for v in vals):
                    return False
                return TOP if any(v is TOP for v in vals) else True
            if any(v is True for v in vals):
                return True
            return TOP if any(v is TOP for v in vals) else False
        if isinstance(e, ast.UnaryOp) and isinstance(e.op, ast.Not):
            v = self._cond(e.operand, env, f)
            return TOP if v is TOP else (not v)
        v = self._expr(e, env, f)
        if isinstance(v, bool):
            return v
        return TOP

    def _str(self, e: ast.expr, env) -> Optional[str]:
        if isinstance(e, ast.Constant) and isinstance(e.value, str):
            return e.value
        if isinstance(e, ast.Name) and isinstance(env.get(e.id), str):
            return env[e.id]
        return None

    def _expr(self, e: ast.expr, env, f: FuncInfo) -> Any:
        if isinstance(e, ast.Name):
            if e.id in env:
                return env[e.id]
            return self._module_kind(f, e.id)
        if isinstance(e, ast.Constant):
            return e.value
        if isinstance(e, ast.BoolOp) or (isinstance(e, ast.UnaryOp) and isinstance(e.op, ast.Not)):
            return self._cond(e, env, f)  # a Boolean combination of has_*() tests bound to a name
        if isinstance(e, ast.Subscript) and isinstance(e.value, ast.Name) and e.value.id == "FEATURES":
            k = self._str(e.slice, env)
            if k in self.t.features:
                return list(self.t.features[k])
            return TOP
        if isinstance(e, ast.Call):
            fn = e.func
            # ProblemKind(...)
            txt = ast.unparse(fn)
            if txt.split(".")[-1] == "ProblemKind":
                feats: Set[str] = set()
                if e.args:
                    a0 = e.args[0]
                    try:
                        feats = set(ast.literal_eval(a0))
                    except ValueError:
                        return TOP
                return feats
            if isinstance(fn, ast.Attribute):
                m = fn.attr
                # Cls.supported_kind() / Cls._supported_kind(engine)
                if m in ("supported_kind", "_supported_kind"):
                    obj = self.idx.resolve_dotted(f.module, ast.unparse(fn.value))
                    if isinstance(obj, ClassInfo):
                        target = obj.lookup(m)
                        if target is not None:
                            r = self.call(target, {})
                            return set(r) if isinstance(r, set) else TOP
                    return TOP
                # Cls.resulting_problem_kind(kind[, compilation_kind]): a compiler that builds on another one
                if m == "resulting_problem_kind" and e.args:
                    obj = self.idx.resolve_dotted(f.module, ast.unparse(fn.value))
                    if isinstance(obj, ClassInfo):
                        target = obj.lookup(m)
                        if target is not None and self._depth < 4:
                            params = target.params()
                            a0 = self._expr(e.args[0], env, f)
                            call_args = {params[0]: set(a0) if isinstance(a0, set) else a0}
                            for p in params[1:]:
                                call_args[p] = None
                            self._depth += 1
                            try:
                                r = self.call(target, call_args)
                            finally:
                                self._depth -= 1
                            return set(r) if isinstance(r, set) else TOP
                    return TOP
                recv = self._expr(fn.value, env, f)
                if m == "clone" and not e.args:
                    return set(recv) if isinstance(recv, set) else TOP
                if m in ("union", "intersection") and len(e.args) == 1:
                    oth = self._expr(e.args[0], env, f)
                    if isinstance(recv, set) and isinstance(oth, set):
                        return recv | oth if m == "union" else recv & oth
                    if m == "intersection" and isinstance(recv, set):
                        return TOP
                    return TOP
                if m.startswith(("set_", "unset_", "has_")) or m == "has":
                    arg = self._str(e.args[0], env) if e.args else None
                    spec = self.t.methods.get(m)
                    if spec is None:
                        if arg in self.t.all or m.startswith("has_") or m == "has":
                            self.errors.append(ApiError(e, f, f"ProblemKind has no generated method '{m}' (AttributeError when reached)"))
                        return TOP
                    kind, allowed = spec
                    if kind == "has":
                        if isinstance(recv, set):
                            return len(recv & set(allowed)) > 0
                        return TOP
                    if arg is None:
                        if isinstance(recv, set) and e.args:
                            pass
                        return None
                    if arg not in allowed:
                        self.errors.append(ApiError(e, f, f"feature '{arg}' is not in the category of '{m}' (AssertionError when reached)"))
                        return None
                    if isinstance(recv, set):
                        if kind == "set":
                            recv.add(arg)
                        else:
                            recv.discard(arg)
                    return None
        return TOP

    def _module_kind(self, f: FuncInfo, name: str) -> Any:
        """A module-level predefined kind (problem_kind.py: classical_kind etc.) referenced by name."""
        obj = f.module.imports.get(name)
        mod = f.module
        if obj is not None:
            modname, _, attr = obj.rpartition(".")
            if modname in self.idx.modules:
                mod = self.idx.modules[modname]
                name = attr
        if name in mod.assigns:
            val = self._expr(mod.assigns[name], {}, f)
            if isinstance(val, set):
                val = set(val)
                # apply following module-level `name.set_x("F")` statements
                for st in mod.tree.body:
                    if isinstance(st, ast.Expr) and isinstance(st.value, ast.Call) and isinstance(st.value.func, ast.Attribute):
                        c = st.value
                        if isinstance(c.func.value, ast.Name) and c.func.value.id == name:
                            self._expr(c, {name: val}, f)
                return val
        return TOP
