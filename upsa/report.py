"""Obligations, findings, known findings, evidence files, exit codes."""
from __future__ import annotations

import hashlib
import json
import os
import re
import time
from dataclasses import dataclass, field
from typing import Any, Dict, List, Optional

VERIF = os.path.dirname(os.path.dirname(os.path.abspath(__file__)))
EVIDENCE_DIR = os.environ.get("UPSA_EVIDENCE_DIR") or os.path.join(VERIF, "evidence")
REPLAY_DIR = os.path.join(EVIDENCE_DIR, "replay")
KNOWN_FINDINGS = os.path.join(VERIF, "known_findings.json")
EXCEPTIONS = os.path.join(VERIF, "triage", "exceptions.json")


def _norm_construct(s: str) -> str:
    return re.sub(r"\s+", " ", s).strip()


# Keys of findings must not depend on how local variables are spelled (a rename is not a new finding): the cli
# registers the index, and the local names of the reported function are replaced by $1, $2, … in order of appearance.
_INDEX = None
_LOCALS_CACHE: Dict[str, Any] = {}
_IDENT = re.compile(r"(?<![\.\w])([A-Za-z_]\w*)\b(?!=(?!=))")  # not attributes, not `keyword=` of a call


def set_index(idx) -> None:
    global _INDEX
    _INDEX = idx
    _LOCALS_CACHE.clear()


def private_callees(f) -> set:
    """Names of the private helpers (single leading underscore) a function calls on `self` / `cls` / its own class, or
    as bare module-level functions."""
    import ast as _ast

    out = set()
    bound = {a.arg for a in _ast.walk(f.node) if isinstance(a, _ast.arg)} | {n.id for n in _ast.walk(f.node) if isinstance(n, _ast.Name) and isinstance(n.ctx, _ast.Store)}
    for c in _ast.walk(f.node):
        name = None
        # called, or merely referenced (a handler table, a bound method handed on): `self._x`, `Cls._x`, bare `_x`
        if isinstance(c, _ast.Attribute) and isinstance(c.ctx, _ast.Load) and isinstance(c.value, _ast.Name) and (c.value.id in ("self", "cls") or c.value.id[:1].isupper()):
            name = c.attr
        elif isinstance(c, _ast.Name) and isinstance(c.ctx, _ast.Load) and c.id not in bound:
            name = c.id
        if name and name.startswith("_") and not name.startswith("__"):
            out.add(name)
    return out


def nested_defs(f) -> int:
    """Number of nested function definitions and lambdas (closures a dispatch or a loop body may have moved into)."""
    import ast as _ast

    return sum(1 for n in _ast.walk(f.node) if isinstance(n, (_ast.FunctionDef, _ast.AsyncFunctionDef, _ast.Lambda)) and n is not f.node)


_KNOWN_HELPERS = None


def _known_table() -> dict:
    global _KNOWN_HELPERS
    if _KNOWN_HELPERS is None:
        import json
        import os

        p = os.path.join(os.path.dirname(os.path.dirname(os.path.abspath(__file__))), "tables", "known_helpers.json")
        try:
            with open(p) as fh:
                _KNOWN_HELPERS = json.load(fh)
        except OSError:
            _KNOWN_HELPERS = {}
        _KNOWN_HELPERS.setdefault("functions", {})
        _KNOWN_HELPERS.setdefault("all", [])
    return _KNOWN_HELPERS


def new_helpers_of(function: str) -> list:
    """Private helpers called by `function` in the analysed tree that it did not call in the pinned tree
    (tables/known_helpers.json): logic the rules anchored in `function` may have been extracted into."""
    if _INDEX is None or not function:
        return []
    f = getattr(_INDEX, "funcs", {}).get(function)
    if f is None:
        return []
    entry = _known_table()["functions"].get(function) or {}
    known = set(entry.get("refs", ()))
    # only private symbols that are defined in the analysed tree (a function / method, a module-level or class-level
    # name) and were not referenced from here in the pinned tree
    out = sorted(n for n in private_callees(f) if n not in known and n in _defined_private())
    extra = nested_defs(f) - int(entry.get("nested", 0))
    if extra > 0:
        out.append(f"<{extra} new nested function(s) / lambda(s)>")
    return out


_DEFINED = None


def _defined_private() -> set:
    global _DEFINED
    if _DEFINED is None or _DEFINED[0] is not _INDEX:
        import ast as _ast

        names = {g.node.name for g in getattr(_INDEX, "funcs", {}).values()}
        for m in getattr(_INDEX, "modules", {}).values():
            names |= set(getattr(m, "assigns", {}) or {})
        for c in (_INDEX.classes.values() if isinstance(getattr(_INDEX, "classes", None), dict) else []):
            for st in c.node.body:
                for t in st.targets if isinstance(st, _ast.Assign) else [st.target] if isinstance(st, _ast.AnnAssign) else []:
                    if isinstance(t, _ast.Name):
                        names.add(t.id)
        _DEFINED = (_INDEX, {n for n in names if n.startswith("_") and not n.startswith("__")})
    return _DEFINED[1]


def restructured_functions(files) -> list:
    """Functions of the given repository files that reference a private symbol, or contain a nested function, they did
    not in the pinned tree, and private functions of those files that the pinned tree does not have: evidence that
    the anchored code was restructured (extract method, handler tables, closures)."""
    out = []
    if _INDEX is None:
        return out
    everything = set(_known_table()["all"])
    if not everything:
        return out
    for q, g in getattr(_INDEX, "funcs", {}).items():
        if not any(g.file == a or (a.endswith("/") and g.file.startswith(a)) for a in files):
            continue
        if q not in everything and g.node.name.startswith("_") and not g.node.name.startswith("__"):
            out.append(f"{g.node.name} (new)")
        else:
            moved = new_helpers_of(q)
            if moved:
                out.append(f"{g.node.name} -> {moved}")
    return out


def locals_of(function: str):
    if _INDEX is None or not function:
        return frozenset()
    if function not in _LOCALS_CACHE:
        names = frozenset()
        f = getattr(_INDEX, "funcs", {}).get(function)
        if f is not None:
            from .alpha import renamable

            try:
                names = frozenset(renamable(f.node))
            except Exception:
                names = frozenset()
        _LOCALS_CACHE[function] = names
    return _LOCALS_CACHE[function]


def canonical_construct(s: str, function: str) -> str:
    s = _norm_construct(s)
    names = locals_of(function)
    if not names:
        return s
    order: Dict[str, str] = {}

    def sub(m):
        w = m.group(1)
        if w not in names:
            return w
        if w not in order:
            order[w] = f"${len(order) + 1}"
        return order[w]

    return _IDENT.sub(sub, s)


@dataclass
class Obligation:
    rule: str  # e.g. "C03.1 T5 definite-assignment"
    instance: str  # what the rule is applied to (function, site, row)
    where: str  # file:line
    ok: bool
    construct: str = ""  # normalised offending construct (violations) or the discharging construct
    detail: str = ""
    function: str = ""
    path: List[str] = field(default_factory=list)  # for path rules: entry ... offending exit
    inconclusive: bool = False

    def key(self) -> Dict[str, str]:
        return {"rule": self.rule, "function": self.function or self.instance, "construct": canonical_construct(self.construct, self.function)}

    def to_json(self) -> Dict[str, Any]:
        d = {
            "rule": self.rule,
            "instance": self.instance,
            "where": self.where,
            "verdict": "inconclusive" if self.inconclusive else ("ok" if self.ok else "VIOLATED"),
        }
        if self.function:
            d["function"] = self.function
        if self.construct:
            d["construct"] = _norm_construct(self.construct)[:300]
        if self.detail:
            d["detail"] = self.detail[:600]
        if self.path:
            d["path"] = self.path[:40]
        return d


class Report:
    def __init__(self, prop: str, tier: str, seed: int):
        self.prop = prop
        self.tier = tier
        self.seed = seed
        self.t0 = time.time()
        self.obligations: List[Obligation] = []
        self.counters: Dict[str, int] = {}
        self.sets: Dict[str, set] = {}
        self.explanation = ""
        self.assumptions: List[str] = []
        self.extra: Dict[str, Any] = {}
        self.candidates: List[Dict[str, Any]] = []

    # ------------------------------------------------------------------ recording
    def ok(self, rule: str, instance: str, where: str, construct: str = "", detail: str = "", function: str = "") -> None:
        self.obligations.append(Obligation(rule, instance, where, True, construct, detail, function))

    def bad(self, rule: str, instance: str, where: str, construct: str, detail: str = "", function: str = "", path: Optional[List[str]] = None, strict: bool = False) -> None:
        # Extract-method: when the function a rule is anchored in now calls a private helper it did not call in the
        # pinned tree, what the rule looks for may live in that helper, which the rule does not read. Unless the rule
        # says it has followed helpers itself (strict=True), the verdict is `inconclusive`, never a violation — the
        # benign direction for everything unresolved.
        # the generic bug-class detectors (`<ID>.G …`) are flow rules about one construct (a stale guard, an exhausted
        # iterator, a truth-tested expression node …), not about where in a function a clause sits: they stay armed
        if ".G " in rule:
            strict = True
        if not strict and function and _INDEX is not None:
            table = _known_table()
            last = function.rsplit(".", 1)[-1]
            if table["all"] and function not in table["all"] and function in getattr(_INDEX, "funcs", {}) and last.startswith("_") and not last.startswith("__"):
                # a private function the pinned tree does not have: a sweep rule sees it without the context of its
                # callers (what its parameters are bound to), so its verdict there is not a decision
                self.obligations.append(Obligation(rule, instance, where, True, construct, f"not decided: {last} is a new private helper; the rule reads it without the context of its call sites", function, inconclusive=True))
                self.counters["undecided_after_extract_method"] = self.counters.get("undecided_after_extract_method", 0) + 1
                return
        if not strict:
            moved = new_helpers_of(function)
            if moved:
                self.obligations.append(Obligation(rule, instance, where, True, construct, f"not decided: {function.rsplit('.', 1)[-1]} now calls the helper(s) {moved}, which this rule does not read (the logic it looks for may have been extracted there)", function, inconclusive=True))
                self.counters["undecided_after_extract_method"] = self.counters.get("undecided_after_extract_method", 0) + 1
                return
        self.obligations.append(Obligation(rule, instance, where, False, construct, detail, function, path or []))

    def check(self, cond: bool, rule: str, instance: str, where: str, construct: str = "", detail: str = "", function: str = "", path: Optional[List[str]] = None, strict: bool = False) -> bool:
        if cond:
            self.ok(rule, instance, where, construct, detail, function)
        else:
            self.bad(rule, instance, where, construct, detail, function, path, strict)
        return cond

    def vanished(self, rule: str, what: str, function: str, where: str = "") -> None:
        """An anchor the rule needs was not found in `function`. If the function now calls a private helper it did not
        call in the pinned tree, the anchor may have been extracted there: the rule is recorded as inconclusive and the
        caller skips it. Otherwise the analysis is broken (exit 2)."""
        from .index import AnalysisError

        moved = new_helpers_of(function)
        if not moved:
            raise AnalysisError(f"anchor vanished: {what}")
        self.obligations.append(Obligation(rule, what, where or function, True, "anchor not found", f"not decided: {function.rsplit('.', 1)[-1]} now calls the helper(s) {moved}, which this rule does not read", function, inconclusive=True))
        self.counters["undecided_after_extract_method"] = self.counters.get("undecided_after_extract_method", 0) + 1

    def inconclusive(self, rule: str, instance: str, where: str, construct: str = "", detail: str = "", function: str = "") -> None:
        self.obligations.append(Obligation(rule, instance, where, True, construct, detail, function, inconclusive=True))

    def candidate(self, rule: str, where: str, construct: str, detail: str = "") -> None:
        """A sweep match that is reported for information only (never a violation)."""
        self.candidates.append({"rule": rule, "where": where, "construct": _norm_construct(construct)[:200], "detail": detail[:300]})

    def count(self, name: str, n: int = 1) -> None:
        self.counters[name] = self.counters.get(name, 0) + n

    def note_function(self, qualname: str) -> None:
        self.sets.setdefault("functions_analysed", set()).add(qualname)

    def require_min(self, rule: str, counter: str, minimum: int, function: str = "") -> None:
        from .index import AnalysisError

        have = self.counters.get(counter, 0)
        if have < minimum and function and new_helpers_of(function):
            self.vanished(rule, f"{have} of the {minimum} confirmed instances of '{counter}' found", function)
            return
        if 0 < have < minimum:
            # Fewer instances than were confirmed on the pinned tree, but not none: two similar sites merged into one
            # parametrised site is the commonest behaviour-preserving cause. The rule was not vacuous (every instance it
            # found was judged); what it no longer finds is recorded as undecided and printed, not passed over silently.
            self.obligations.append(Obligation(rule, f"{have} of the {minimum} instances of '{counter}' confirmed on the pinned tree were found", "", True, "coverage dropped", "not decided for the instances no longer matched (sites merged, or a site written in a form the rule does not read)", function, inconclusive=True))
            self.counters["coverage_drops"] = self.counters.get("coverage_drops", 0) + 1
            print(f"COVERAGE-DROP: property={self.prop} rule={rule.split()[0]} matched {have} of the {minimum} confirmed instances of '{counter}'")
            return
        if have < minimum:
            raise AnalysisError(f"{rule}: matched {have} instances of '{counter}', fewer than the confirmed minimum {minimum} (vacuous rule)")


def load_known_findings() -> Dict[str, Any]:
    if not os.path.exists(KNOWN_FINDINGS):
        return {"findings": [], "fixed": []}
    with open(KNOWN_FINDINGS) as fh:
        return json.load(fh)


def load_exceptions() -> List[Dict[str, str]]:
    if not os.path.exists(EXCEPTIONS):
        return []
    with open(EXCEPTIONS) as fh:
        return json.load(fh)["exceptions"]


def is_excepted(prop: str, rule: str, function: str, symbol: str, binding: Optional[str] = None) -> Optional[str]:
    """`symbol` is a field / table name; for a local variable the exception is stated on its `binding` (the canonical
    text of the statement that binds it, the variable itself written @), so that it survives a rename."""
    for e in load_exceptions():
        if e["property"] == prop and rule.startswith(e["rule"]) and e["function"] == function:
            if "binding" in e:
                if binding is not None and e["binding"] == binding:
                    return e["reason"]
            elif e.get("symbol") == symbol:
                return e["reason"]
    return None


def _match_known(ob: Obligation, prop: str, kf: Dict[str, Any]) -> Optional[Dict[str, Any]]:
    k = ob.key()
    for f in kf.get("findings", []):
        if f["property"] != prop:
            continue
        if f["rule"] == k["rule"] and f["function"] == k["function"] and _norm_construct(f["construct"]) == k["construct"]:
            return f
    return None


def finish(rep: Report, index=None) -> int:
    """Write evidence, print VIOLATION / KNOWN-FINDING lines, return the exit code."""
    os.makedirs(REPLAY_DIR, exist_ok=True)
    kf = load_known_findings()
    violations: List[Obligation] = []
    known: List[Dict[str, Any]] = []
    for ob in rep.obligations:
        if ob.ok:
            continue
        m = _match_known(ob, rep.prop, kf)
        if m is not None:
            known.append({"finding": m, "obligation": ob.to_json()})
        else:
            violations.append(ob)
    seen_known = set()
    for k in known:
        fid = k["finding"].get("id", k["finding"]["what_fails"])
        if fid in seen_known:
            continue
        seen_known.add(fid)
        print(f"KNOWN-FINDING: property={rep.prop} {k['finding']['what_fails']} [{k['obligation']['where']}]")
    for i, ob in enumerate(violations):
        h = hashlib.sha1(json.dumps(ob.key(), sort_keys=True).encode()).hexdigest()[:10]
        path = os.path.join(REPLAY_DIR, f"{rep.prop}_{h}.json")
        with open(path, "w") as fh:
            json.dump({"property": rep.prop, **ob.to_json(), "key": ob.key()}, fh, indent=1)
        print(f"  {ob.where}: [{ob.rule}] {ob.instance}: {_norm_construct(ob.construct)[:160]} -- {ob.detail[:300]}")
        print(f"VIOLATION property={rep.prop} replay={path}")
    n_ob = len(rep.obligations)
    n_inc = sum(1 for o in rep.obligations if o.inconclusive)
    n_ok = sum(1 for o in rep.obligations if o.ok and not o.inconclusive)
    distinct = len({(o.rule, o.instance, o.where) for o in rep.obligations if not o.inconclusive})
    samples = [o.to_json() for o in rep.obligations if not o.ok][:10]
    by_rule: Dict[str, int] = {}
    for o in rep.obligations:
        by_rule[o.rule] = by_rule.get(o.rule, 0) + 1
    # a sample of each rule
    seen_rules = set()
    for o in rep.obligations:
        if o.ok and o.rule not in seen_rules and len(samples) < 40:
            seen_rules.add(o.rule)
            samples.append(o.to_json())
    cov: Dict[str, Any] = {
        "explanation": rep.explanation,
        "obligations": n_ob,
        "discharged": n_ok,
        "violated": len(violations) + len(known),
        "inconclusive": n_inc,
        "evaluations": n_ob,
        "distinct_nontrivial": distinct,
        "rule": "one obligation per (rule, instance, site) enumerated from /repo's current source; distinct = distinct (rule, instance, file:line) triples that were decided (inconclusive ones excluded)",
        "obligations_by_rule": by_rule,
        "samples": samples,
        "known_findings": [k["finding"].get("id", k["finding"]["what_fails"]) for k in known],
        "candidates": rep.candidates[:60],
        "counters": rep.counters,
        "exhaustive": True,
    }
    for k, v in rep.sets.items():
        cov[k] = sorted(v)
    if index is not None:
        cov["files_consulted"] = sorted(index.consulted)
        cov["files_digest"] = index.digest(sorted(index.consulted))
        cov["modules_indexed"] = len(index.modules)
    cov.update(rep.extra)
    ev = {
        "property_id": rep.prop,
        "tier": rep.tier,
        "seed": rep.seed,
        "level": "other",
        "coverage": cov,
        "assumptions": rep.assumptions,
        "wall_s": round(time.time() - rep.t0, 3),
        "violations": len(violations),
    }
    os.makedirs(EVIDENCE_DIR, exist_ok=True)
    with open(os.path.join(EVIDENCE_DIR, f"{rep.prop}.json"), "w") as fh:
        json.dump(ev, fh, indent=1, default=str)
    print(
        f"{rep.prop} [{rep.tier}] obligations={n_ob} discharged={n_ok} inconclusive={n_inc} "
        f"known_findings={len(seen_known)} violations={len(violations)} wall={ev['wall_s']}s"
    )
    return 1 if violations else 0
