"""Both-ways self-test of the checkers (thorough tier).

For each recipe in /verif/variants/<PROP>.json an edited scratch copy of the package is analysed:
  kind "break"  – one armed rule instance is broken (check dropped, release deleted, field omitted, row deleted,
                  guard inverted ...); the edited file must still compile and the check must report a violation of
                  the expected rule;
  kind "repair" – a known finding is repaired; the check must no longer report it.
The self-test runs the *checker* on edited source; unified_planning is never imported or executed.
Scratch copies live under $TMPDIR (outside /repo and /verif) and are removed immediately.
"""
from __future__ import annotations

import json
import os
import random
import shutil
import subprocess
import sys
import tempfile
from concurrent.futures import ThreadPoolExecutor
from typing import Any, Dict, List

from .index import AnalysisError
from .report import VERIF, Report

VARIANTS_DIR = os.path.join(VERIF, "variants")


def load_variants(prop: str) -> List[Dict[str, Any]]:
    p = os.path.join(VARIANTS_DIR, f"{prop}.json")
    if not os.path.exists(p):
        return []
    with open(p) as fh:
        return json.load(fh)["variants"]


def _ignore(d, names):
    return [n for n in names if n in ("__pycache__", "test") or n.endswith(".pyc")]


def run_variant(prop: str, v: Dict[str, Any], repo: str, renamed: bool = False) -> Dict[str, Any]:
    """renamed=True: after the edit, the locals of every function are renamed and the logic shape is rewritten (if/else
    inverted, constant comparisons mirrored: upsa/alpha.py); the rule must still fire — a clause that is quiet on renamed code would be quiet on a renamed defect."""
    res = {"id": v["id"] + ("+renamed" if renamed else ""), "kind": v.get("kind", "break"), "expect": v["expect_rule"], "status": "?"}
    scratch = tempfile.mkdtemp(prefix=f"upsa_{prop}_")
    try:
        shutil.copytree(os.path.join(repo, "unified_planning"), os.path.join(scratch, "unified_planning"), ignore=_ignore)
        edits = v["edits"] if "edits" in v else [{"file": v["file"], "old": v["old"], "new": v["new"]}]
        for e in edits:
            path = os.path.join(scratch, e["file"])
            with open(path) as fh:
                src = fh.read()
            if e.get("all") and src.count(e["old"]) >= 1:
                pass  # a rename: every occurrence is replaced
            elif src.count(e["old"]) != 1:
                res["status"] = "stale-recipe"
                res["detail"] = f"`{e['old'][:60]}` occurs {src.count(e['old'])} times in {e['file']}"
                return res
            src = src.replace(e["old"], e["new"])
            with open(path, "w") as fh:
                fh.write(src)
        # the edited files must compile once *all* edits are in (a change can span several hunks of one file)
        for e in edits:
            path = os.path.join(scratch, e["file"])
            with open(path) as fh:
                src = fh.read()
            try:
                compile(src, path, "exec")
            except SyntaxError as ex:
                res["status"] = "does-not-compile"
                res["detail"] = str(ex)
                return res
        if renamed:
            from .alpha import alpha_rename, flatten_else, hoist_returns, hoist_tests, reshape_logic, split_conjunctions

            for root, _dirs, files in os.walk(os.path.join(scratch, "unified_planning")):
                if "generated" in root:
                    continue
                for fn in files:
                    if fn.endswith(".py"):
                        path = os.path.join(root, fn)
                        with open(path) as fh:
                            src = fh.read()
                        new_src, _k = alpha_rename(src)
                        new_src = hoist_tests(hoist_returns(flatten_else(reshape_logic(split_conjunctions(new_src)))))
                        with open(path, "w") as fh:
                            fh.write(new_src)
        env = dict(os.environ)
        env["UPSA_EVIDENCE_DIR"] = os.path.join(scratch, "evidence")
        cp = subprocess.run([sys.executable, "-B", "-m", "upsa.cli", prop, "--repo", scratch, "--tier", "quick", "--no-selftest", "--dump-keys"], cwd=VERIF, env=env, capture_output=True, text=True, timeout=300)
        keys = [json.loads(l) for l in cp.stdout.splitlines() if l.startswith("{")]
        hit = [k for k in keys if k["rule"].startswith(v["expect_rule"]) and (not v.get("expect_construct") or v["expect_construct"] in k["construct"])]
        res["exit"] = cp.returncode
        if cp.returncode == 2:
            res["status"] = "analysis-error"
            res["detail"] = cp.stdout[-300:]
        elif res["kind"] == "break":
            new_violation = "VIOLATION property=" in cp.stdout
            res["status"] = "fired" if (hit and new_violation) else "MISSED"
            if hit:
                res["reported"] = hit[0]["construct"][:120]
        elif v.get("whole"):
            # a behaviour-preserving refactoring written by someone else: the whole check must stay at exit 0
            res["status"] = "silent" if cp.returncode == 0 else "STILL-REPORTED"
            if cp.returncode != 0:
                res["detail"] = cp.stdout[-400:]
        else:
            res["status"] = "silent" if not hit else "STILL-REPORTED"
    finally:
        shutil.rmtree(scratch, ignore_errors=True)
    return res


def run_alpha(prop: str, repo: str) -> Dict[str, Any]:
    """Neutrality: rename the local variables of every function of the package (upsa/alpha.py, a behaviour-preserving
    rewrite) and run the check on the result; the (rule, function) pairs it reports must be those of the unchanged
    tree. A difference means some rule keys on a spelling."""
    from .alpha import alpha_rename, flatten_else, hoist_returns, hoist_tests, interleave_noops, reshape_logic, split_conjunctions

    res: Dict[str, Any] = {"id": "neutral-alpha-rename", "kind": "neutral", "expect": prop, "status": "?"}
    scratch = tempfile.mkdtemp(prefix=f"upsa_{prop}_alpha_")
    try:
        shutil.copytree(os.path.join(repo, "unified_planning"), os.path.join(scratch, "unified_planning"), ignore=_ignore)
        renamed = 0
        for root, _dirs, files in os.walk(os.path.join(scratch, "unified_planning")):
            if "generated" in root:
                continue
            for fn in files:
                if fn.endswith(".py"):
                    path = os.path.join(root, fn)
                    with open(path) as fh:
                        src = fh.read()
                    new, k = alpha_rename(src)
                    new = interleave_noops(hoist_tests(hoist_returns(flatten_else(reshape_logic(split_conjunctions(new))))))
                    compile(new, path, "exec")
                    renamed += k
                    with open(path, "w") as fh:
                        fh.write(new)
        res["renamed_occurrences"] = renamed
        env = dict(os.environ)
        env["UPSA_EVIDENCE_DIR"] = os.path.join(scratch, "evidence")

        def keys_of(tree: str):
            cp = subprocess.run([sys.executable, "-B", "-m", "upsa.cli", prop, "--repo", tree, "--tier", "quick", "--no-selftest", "--dump-keys"], cwd=VERIF, env=env, capture_output=True, text=True, timeout=300)
            ks = sorted((k["rule"], k["function"], k["construct"]) for k in (json.loads(l) for l in cp.stdout.splitlines() if l.startswith("{")))
            return cp.returncode, ks, cp.stdout

        base_tree = tempfile.mkdtemp(prefix=f"upsa_{prop}_base_")
        try:
            shutil.copytree(os.path.join(repo, "unified_planning"), os.path.join(base_tree, "unified_planning"), ignore=_ignore)
            rc0, k0, _ = keys_of(base_tree)
        finally:
            shutil.rmtree(base_tree, ignore_errors=True)
        rc1, k1, out1 = keys_of(scratch)
        res["exit"] = rc1
        if rc1 == 2:
            res["status"] = "analysis-error"
            res["detail"] = "after renaming locals: " + out1[-300:]
        elif k0 != k1 or rc0 != rc1:
            res["status"] = "STILL-REPORTED"
            extra = [k for k in k1 if k not in k0]
            gone = [k for k in k0 if k not in k1]
            res["detail"] = f"after renaming locals the check reports {extra[:3]} and no longer reports {gone[:3]}"
        else:
            res["status"] = "silent"
    finally:
        shutil.rmtree(scratch, ignore_errors=True)
    return res


def run_selftest(prop: str, rep: Report, seed: int) -> None:
    from . import index as index_mod

    variants = load_variants(prop)
    rnd = random.Random(seed)
    rnd.shuffle(variants)
    with ThreadPoolExecutor(max_workers=min(16, os.cpu_count() or 4)) as ex:
        alpha = ex.submit(run_alpha, prop, index_mod.REPO)
        results = list(ex.map(lambda v: run_variant(prop, v, index_mod.REPO), variants))
        results += list(ex.map(lambda v: run_variant(prop, v, index_mod.REPO, renamed=True), [v for v in variants if v.get("kind", "break") == "break"]))
        results.append(alpha.result())
    fired = [r for r in results if r["status"] == "fired"]
    silent = [r for r in results if r["status"] == "silent"]
    bad = [r for r in results if r["status"] in ("MISSED", "STILL-REPORTED", "does-not-compile", "analysis-error")]
    stale = [r for r in results if r["status"] == "stale-recipe"]
    rep.extra["selftest"] = {
        "variants_total": len(results),
        "variants_fired": len(fired),
        "twins_silent": len(silent),
        "stale_recipes": [r["id"] for r in stale],
        "failed": bad,
        "results": sorted(results, key=lambda r: r["id"]),
    }
    print(f"{prop} self-test: {len(fired)} break variants fired, {len(silent)} repaired twins silent, {len(stale)} stale recipes, {len(bad)} failed")
    if bad:
        for r in bad:
            print(f"  self-test {r['status']}: {r['id']} (expected {r['expect']}) {r.get('detail', '')[:200]}")
        raise AnalysisError(f"checker self-test failed for {prop}: {[r['id'] for r in bad]} — the checker is weaker than claimed (this is not a violation of the property)")
