"""More rule templates (added while confronting the checkers with independently seeded changes)."""
from __future__ import annotations

import ast
from typing import Dict, Iterable, List, Optional, Set, Tuple

from .dataflow import DefUse
from .index import FuncInfo, Index, call_name, norm, walk_no_nested
from .report import Report
from .rules import cfg_of

OPTIONAL_NUMERIC_ATTRS = {"lower_bound", "upper_bound"}


def _truthiness_operands(fn: ast.AST) -> List[ast.AST]:
    """Expressions whose truthiness is tested: if / while / ifexp tests, operands of and/or/not, assert tests,
    comprehension conditions."""
    out: List[ast.AST] = []

    def add(e: ast.AST) -> None:
        if isinstance(e, ast.BoolOp):
            for v in e.values:
                add(v)
        elif isinstance(e, ast.UnaryOp) and isinstance(e.op, ast.Not):
            add(e.operand)
        else:
            out.append(e)

    for n in walk_no_nested(fn):
        if isinstance(n, (ast.If, ast.While, ast.IfExp, ast.Assert)):
            add(n.test)
        elif isinstance(n, ast.comprehension):
            for c in n.ifs:
                add(c)
        elif isinstance(n, ast.BoolOp):
            # `x = a or b` style defaults
            for v in n.values[:-1]:
                add(v)
    return out


def optional_numeric_truthiness(rep: Report, rule: str, funcs: Iterable[FuncInfo], attrs: Set[str] = OPTIONAL_NUMERIC_ATTRS) -> int:
    """T18: an Optional number (a type bound: 0 is a legitimate value) must be tested with `is None`, never by
    truthiness. One obligation per function that reads such an attribute; reports each truthiness test whose
    operand is (an alias of) one of those attributes."""
    n = 0
    for f in funcs:
        reads = [x for x in walk_no_nested(f.node) if isinstance(x, ast.Attribute) and x.attr in attrs and isinstance(x.ctx, ast.Load)]
        if not reads:
            continue
        n += 1
        rep.note_function(f.qualname)
        cfg = cfg_of(f)
        du = None
        bad = []
        for e in _truthiness_operands(f.node):
            if isinstance(e, ast.Attribute) and e.attr in attrs:
                bad.append((e, norm(e)))
            elif isinstance(e, ast.Name):
                if du is None:
                    du = DefUse(cfg)
                nodes = cfg.node_containing(e)
                if not nodes:
                    continue
                chains = du.expanded_chains(e, nodes[0])
                hit = [ch for ch in chains if ch[-1] in attrs and len(ch) > 1]
                # only a plain alias counts (x = t.lower_bound), not a value computed from it
                if hit and all(_is_plain_alias(du, e.id, nodes[0], attrs)):
                    bad.append((e, ".".join(hit[0])))
        if bad:
            for e, what in bad:
                rep.bad(rule, f"{f.short}: `{norm(e)}` tested by truthiness", f.loc(e), construct=f"truthiness of {norm(e)} (= {what}) in {f.short}", detail="a bound of 0 (int 0 or Fraction(0)) is falsy: the branch for a *present* bound is skipped exactly when the bound is zero; the test must be `is not None`", function=f.qualname)
        else:
            rep.ok(rule, f"{f.short}: optional bounds are tested with `is None`", f.loc(), function=f.qualname)
    return n


def _is_plain_alias(du: DefUse, name: str, node, attrs: Set[str]):
    from .dataflow import def_value

    for dn in du.rd.get(node, {}).get(name, ()):  # every reaching definition must be a bare attribute read
        if dn is du.cfg.entry:
            yield False
            continue
        v = def_value(dn, name)
        while isinstance(v, ast.Call) and isinstance(v.func, ast.Name) and v.func.id == "cast" and len(v.args) == 2:
            v = v.args[1]
        yield isinstance(v, ast.Attribute) and v.attr in attrs


def self_check_truthiness() -> bool:
    """Positive fixture for the zero-count rule above: must flag `if upper:`."""
    src = "def f(t):\n    lower, upper = t.lower_bound, t.upper_bound\n    if lower is not None:\n        pass\n    if upper:\n        pass\n"
    tree = ast.parse(src)
    ops = _truthiness_operands(tree.body[0])
    return any(isinstance(o, ast.Name) and o.id == "upper" for o in ops) and not any(isinstance(o, ast.Name) and o.id == "lower" for o in ops)


CACHE_DECORATORS = {"lru_cache", "cache", "cached_property"}


def functools_cache_decorators(fn: ast.AST) -> List[str]:
    out = []
    for d in getattr(fn, "decorator_list", []):
        base = d.func if isinstance(d, ast.Call) else d
        nm = norm(base).split(".")[-1]
        if nm in CACHE_DECORATORS:
            out.append(norm(d))
    return out


def is_generator_function(f: FuncInfo) -> bool:
    return any(isinstance(x, (ast.Yield, ast.YieldFrom)) for x in walk_no_nested(f.node))


# ----------------------------------------------------------------------------- T19 one-shot iterator reuse
def generator_method_names(idx: Index) -> Set[str]:
    """Method/function names that resolve *only* to generator functions in the index."""
    by_name: Dict[str, List[bool]] = {}
    for f in idx.all_funcs():
        by_name.setdefault(f.name, []).append(is_generator_function(f))
    return {n for n, flags in by_name.items() if flags and all(flags)}


def one_shot_iterator_reuse(rep: Report, rule: str, idx: Index, funcs: Iterable[FuncInfo], gens: Optional[Set[str]] = None) -> int:
    """T19: the result of a generator function stored in a name / container and then consumed from inside a
    loop or comprehension can be consumed twice; the second consumer sees an exhausted iterator."""
    gens = gens if gens is not None else generator_method_names(idx)
    n = 0
    for f in funcs:
        stored: Dict[str, ast.AST] = {}
        for a in walk_no_nested(f.node):
            if isinstance(a, ast.Assign) and len(a.targets) == 1 and isinstance(a.targets[0], ast.Name):
                v = a.value
                vals: List[ast.AST] = []
                if isinstance(v, ast.DictComp):
                    vals = [v.value]
                elif isinstance(v, (ast.ListComp, ast.SetComp)):
                    vals = [v.elt]
                elif isinstance(v, ast.Dict):
                    vals = list(v.values)
                elif isinstance(v, (ast.List, ast.Tuple)):
                    vals = list(v.elts)
                elif isinstance(v, ast.Call):
                    vals = [v]
                if any(isinstance(x, ast.Call) and call_name(x) in gens and not _materialised(x) for x in vals) and not isinstance(v, ast.Call):
                    stored[a.targets[0].id] = a
        if not stored:
            continue
        n += 1
        rep.note_function(f.qualname)
        for name, a in stored.items():
            multi = []
            for ctx in walk_no_nested(f.node):
                if isinstance(ctx, (ast.GeneratorExp, ast.ListComp, ast.SetComp, ast.DictComp, ast.For, ast.While)):
                    body = [ctx.elt] if isinstance(ctx, (ast.GeneratorExp, ast.ListComp, ast.SetComp)) else ([ctx.key, ctx.value] if isinstance(ctx, ast.DictComp) else ctx.body)
                    for b in body:
                        for x in ast.walk(b):
                            if isinstance(x, ast.Subscript) and isinstance(x.value, ast.Name) and x.value.id == name and isinstance(x.ctx, ast.Load):
                                multi.append(x)
            if multi:
                rep.bad(rule, f"{f.short}: `{name}` holds one-shot iterators and is read inside a loop", f.loc(multi[0]), construct=f"{norm(a)[:90]} ... {norm(multi[0])}", detail="the stored values are generators: when the same entry is read twice (two quantified variables of one type) the second reader gets an exhausted iterator and the product is empty", function=f.qualname)
            else:
                rep.ok(rule, f"{f.short}: `{name}` one-shot iterators are consumed once", f.loc(a), function=f.qualname)
    return n


def _materialised(call: ast.Call) -> bool:
    return False


def self_check_one_shot(idx: Index) -> bool:
    src = "def f(objs, forall):\n    d = {t: objs.objects(t) for t in set(v.type for v in forall)}\n    return product(*(d[v.type] for v in forall))\n"
    tree = ast.parse(src)
    from .index import FuncInfo as FI, ModuleInfo

    m = ModuleInfo("fixture.oneshot", "<fixture>", "<fixture>", src, tree)
    fi = FI("f", "fixture.oneshot.f", tree.body[0], m)
    rep = Report("X", "quick", 0)
    one_shot_iterator_reuse(rep, "T19", idx, [fi], gens={"objects"})
    return any(not o.ok for o in rep.obligations)
