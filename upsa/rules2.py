"""More rule templates (added while confronting the checkers with independently seeded changes)."""
from __future__ import annotations

import ast
from typing import Dict, Iterable, List, Optional, Set, Tuple

from .dataflow import DefUse
from .index import FuncInfo, Index, call_name, norm, walk_no_nested
from .report import Report
from .rules import cfg_of

OPTIONAL_NUMERIC_ATTRS = {"lower_bound", "upper_bound"}


def _truthiness_operands(fn: ast.AST) -> List[ast.AST]:
    """Expressions whose truthiness is tested: if / while / ifexp tests, operands of and/or/not, assert tests,
    comprehension conditions."""
    out: List[ast.AST] = []

    def add(e: ast.AST) -> None:
        if isinstance(e, ast.BoolOp):
            for v in e.values:
                add(v)
        elif isinstance(e, ast.UnaryOp) and isinstance(e.op, ast.Not):
            add(e.operand)
        else:
            out.append(e)

    for n in walk_no_nested(fn):
        if isinstance(n, (ast.If, ast.While, ast.IfExp, ast.Assert)):
            add(n.test)
        elif isinstance(n, ast.comprehension):
            for c in n.ifs:
                add(c)
        elif isinstance(n, ast.BoolOp):
            # `x = a or b` style defaults
            for v in n.values[:-1]:
                add(v)
    return out


def optional_numeric_truthiness(rep: Report, rule: str, funcs: Iterable[FuncInfo], attrs: Set[str] = OPTIONAL_NUMERIC_ATTRS) -> int:
    """T18: an Optional number (a type bound: 0 is a legitimate value) must be tested with `is None`, never by
    truthiness. One obligation per function that reads such an attribute; reports each truthiness test whose
    operand is (an alias of) one of those attributes."""
    n = 0
    for f in funcs:
        reads = [x for x in walk_no_nested(f.node) if isinstance(x, ast.Attribute) and x.attr in attrs and isinstance(x.ctx, ast.Load)]
        if not reads:
            continue
        n += 1
        rep.note_function(f.qualname)
        cfg = cfg_of(f)
        du = None
        bad = []
        for e in _truthiness_operands(f.node):
            if isinstance(e, ast.Attribute) and e.attr in attrs:
                bad.append((e, norm(e)))
            elif isinstance(e, ast.Name):
                if du is None:
                    du = DefUse(cfg)
                nodes = cfg.node_containing(e)
                if not nodes:
                    continue
                chains = du.expanded_chains(e, nodes[0])
                hit = [ch for ch in chains if ch[-1] in attrs and len(ch) > 1]
                # only a plain alias counts (x = t.lower_bound), not a value computed from it
                if hit and all(_is_plain_alias(du, e.id, nodes[0], attrs)):
                    bad.append((e, ".".join(hit[0])))
        if bad:
            for e, what in bad:
                rep.bad(rule, f"{f.short}: `{norm(e)}` tested by truthiness", f.loc(e), construct=f"truthiness of {norm(e)} (= {what}) in {f.short}", detail="a bound of 0 (int 0 or Fraction(0)) is falsy: the branch for a *present* bound is skipped exactly when the bound is zero; the test must be `is not None`", function=f.qualname)
        else:
            rep.ok(rule, f"{f.short}: optional bounds are tested with `is None`", f.loc(), function=f.qualname)
    return n


def _is_plain_alias(du: DefUse, name: str, node, attrs: Set[str]):
    from .dataflow import def_value

    for dn in du.rd.get(node, {}).get(name, ()):  # every reaching definition must be a bare attribute read
        if dn is du.cfg.entry:
            yield False
            continue
        v = def_value(dn, name)
        while isinstance(v, ast.Call) and isinstance(v.func, ast.Name) and v.func.id == "cast" and len(v.args) == 2:
            v = v.args[1]
        yield (isinstance(v, ast.Attribute) and v.attr in attrs) or (isinstance(v, ast.Constant) and v.value is None)


def self_check_truthiness() -> bool:
    """Positive fixture for the zero-count rule above: must flag `if upper:`."""
    src = "def f(t):\n    lower, upper = t.lower_bound, t.upper_bound\n    if lower is not None:\n        pass\n    if upper:\n        pass\n"
    tree = ast.parse(src)
    ops = _truthiness_operands(tree.body[0])
    return any(isinstance(o, ast.Name) and o.id == "upper" for o in ops) and not any(isinstance(o, ast.Name) and o.id == "lower" for o in ops)


CACHE_DECORATORS = {"lru_cache", "cache", "cached_property"}


def functools_cache_decorators(fn: ast.AST) -> List[str]:
    out = []
    for d in getattr(fn, "decorator_list", []):
        base = d.func if isinstance(d, ast.Call) else d
        nm = norm(base).split(".")[-1]
        if nm in CACHE_DECORATORS:
            out.append(norm(d))
    return out


def is_generator_function(f: FuncInfo) -> bool:
    return any(isinstance(x, (ast.Yield, ast.YieldFrom)) for x in walk_no_nested(f.node))


# ----------------------------------------------------------------------------- T19 one-shot iterator reuse
def generator_method_names(idx: Index) -> Set[str]:
    """Method/function names that resolve *only* to generator functions in the index."""
    by_name: Dict[str, List[bool]] = {}
    for f in idx.all_funcs():
        by_name.setdefault(f.name, []).append(is_generator_function(f))
    return {n for n, flags in by_name.items() if flags and all(flags)}


def one_shot_iterator_reuse(rep: Report, rule: str, idx: Index, funcs: Iterable[FuncInfo], gens: Optional[Set[str]] = None) -> int:
    """T19: the result of a generator function stored in a name / container and then consumed from inside a
    loop or comprehension can be consumed twice; the second consumer sees an exhausted iterator."""
    gens = gens if gens is not None else generator_method_names(idx)
    n = 0
    for f in funcs:
        stored: Dict[str, ast.AST] = {}
        for a in walk_no_nested(f.node):
            if isinstance(a, ast.Assign) and len(a.targets) == 1 and isinstance(a.targets[0], ast.Name):
                v = a.value
                vals: List[ast.AST] = []
                if isinstance(v, ast.DictComp):
                    vals = [v.value]
                elif isinstance(v, (ast.ListComp, ast.SetComp)):
                    vals = [v.elt]
                elif isinstance(v, ast.Dict):
                    vals = list(v.values)
                elif isinstance(v, (ast.List, ast.Tuple)):
                    vals = list(v.elts)
                elif isinstance(v, ast.Call):
                    vals = [v]
                if any(isinstance(x, ast.Call) and call_name(x) in gens and not _materialised(x) for x in vals) and not isinstance(v, ast.Call):
                    stored[a.targets[0].id] = a
        if not stored:
            continue
        n += 1
        rep.note_function(f.qualname)
        for name, a in stored.items():
            multi = []
            for ctx in walk_no_nested(f.node):
                if isinstance(ctx, (ast.GeneratorExp, ast.ListComp, ast.SetComp, ast.DictComp, ast.For, ast.While)):
                    body = [ctx.elt] if isinstance(ctx, (ast.GeneratorExp, ast.ListComp, ast.SetComp)) else ([ctx.key, ctx.value] if isinstance(ctx, ast.DictComp) else ctx.body)
                    for b in body:
                        for x in ast.walk(b):
                            if isinstance(x, ast.Subscript) and isinstance(x.value, ast.Name) and x.value.id == name and isinstance(x.ctx, ast.Load):
                                multi.append(x)
            if multi:
                rep.bad(rule, f"{f.short}: `{name}` holds one-shot iterators and is read inside a loop", f.loc(multi[0]), construct=f"{norm(a)[:90]} ... {norm(multi[0])}", detail="the stored values are generators: when the same entry is read twice (two quantified variables of one type) the second reader gets an exhausted iterator and the product is empty", function=f.qualname)
            else:
                rep.ok(rule, f"{f.short}: `{name}` one-shot iterators are consumed once", f.loc(a), function=f.qualname)
    return n


def _materialised(call: ast.Call) -> bool:
    return False


def self_check_one_shot(idx: Index) -> bool:
    src = "def f(objs, forall):\n    d = {t: objs.objects(t) for t in set(v.type for v in forall)}\n    return product(*(d[v.type] for v in forall))\n"
    tree = ast.parse(src)
    from .index import FuncInfo as FI, ModuleInfo

    m = ModuleInfo("fixture.oneshot", "<fixture>", "<fixture>", src, tree)
    fi = FI("f", "fixture.oneshot.f", tree.body[0], m)
    rep = Report("X", "quick", 0)
    one_shot_iterator_reuse(rep, "T19", idx, [fi], gens={"objects"})
    return any(not o.ok for o in rep.obligations)


# ----------------------------------------------------------------------------- T20 left/lower - right/upper pairing
_LEFT = ("left", "lower", "start")
_RIGHT = ("right", "upper", "end")


def _side_words(txt: str) -> Tuple[bool, bool]:
    t = txt.lower()
    return any(w in t for w in _LEFT), any(w in t for w in _RIGHT)


def openness_pairing(rep: Report, rule: str, funcs: Iterable[FuncInfo]) -> int:
    """T20: `is_left_open` belongs with the lower bound / left side, `is_right_open` with the upper bound / right
    side. Checked forms: keyword or positional pairs handed on to an interval constructor, conditional
    expressions / if-statements that choose a strict or non-strict comparison for one bound."""
    n = 0
    for f in funcs:
        sites = [x for x in walk_no_nested(f.node) if isinstance(x, ast.Call) and call_name(x) in ("is_left_open", "is_right_open")]
        if not sites:
            continue
        rep.note_function(f.qualname)
        for n_ in walk_no_nested(f.node):
            # (a) keyword pairing
            if isinstance(n_, ast.Call):
                for k in n_.keywords:
                    if k.arg in ("is_left_open", "is_right_open") and isinstance(k.value, ast.Call) and call_name(k.value) in ("is_left_open", "is_right_open"):
                        n += 1
                        ok = call_name(k.value) == k.arg
                        rep.check(ok, rule, f"{f.short}: keyword {k.arg} receives the same side's openness", f.loc(k.value), construct=f"{k.arg}={norm(k.value)}", detail="" if ok else "left and right openness are swapped when the interval is rebuilt", function=f.qualname)
                # (b) positional order: left before right
                pos = [(i, call_name(a)) for i, a in enumerate(n_.args) if isinstance(a, ast.Call) and call_name(a) in ("is_left_open", "is_right_open")]
                if len(pos) == 2:
                    n += 1
                    ok = pos[0][1] == "is_left_open" and pos[1][1] == "is_right_open"
                    rep.check(ok, rule, f"{f.short}: openness flags are passed as (left, right)", f.loc(n_), construct=norm(n_)[:100], detail="" if ok else "the two openness flags are passed in the wrong order", function=f.qualname)
            # (c) conditional choice per side
            test = None
            bodies: List[ast.AST] = []
            target_txt = ""
            if isinstance(n_, ast.IfExp):
                test, bodies = n_.test, [n_.body, n_.orelse]
            elif isinstance(n_, ast.If):
                test, bodies = n_.test, list(n_.body) + list(n_.orelse)
            if test is None:
                continue
            preds = {call_name(c) for c in ast.walk(test) if isinstance(c, ast.Call) and call_name(c) in ("is_left_open", "is_right_open")}
            if len(preds) != 1:
                continue
            pred = next(iter(preds))
            txt = " ".join(norm(b) for b in bodies)
            if isinstance(n_, ast.IfExp):
                # the assignment target names the side as well
                for a in walk_no_nested(f.node):
                    if isinstance(a, (ast.Assign, ast.AnnAssign)) and getattr(a, "value", None) is n_:
                        target_txt = norm(a.targets[0] if isinstance(a, ast.Assign) else a.target)
            has_l, has_r = _side_words(txt + " " + target_txt)
            if not (has_l or has_r):
                continue
            n += 1
            if pred == "is_left_open":
                ok = has_l or not has_r
            else:
                ok = has_r or not has_l
            rep.check(ok, rule, f"{f.short}: the branch on {pred}() concerns the {'lower/left' if pred == 'is_left_open' else 'upper/right'} side", f.loc(test), construct=f"{pred}() decides `{(target_txt + ' = ' if target_txt else '') + txt[:80]}`", detail="" if ok else f"{pred}() selects the strictness of the other bound (copy-paste of the sibling test)", function=f.qualname)
    return n


# ----------------------------------------------------------------------------- T21 swapped arguments
def swapped_arguments(rep: Report, rule: str, idx: Index, funcs: Iterable[FuncInfo], min_sites: int = 0) -> int:
    """T21: a call whose positional arguments are plain names that are *parameter names of the callee*, but at
    other positions than their own (x passed for y and y passed for x). The callee is resolved by name and must
    be unique in the index (self.m / Cls.m / module function); anything else is skipped."""
    n = 0
    for f in funcs:
        for c in walk_no_nested(f.node):
            if not isinstance(c, ast.Call) or len(c.args) < 2:
                continue
            nm = call_name(c)
            if nm is None:
                continue
            cands = [g for g in idx.methods_by_name.get(nm, [])] + [g for g in idx.all_funcs() if g.cls is None and g.name == nm] if False else None
            targets = idx.methods_by_name.get(nm, [])
            mod_f = [g for q, g in idx.funcs.items() if g.cls is None and g.name == nm]
            allc = {id(g): g for g in targets + mod_f}
            if len(allc) != 1:
                continue
            callee = next(iter(allc.values()))
            params = [p for p in callee.params() if p not in ("self", "cls")]
            if len(params) < 2 or callee.node.args.vararg is not None:
                continue
            names = [a.id if isinstance(a, ast.Name) else None for a in c.args]
            if any(isinstance(a, ast.Starred) for a in c.args):
                continue
            n += 1
            swapped = []
            for i, a in enumerate(names):
                if a is None or i >= len(params):
                    continue
                if a in params and params.index(a) != i:
                    j = params.index(a)
                    if j < len(names) and names[j] is not None and names[j] in params and params.index(names[j]) == i:
                        swapped.append((i, j, a, names[j]))
            if swapped:
                i, j, a, b = swapped[0]
                rep.bad(rule, f"{f.short}: arguments of {nm}() match its parameter names position by position", f.loc(c), construct=f"{nm}({', '.join(x or '…' for x in names)}) vs parameters ({', '.join(params)})", detail=f"`{a}` is passed for parameter `{params[i]}` and `{b}` for `{params[j]}`: two arguments are swapped", function=f.qualname)
    return n


# ----------------------------------------------------------------------------- T24 memo key adequacy (function-level caches)
def function_caches(f: FuncInfo) -> List[Tuple[str, ast.AST, ast.AST]]:
    """(cache field, key expression, store node) for `self.<cache>[key] = ...` stores in f whose cache is also
    looked up in f (`self.<cache>.get(key)`, `key in self.<cache>`, `self.<cache>[key]` load)."""
    stores = []
    for a in walk_no_nested(f.node):
        if isinstance(a, ast.Assign):
            for t in a.targets:
                if isinstance(t, ast.Subscript) and isinstance(t.value, ast.Attribute) and isinstance(t.value.value, ast.Name) and t.value.value.id == "self":
                    stores.append((t.value.attr, t.slice, a))
    out = []
    for fld, key, a in stores:
        looked_up = False
        for n in walk_no_nested(f.node):
            if isinstance(n, ast.Call) and isinstance(n.func, ast.Attribute) and n.func.attr == "get" and norm(n.func.value) == f"self.{fld}":
                looked_up = True
            if isinstance(n, ast.Compare) and len(n.ops) == 1 and isinstance(n.ops[0], (ast.In, ast.NotIn)) and norm(n.comparators[0]) == f"self.{fld}":
                looked_up = True
        # a memo: the looked-up entry is what the function returns on a hit
        returns_hit = False
        hit_vars = {norm(x.targets[0]) for x in walk_no_nested(f.node) if isinstance(x, ast.Assign) and isinstance(x.value, ast.Call) and isinstance(x.value.func, ast.Attribute) and x.value.func.attr == "get" and norm(x.value.func.value) == f"self.{fld}"}
        # … also `v = self.<cache>[key]` under `key in self.<cache>`
        hit_vars |= {norm(x.targets[0]) for x in walk_no_nested(f.node) if isinstance(x, ast.Assign) and len(x.targets) == 1 and isinstance(x.value, ast.Subscript) and norm(x.value.value) == f"self.{fld}"}
        for r in walk_no_nested(f.node):
            if isinstance(r, ast.Return) and r.value is not None:
                if norm(r.value) in hit_vars or (isinstance(r.value, ast.Subscript) and norm(r.value.value) == f"self.{fld}"):
                    returns_hit = True
        if looked_up and returns_hit:
            out.append((fld, key, a))
    return out


def memo_key_adequacy(rep: Report, rule: str, funcs: Iterable[FuncInfo]) -> int:
    """T24: a function that memoises its result in a dictionary of `self` must key the entry by every parameter
    the result depends on."""
    from .dataflow import DefUse

    n = 0
    for f in funcs:
        caches = function_caches(f)
        if not caches:
            continue
        params = [p for p in f.params() if p not in ("self", "cls")]
        if not params:
            continue
        cfg = cfg_of(f)
        du = DefUse(cfg)
        seen = set()
        for fld, key, store in caches:
            if fld in seen:
                continue
            seen.add(fld)
            n += 1
            rep.note_function(f.qualname)
            nodes = cfg.nodes_for(store)
            key_names: Set[str] = set()
            if nodes:
                for ch in du.sources(key, nodes[0]):
                    key_names.add(ch[0].rstrip("()"))
            key_names |= {x.id for x in ast.walk(key) if isinstance(x, ast.Name)}
            used = {x.id for x in walk_no_nested(f.node) if isinstance(x, ast.Name) and isinstance(x.ctx, ast.Load) and x.id in params}
            missing = sorted(p for p in used if p not in key_names)
            rep.check(not missing, rule, f"{f.short}: cache self.{fld} is keyed by every parameter the result depends on", f.loc(store), construct=f"self.{fld}[{norm(key)}] in {f.short}({', '.join(params)})", detail="" if not missing else f"the entry is keyed by `{norm(key)}` only, but the function also reads {missing}: a later call with another value of {missing} gets the result computed for the first one", function=f.qualname)
    return n


# ------------------------------------------------------------------------------------ T19b one-shot local consumed twice
ONE_SHOT_CALLS = {"map", "filter", "zip", "iter", "reversed", "enumerate", "chain", "from_iterable", "islice", "product"}
CONSUMERS = {"all", "any", "list", "tuple", "set", "frozenset", "sum", "max", "min", "sorted", "dict", "len", "extend", "update", "join"}


def one_shot_local_consumed_twice(rep: Report, rule: str, funcs: Iterable[FuncInfo]) -> int:
    """A local bound to a one-shot iterator (map / filter / zip / a generator expression …) can be consumed once. Two
    consumers (a loop, a comprehension, all()/any()/list()/…) on one path, with no re-binding in between, make the
    second one see an exhausted iterator. Returns the number of one-shot locals examined."""
    from .cfg import CFG
    from .dataflow import reaching_defs
    from .rules import cfg_of, path_text

    n = 0
    for f in funcs:
        one_shot_defs = {}
        for a in walk_no_nested(f.node):
            if isinstance(a, ast.Assign) and len(a.targets) == 1 and isinstance(a.targets[0], ast.Name):
                v = a.value
                if isinstance(v, ast.GeneratorExp) or (isinstance(v, ast.Call) and call_name(v) in ONE_SHOT_CALLS and not (call_name(v) == "product" and False)):
                    one_shot_defs.setdefault(a.targets[0].id, []).append(a)
        if not one_shot_defs:
            continue
        cfg = cfg_of(f)
        rd = reaching_defs(cfg)
        for name, defs in one_shot_defs.items():
            n += 1
            def_nodes = {nd for nd in cfg.nodes if nd.ast in defs}
            all_defs = {nd for nd in cfg.nodes if nd.ast is not None and nd.kind in ("stmt", "for", "with") and name in _stored_names(nd)}
            consumers = []
            for nd in cfg.nodes:
                if nd.ast is None:
                    continue
                if not (set(rd[nd].get(name, ())) & def_nodes):
                    continue
                if nd.kind == "for" and isinstance(nd.owner.iter, ast.Name) and nd.owner.iter.id == name:
                    consumers.append(nd)
                    continue
                if nd.kind not in ("for", "entry", "exit"):
                    root = nd.ast
                    for x in ast.walk(root):
                        if isinstance(x, ast.Call) and call_name(x) in CONSUMERS and any(isinstance(a, ast.Name) and a.id == name for a in x.args):
                            consumers.append(nd)
                            break
                        if isinstance(x, (ast.GeneratorExp, ast.ListComp, ast.SetComp, ast.DictComp)) and any(isinstance(g.iter, ast.Name) and g.iter.id == name for g in x.generators):
                            consumers.append(nd)
                            break
            w = None
            for c1 in consumers:
                for c2 in consumers:
                    if c1 is c2 and c1.kind != "for":
                        continue
                    if c1 is c2:
                        continue
                    p = cfg.path_avoiding(c1, c2, all_defs - {c1, c2})
                    if p is not None:
                        w = w or (c1, c2, p)
            rep.check(w is None, rule, f"{f.short}: the one-shot iterator `{name}` is consumed at most once on every path", f.loc(defs[0]), construct=f"{name} = {norm(defs[0].value)[:50]}" + ("" if w is None else f"; consumed by `{norm(w[0].ast)[:40]}` and again by `{norm(w[1].ast)[:40]}`"), detail="" if w is None else f"`{name}` is a map / generator object: after the first consumer it is exhausted and the second one iterates over nothing", function=f.qualname, path=path_text(w[2]) if w else None)
    return n


def _stored_names(nd) -> Set[str]:
    out: Set[str] = set()
    a = nd.ast
    tg = []
    if isinstance(a, ast.Assign):
        tg = a.targets
    elif isinstance(a, (ast.AugAssign, ast.AnnAssign)):
        tg = [a.target]
    elif nd.kind == "for" and hasattr(nd, "owner") and isinstance(nd.owner, ast.For):
        tg = [nd.owner.target]
    for t in tg:
        for x in ast.walk(t):
            if isinstance(x, ast.Name):
                out.add(x.id)
    return out


def one_shot_stored_for_reuse(rep: Report, rule: str, funcs: Iterable[FuncInfo]) -> int:
    """T19c: a one-shot iterator (reversed / map / filter / zip / a generator expression) bound into a
    functools.partial, or stored in a field, is consumed by the first call; every later call sees it empty."""
    n = 0
    for f in funcs:
        for c in walk_no_nested(f.node):
            if isinstance(c, ast.Call) and call_name(c) == "partial":
                n += 1
                bad = [a for a in list(c.args[1:]) + [k.value for k in c.keywords] if isinstance(a, ast.GeneratorExp) or (isinstance(a, ast.Call) and call_name(a) in ONE_SHOT_CALLS)]
                rep.check(not bad, rule, f"{f.short}: no one-shot iterator is bound into a partial", f.loc(c), construct=norm(c)[:90] if bad else f"partial({norm(c.args[0]) if c.args else ''}, …)", detail="" if not bad else f"`{norm(bad[0])[:50]}` is exhausted by the first call of the partial: the second call (the second action instance of a plan) iterates over nothing", function=f.qualname)
            if isinstance(c, ast.Assign) and any(isinstance(t, ast.Attribute) and norm(t.value) == "self" for t in c.targets):
                v = c.value
                if isinstance(v, ast.GeneratorExp) or (isinstance(v, ast.Call) and call_name(v) in ONE_SHOT_CALLS and call_name(v) not in ("product",)):
                    n += 1
                    rep.bad(rule, f"{f.short}: no one-shot iterator is stored in a field", f.loc(c), construct=norm(c)[:90], detail="the field can be iterated once; later readers see it empty", function=f.qualname)
    return n


def loop_variable_used_after_loop(rep: Report, rule: str, funcs: Iterable[FuncInfo], report_ok: bool = True) -> int:
    """A statement that follows an inner `for` loop inside an enclosing loop and reads that inner loop's target acts
    on the last element only (the usual cause: a line that lost one level of indentation). Decided with reaching
    definitions: the read is flagged when every definition of the name that reaches it is the target of a `for`
    loop (this inner loop, or an earlier one when this one does not iterate) — i.e. nothing re-binds it on purpose.
    Returns the number of nested loops examined."""
    from .dataflow import reaching_defs
    from .rules import cfg_of

    n = 0
    for f in funcs:
        nested = [(outer, i, st) for outer in ast.walk(f.node) if isinstance(outer, (ast.For, ast.While)) for i, st in enumerate(outer.body) if isinstance(st, ast.For)]
        if not nested:
            continue
        cfg = None
        rd = None
        for outer, i, st in nested:
            targets = {x.id for x in ast.walk(st.target) if isinstance(x, ast.Name)}
            if not targets:
                continue
            n += 1
            bad = None
            for later in outer.body[i + 1 :]:
                # reads inside a comprehension / lambda that binds the same name refer to that binding
                shadowed = set()
                for comp in ast.walk(later):
                    if isinstance(comp, (ast.ListComp, ast.SetComp, ast.DictComp, ast.GeneratorExp)):
                        bound = {z.id for g in comp.generators for z in ast.walk(g.target) if isinstance(z, ast.Name)}
                        shadowed |= {id(z) for z in ast.walk(comp) if isinstance(z, ast.Name) and z.id in bound}
                    elif isinstance(comp, ast.Lambda):
                        bound = {a.arg for a in comp.args.args}
                        shadowed |= {id(z) for z in ast.walk(comp) if isinstance(z, ast.Name) and z.id in bound}
                for y in ast.walk(later):
                    if not (isinstance(y, ast.Name) and isinstance(y.ctx, ast.Load) and y.id in targets) or id(y) in shadowed:
                        continue
                    if cfg is None:
                        cfg = cfg_of(f)
                        rd = reaching_defs(cfg)
                    nodes = cfg.node_containing(y)
                    if not nodes:
                        continue
                    defs = rd[nodes[0]].get(y.id, set())
                    if defs and all(d.kind == "for" for d in defs) and any(d.kind == "for" and d.owner is st for d in defs):
                        bad = bad or (later, y.id)
            if bad is not None:
                rep.bad(rule, f"{f.short}: `{bad[1]}` is not used after the loop that binds it", f.loc(bad[0]), construct=f"{norm(bad[0])[:70]} after `for {norm(st.target)} in {norm(st.iter)[:30]}`", detail=f"the statement reads the loop variable `{bad[1]}` once per iteration of the enclosing loop, after the inner loop has finished: only the last element of the inner loop is treated (a line that lost one level of indentation)", function=f.qualname)
            elif report_ok:
                rep.ok(rule, f"{f.short}: the targets of the inner loop over {norm(st.iter)[:30]} are not read after it", f.loc(st), function=f.qualname)
    return n


def fact_holds(guards, text: str, value: bool = True) -> bool:
    """`text` (normalised source of a Boolean expression) is known to be `value` on the path described by `guards`
    (pairs (test node, outcome) from guards_dominating), whichever way the test was written: `if text:` / `if not text:`."""
    from .index import norm

    for t, o in guards:
        te = t.ast if hasattr(t, "ast") else t
        neg = False
        while isinstance(te, ast.UnaryOp) and isinstance(te.op, ast.Not):
            te, neg = te.operand, not neg
        if norm(te) == text and (bool(o) != neg) == value:
            return True
    return False


def dispatch_links(stmts) -> List[ast.If]:
    """The links of a dispatch written as `if … elif … elif …` or, equivalently, as consecutive `if …: return/raise`
    statements (no-else-return style), or any mixture: the If nodes in order, starting at the first `if` of `stmts`."""
    def leaves(block) -> bool:
        return bool(block) and isinstance(block[-1], (ast.Return, ast.Raise, ast.Continue, ast.Break))

    out: List[ast.If] = []
    seq = list(stmts)
    k = next((j for j, st in enumerate(seq) if isinstance(st, ast.If)), None)
    while k is not None and k < len(seq) and isinstance(seq[k], ast.If):
        node = seq[k]
        out.append(node)
        while len(node.orelse) == 1 and isinstance(node.orelse[0], ast.If):
            node = node.orelse[0]
            out.append(node)
        if node.orelse:
            # a final else: the chain may continue inside it (else: if …) only in the elif form handled above
            break
        if not leaves(node.body):
            break
        k += 1
    return out


_POS = {ast.NotEq: ast.Eq, ast.IsNot: ast.Is, ast.NotIn: ast.In}


def _atom_facts(te: ast.AST, outcome: bool, out: Set[Tuple[str, bool]]) -> None:
    """Decompose a test taken with `outcome` into atomic facts (normalised text, truth value)."""
    from .index import norm

    if isinstance(te, ast.UnaryOp) and isinstance(te.op, ast.Not):
        _atom_facts(te.operand, not outcome, out)
        return
    if isinstance(te, ast.BoolOp):
        if (isinstance(te.op, ast.And) and outcome) or (isinstance(te.op, ast.Or) and not outcome):
            for v in te.values:
                _atom_facts(v, outcome, out)
        return
    if isinstance(te, ast.Compare) and len(te.ops) == 1 and type(te.ops[0]) in _POS:
        pos = ast.Compare(left=te.left, ops=[_POS[type(te.ops[0])]()], comparators=te.comparators)
        out.add((norm(pos), not outcome))
        return
    out.add((norm(te), outcome))


def path_facts(cfg, node) -> Set[Tuple[str, bool]]:
    """What is known at `node` whichever way the enclosing tests were written: atomic (text, value) facts from every
    dominating test — `if not a: … else: <node>`, `if a: <node>`, `if not a: return` followed by <node> all give
    (a, True); negated comparison operators are stated positively ((`x is None`, False) for `x is not None`)."""
    from .rules import guards_dominating

    out: Set[Tuple[str, bool]] = set()
    for t, o in guards_dominating(cfg, node):
        _atom_facts(t.ast, bool(o), out)
    return out


# ------------------------------------------------------------------------------------ expression-node truthiness
FNODE_CALLS = {"evaluate", "simplify", "substitute", "get_value", "remove_quantifiers", "FluentExp", "ObjectExp", "And", "Or", "Not", "Plus", "Minus", "Times", "Div", "Equals", "LE", "LT", "GE", "GT", "Int", "Real", "TRUE", "FALSE", "Bool", "Iff", "Implies", "Exists", "Forall", "ParameterExp", "VariableExp", "get_nnf_expression", "get_dnf_expression", "arg", "qsimplify"}


def _truth_tested(fn: ast.AST) -> List[Tuple[ast.AST, ast.AST]]:
    out = []
    for n in walk_no_nested(fn):
        if isinstance(n, (ast.If, ast.While, ast.IfExp, ast.Assert)):
            out.append((n.test, n))
        elif isinstance(n, ast.BoolOp):
            out.extend((v, n) for v in (n.values[:-1] if isinstance(n.op, ast.Or) else n.values))
        elif isinstance(n, ast.UnaryOp) and isinstance(n.op, ast.Not):
            out.append((n.operand, n))
    return out


def expression_node_truthiness(rep: Report, rule: str, funcs: Iterable[FuncInfo]) -> int:
    """An expression node (FNode) has no `__bool__`: it is always truthy, whatever it denotes (FALSE(), Int(0)).
    `if v:`, `v or w`, `not v` on a local whose every binding is the result of an expression-producing call
    (evaluate, simplify, substitute, get_value, a manager constructor) therefore never takes the other branch: the
    author meant `.is_true()` / `.constant_value()` / `is not None`. Returns the number of truth-tested locals
    examined."""
    n = 0
    for f in funcs:
        tests = [(t, at) for t, at in _truth_tested(f.node) if isinstance(t, ast.Name)]
        if not tests:
            continue
        params = {a.arg for a in f.node.args.args + f.node.args.kwonlyargs + f.node.args.posonlyargs}
        if f.node.args.vararg:
            params.add(f.node.args.vararg.arg)
        if f.node.args.kwarg:
            params.add(f.node.args.kwarg.arg)
        defs: Dict[str, List[Optional[ast.AST]]] = {}
        for a in walk_no_nested(f.node):
            if isinstance(a, ast.Assign) and len(a.targets) == 1 and isinstance(a.targets[0], ast.Name):
                defs.setdefault(a.targets[0].id, []).append(a.value)
            else:
                stores = []
                if isinstance(a, ast.Assign):
                    stores = [x for t in a.targets for x in ast.walk(t)]
                elif isinstance(a, (ast.For, ast.comprehension)):
                    stores = list(ast.walk(a.target))
                elif isinstance(a, (ast.AugAssign, ast.AnnAssign)):
                    stores = list(ast.walk(a.target))
                elif isinstance(a, ast.NamedExpr):
                    stores = [a.target]
                elif isinstance(a, ast.withitem) and a.optional_vars is not None:
                    stores = list(ast.walk(a.optional_vars))
                elif isinstance(a, ast.ExceptHandler) and a.name:
                    defs.setdefault(a.name, []).append(None)
                for x in stores:
                    if isinstance(x, ast.Name):
                        defs.setdefault(x.id, []).append(None)
        for t, at in tests:
            if t.id in params:
                continue
            n += 1
            ds = defs.get(t.id)
            if ds and all(d is not None and isinstance(d, ast.Call) and call_name(d) in FNODE_CALLS for d in ds):
                rep.bad(rule, f"`{t.id}` is tested for truth but is always an expression node", f.loc(at), construct=norm(at)[:90], detail=f"every binding of `{t.id}` is the result of {sorted({call_name(d) for d in ds})}: an FNode is truthy whatever it denotes, so the test is constant and the other branch is dead (e.g. `v or old` never falls back, `if not v` never fires) — `.is_true()` / `.constant_value()` / `is not None` was meant", function=f.qualname)
    return n


def self_check_expression_truthiness() -> bool:
    src = "def f(se, e, s, old):\n    v = se.evaluate(e, s)\n    return v or old\n"
    import types

    fn = ast.parse(src).body[0]
    class _R:
        def __init__(self):
            self.hits = 0
        def bad(self, *a, **k):
            self.hits += 1
    f = types.SimpleNamespace(node=fn, qualname="fixture.f", loc=lambda n=None: "fixture:1")
    r = _R()
    expression_node_truthiness(r, "fixture", [f])
    return r.hits == 1


# ------------------------------------------------------------------------------------ test one variable, use its sibling
def _call_shape(v: ast.AST) -> Tuple[str, ...]:
    return tuple(call_name(c) for c in ast.walk(v) if isinstance(c, ast.Call))


def stale_guard(rep: Report, rule: str, funcs: Iterable[FuncInfo]) -> int:
    """Copy-paste guard: `w = f(…)` immediately followed by `if test(v): … w …` where `v` is an earlier local of the
    same block built by the same calls as `w`, the test does not read `w` and the guarded body does not read `v` — the
    guard decides about the previous sibling's value, not about the one the body uses. Returns the number of
    (assignment, if) pairs examined."""
    n = 0
    for f in funcs:
        for owner in walk_no_nested(f.node):
            for fld in ("body", "orelse", "finalbody"):
                blk = getattr(owner, fld, None)
                if not (isinstance(blk, list) and blk and all(isinstance(x, ast.stmt) for x in blk)):
                    continue
                assigned: Dict[str, Tuple[int, ast.AST]] = {}
                for i, st in enumerate(blk):
                    if isinstance(st, ast.If) and i > 0:
                        prev = blk[i - 1]
                        if isinstance(prev, ast.Assign) and len(prev.targets) == 1 and isinstance(prev.targets[0], ast.Name):
                            w = prev.targets[0].id
                            n += 1
                            t_names = {x.id for x in ast.walk(st.test) if isinstance(x, ast.Name)}
                            b_names = {x.id for s in st.body for x in ast.walk(s) if isinstance(x, ast.Name) and isinstance(x.ctx, ast.Load)}
                            if w in b_names and w not in t_names and _call_shape(prev.value):
                                for v in sorted(t_names - b_names):
                                    if v in assigned and assigned[v][0] < i - 1 and _call_shape(assigned[v][1]) == _call_shape(prev.value):
                                        rep.bad(rule, f"the guard tests `{v}` but guards the use of `{w}`", f.loc(st), construct=f"{w} = …; if {norm(st.test)[:50]}: … {w} …", detail=f"`{w}` is computed right before the test by the same calls as `{v}`, the test reads only `{v}` and the body only `{w}`: the condition was copied from the sibling block without renaming its variable, so `{w}` is used (or dropped) on the strength of `{v}`", function=f.qualname)
                    if isinstance(st, ast.Assign) and len(st.targets) == 1 and isinstance(st.targets[0], ast.Name):
                        assigned[st.targets[0].id] = (i, st.value)
    return n


# ------------------------------------------------------------------------------------ companion fields
_MUTATORS = {"append", "add", "update", "setdefault", "pop", "remove", "extend", "clear", "discard", "insert", "popitem"}


def _field_writes(fn: ast.AST, recv: str) -> Dict[str, List[ast.AST]]:
    out: Dict[str, List[ast.AST]] = {}
    for a in walk_no_nested(fn):
        if isinstance(a, (ast.Assign, ast.AugAssign, ast.AnnAssign)):
            for t in (a.targets if isinstance(a, ast.Assign) else [a.target]):
                for x in ast.walk(t):
                    if isinstance(x, ast.Attribute) and isinstance(x.value, ast.Name) and x.value.id == recv and isinstance(x.ctx, ast.Store):
                        out.setdefault(x.attr, []).append(a)
                    if isinstance(x, ast.Subscript) and isinstance(x.value, ast.Attribute) and isinstance(x.value.value, ast.Name) and x.value.value.id == recv:
                        out.setdefault(x.value.attr, []).append(a)
        elif isinstance(a, ast.Call) and isinstance(a.func, ast.Attribute) and a.func.attr in _MUTATORS and isinstance(a.func.value, ast.Attribute) and isinstance(a.func.value.value, ast.Name) and a.func.value.value.id == recv:
            out.setdefault(a.func.value.attr, []).append(a)
        elif isinstance(a, ast.Delete):
            for t in a.targets:
                if isinstance(t, ast.Subscript) and isinstance(t.value, ast.Attribute) and isinstance(t.value.value, ast.Name) and t.value.value.id == recv:
                    out.setdefault(t.value.attr, []).append(a)
    return out


_NOT_MUTATORS = ("__init__", "__setstate__", "clone", "__deepcopy__", "_clone_to")


def companion_pairs(ci) -> Dict[Tuple[str, str], List[str]]:
    """(f, g) such that at least two ordinary methods of the class write field f and every one of them also writes
    field g: g is bookkeeping kept in step with f (an index, a count, a derived set)."""
    per: Dict[str, Set[str]] = {}
    for name, fi in ci.methods.items():
        if name in _NOT_MUTATORS:
            continue
        w = _field_writes(fi.node, "self")
        if w:
            per[name] = set(w)
    fields = set().union(*per.values()) if per else set()
    out: Dict[Tuple[str, str], List[str]] = {}
    for f in fields:
        mf = sorted(k for k, v in per.items() if f in v)
        if len(mf) < 2:
            continue
        for g in fields:
            if g != f and all(g in per[k] for k in mf):
                out[(f, g)] = mf
    return out


def companion_fields(rep: Report, rule: str, idx: Index, classes) -> int:
    """Wherever a method of the class or of a subclass (its `clone` included, writing through the new instance)
    writes f, it writes the companion g too: a copy that carries the list but not its index, or a new mutator that
    forgets the bookkeeping, leaves the two out of step. Returns the number of (class, f, g) pairs."""
    n = 0
    for ci in classes:
        pairs = companion_pairs(ci)
        if not pairs:
            continue
        family = [ci] + [s for s in idx.subclasses(ci)]
        for (f, g), mf in sorted(pairs.items()):
            n += 1
            for cj in family:
                for name, fi in cj.methods.items():
                    if name in ("__init__", "__setstate__"):
                        continue
                    recvs = {x.value.id for x in ast.walk(fi.node) if isinstance(x, ast.Attribute) and isinstance(x.value, ast.Name)}
                    for r in sorted(recvs):
                        w = _field_writes(fi.node, r)
                        if f in w and g not in w:
                            rep.bad(rule, f"{cj.name}.{name} writes {r}.{f} and keeps {r}.{g} in step", fi.loc(w[f][0]), construct=f"{r}.{f} written, {r}.{g} not ({ci.name}: {', '.join(mf[:3])} write both)", detail=f"`{g}` is bookkeeping for `{f}` (every method of {ci.name} that changes one changes the other); here only `{f}` is set, so the object answers from a stale `{g}` — e.g. a clone that has the elements but an empty index, whose lookups then disagree with its contents", function=fi.qualname)
    return n


# ------------------------------------------------------------------------------------ parallel lists
def _zipped_params(fn: ast.AST) -> List[Tuple[str, str]]:
    params = [a.arg for a in fn.args.args]
    out = []
    for c in walk_no_nested(fn):
        if isinstance(c, ast.Call) and call_name(c) == "zip" and len(c.args) >= 2 and all(isinstance(a, ast.Name) for a in c.args[:2]):
            a, b = c.args[0].id, c.args[1].id
            if a in params and b in params:
                out.append((a, b))
    return out


def parallel_lists(rep: Report, rule: str, idx: Index, funcs: Iterable[FuncInfo]) -> int:
    """Two lists that are consumed position by position (`zip(a, b)`, here or in a callee that zips the two
    parameters they are passed for — possibly through `for x in product(*b)`, whose tuples are as long as b) must grow
    together: in a loop that appends to both, no iteration may append to one and not to the other. Returns the number
    of parallel pairs found."""
    by_name: Dict[str, List[FuncInfo]] = {}
    for g in idx.all_funcs():
        by_name.setdefault(g.node.name, []).append(g)
    n = 0
    for f in funcs:
        pairs: Set[Tuple[str, str]] = set()
        prod_src: Dict[str, str] = {}
        def product_of(e):
            for c in ast.walk(e):
                if isinstance(c, ast.Call) and call_name(c) == "product" and len(c.args) == 1 and isinstance(c.args[0], ast.Starred) and isinstance(c.args[0].value, ast.Name):
                    return c.args[0].value.id
            return None

        assigned_products = {a.targets[0].id: product_of(a.value) for a in walk_no_nested(f.node) if isinstance(a, ast.Assign) and len(a.targets) == 1 and isinstance(a.targets[0], ast.Name) and product_of(a.value)}
        for l in walk_no_nested(f.node):
            if isinstance(l, ast.For) and isinstance(l.target, ast.Name):
                src = product_of(l.iter) if not isinstance(l.iter, ast.Name) else assigned_products.get(l.iter.id)
                if src:
                    prod_src[l.target.id] = src
        for c in walk_no_nested(f.node):
            if not isinstance(c, ast.Call):
                continue
            if call_name(c) == "zip" and len(c.args) >= 2 and all(isinstance(a, ast.Name) for a in c.args[:2]):
                pairs.add((c.args[0].id, c.args[1].id))
                continue
            for g in by_name.get(call_name(c) or "", []):
                zp = _zipped_params(g.node)
                if not zp:
                    continue
                gparams = [a.arg for a in g.node.args.args]
                off = 1 if gparams[:1] == ["self"] and isinstance(c.func, ast.Attribute) else 0
                amap = {}
                for i, a in enumerate(c.args):
                    if i + off < len(gparams) and isinstance(a, ast.Name):
                        amap[gparams[i + off]] = a.id
                for k in c.keywords:
                    if k.arg and isinstance(k.value, ast.Name):
                        amap[k.arg] = k.value.id
                for pa, pb in zp:
                    if pa in amap and pb in amap:
                        pairs.add((prod_src.get(amap[pa], amap[pa]), prod_src.get(amap[pb], amap[pb])))
        if not pairs:
            continue
        cfg = cfg_of(f)
        for a, b in sorted(pairs):
            if a == b:
                continue
            apps = {nm: [nd for nd, c in cfg.nodes_with_call("append") if isinstance(c.func, ast.Attribute) and norm(c.func.value) == nm] if hasattr(cfg, "nodes_with_call") else [] for nm in (a, b)}
            if not apps[a] and not apps[b]:
                from .rules import cfg_nodes_with_call

                apps = {nm: [nd for nd, c in cfg_nodes_with_call(cfg, "append") if isinstance(c.func, ast.Attribute) and norm(c.func.value) == nm] for nm in (a, b)}
            if not apps[a] or not apps[b]:
                continue
            for l in [x for x in cfg.nodes if x.kind == "for"]:
                body = {nd for nd in cfg.nodes if nd.ast is not None and any(y is nd.ast for st in l.owner.body for y in ast.walk(st))}
                ia, ib = [x for x in apps[a] if x in body], [x for x in apps[b] if x in body]
                if not ia or not ib:
                    continue
                n += 1
                first = [s_ for s_ in cfg.g.successors(l) if s_ in body]
                bad = None
                for one, other, nm_one, nm_other in ((ia, ib, a, b), (ib, ia, b, a)):
                    for x in one:
                        reach_in = any(s_ is x or cfg.path_avoiding(s_, x, set(other)) is not None for s_ in first if s_ not in other)
                        reach_out = cfg.path_avoiding(x, l, set(other)) is not None
                        if reach_in and reach_out and x not in other:
                            bad = (nm_one, nm_other, x)
                            break
                    if bad:
                        break
                rep.check(bad is None, rule, f"`{a}` and `{b}` are consumed position by position and grow together", f.loc(l.owner), construct=f"for {norm(l.owner.target)} in {norm(l.owner.iter)[:40]}: {a}.append / {b}.append " + ("on the same iterations" if bad is None else f"— an iteration can append to {bad[0]} and not to {bad[1]}"), detail="" if bad is None else f"the two lists are zipped later; once one of them skips an element every later pair is shifted by one position and the last element is dropped", function=f.qualname)
    return n


# ------------------------------------------------------------------------------------ str.strip with a prefix / suffix
def strip_charset_misuse(rep: Report, rule: str, funcs: Iterable[FuncInfo]) -> int:
    """`s.lstrip(prefix)` / `s.rstrip(suffix)` / `s.strip(word)` remove *characters of the set*, not the prefix: with a
    variable or a word as argument they also eat leading characters of what follows (`'pack.amount'.lstrip('pack.')`
    is `'mount'`). Reported when the argument is not a literal, or is a literal word (two or more alphanumerics).
    Returns the number of strip calls with an argument examined."""
    n = 0
    for f in funcs:
        for c in walk_no_nested(f.node):
            if not (isinstance(c, ast.Call) and isinstance(c.func, ast.Attribute) and c.func.attr in ("lstrip", "rstrip", "strip") and len(c.args) == 1 and not c.keywords):
                continue
            n += 1
            a = c.args[0]
            if isinstance(a, ast.Constant) and isinstance(a.value, str) and sum(ch.isalnum() for ch in a.value) < 2:
                rep.ok(rule, "strip with a character set", f.loc(c), construct=norm(c)[:80], function=f.qualname)
                continue
            rep.bad(rule, f"`{c.func.attr}` is given a prefix / suffix, but strips a character set", f.loc(c), construct=norm(c)[:90], detail="str.lstrip/rstrip/strip treat the argument as a set of characters: besides the intended prefix they remove every following character that happens to be in that set, so names are truncated depending on their spelling — slice by len(prefix) or use removeprefix / removesuffix", function=f.qualname)
    return n


def self_check_strip() -> bool:
    import types

    class _R:
        def __init__(self):
            self.b = self.o = 0
        def bad(self, *a, **k):
            self.b += 1
        def ok(self, *a, **k):
            self.o += 1
    fn = ast.parse("def f(name, prefix):\n    a = name.lstrip(prefix)\n    b = name.strip(' \\n')\n    return a, b\n").body[0]
    r = _R()
    strip_charset_misuse(r, "fixture", [types.SimpleNamespace(node=fn, qualname="fixture.f", loc=lambda n=None: "fixture:1")])
    return (r.b, r.o) == (1, 1)


# ------------------------------------------------------------------------------------ enumeration domain of a variable
def enumeration_domain_matches_variable(rep: Report, rule: str, funcs: Iterable[FuncInfo]) -> int:
    """`for o in problem.objects(T): … {v: o} …` instantiates variable / parameter v with every object of T: T has to
    be v's own type (`v.type`). Enumerating the type of something else (the value that happens to be assigned, the
    other operand) visits a subtype's objects only and leaves the remaining instances untouched. Returns the number
    of such loops."""
    n = 0
    for f in funcs:
        for l in walk_no_nested(f.node):
            if not (isinstance(l, ast.For) and isinstance(l.target, ast.Name) and isinstance(l.iter, ast.Call) and call_name(l.iter) == "objects" and len(l.iter.args) == 1):
                continue
            o, t = l.target.id, norm(l.iter.args[0])
            keys = []
            for d in ast.walk(l):
                if isinstance(d, ast.Dict):
                    keys += [k for k, v in zip(d.keys, d.values) if k is not None and isinstance(v, ast.Name) and v.id == o]
                elif isinstance(d, ast.Assign) and isinstance(d.targets[0], ast.Subscript) and isinstance(d.value, ast.Name) and d.value.id == o:
                    keys.append(d.targets[0].slice)
            for k in keys:
                if not isinstance(k, (ast.Name, ast.Attribute)):
                    continue
                n += 1
                ok = t == norm(k) + ".type"
                rep.check(ok, rule, f"`{norm(k)}` ranges over the objects of its own type", f.loc(l), construct=f"for {o} in …objects({t}): {{{norm(k)}: {o}}}", detail="" if ok else f"the loop instantiates `{norm(k)}` but enumerates the objects of `{t}`: when that is a strict subtype the instances for the other objects of `{norm(k)}`'s type are never produced (no initial value, no case of the expansion)", function=f.qualname)
    return n


# ------------------------------------------------------------------------------------ clone shares a mutable container
def clone_shares_mutable_state(rep: Report, rule: str, idx: Index, classes) -> int:
    """In a `clone` / `_clone_to` method, `new.f = self.g` hands the copy the very container of the original. That is
    harmless for values never changed in place, and a defect for a field that some method of the class family mutates
    (subscript store, append / add / update / setdefault / pop …): later changes to one object show in the other.
    Returns the number of direct field hand-overs examined."""
    n = 0
    for ci in classes:
        family = [ci] + list(idx.subclasses(ci)) + [b for b in ci.mro if b is not ci]
        mutated: Dict[str, str] = {}
        for cj in family:
            for mname, mf in cj.methods.items():
                for a in walk_no_nested(mf.node):
                    tgt = None
                    if isinstance(a, ast.Call) and isinstance(a.func, ast.Attribute) and a.func.attr in _MUTATORS and isinstance(a.func.value, ast.Attribute) and norm(a.func.value.value) == "self":
                        tgt = a.func.value.attr
                    elif isinstance(a, (ast.Assign, ast.AugAssign, ast.Delete)):
                        for t in (a.targets if isinstance(a, (ast.Assign, ast.Delete)) else [a.target]):
                            if isinstance(t, ast.Subscript) and isinstance(t.value, ast.Attribute) and norm(t.value.value) == "self":
                                tgt = t.value.attr
                    if tgt:
                        mutated.setdefault(tgt, f"{cj.name}.{mname}")
        for mname in ("clone", "_clone_to"):
            mf = ci.methods.get(mname)
            if mf is None:
                continue
            for a in walk_no_nested(mf.node):
                if not (isinstance(a, ast.Assign) and len(a.targets) == 1 and isinstance(a.targets[0], ast.Attribute) and isinstance(a.targets[0].value, ast.Name) and a.targets[0].value.id != "self"):
                    continue
                v = a.value
                if not (isinstance(v, ast.Attribute) and norm(v.value) == "self"):
                    continue
                n += 1
                ok = v.attr not in mutated
                rep.check(ok, rule, f"{ci.name}.{mname}: `{v.attr}` handed to the copy is never changed in place", mf.loc(a), construct=norm(a)[:70] + ("" if ok else f" — mutated in place by {mutated[v.attr]}"), detail="" if ok else f"original and copy now hold the same `{v.attr}` object, which {mutated[v.attr]} changes in place: an operation on one of them changes what the other one answers (for a cache: the other one's analysis is returned)", function=mf.qualname)
    return n


# ------------------------------------------------------------------------------------ one level of helper inlining
def through_helper(ci, f: FuncInfo, name: str):
    """`name` is bound in f by unpacking the result of a private helper of the same class — directly
    (`i, name, v = self._h(a, b)`) or through one local (`r = self._h(a, b)` … `i, name, v = r`). Returns
    (helper FuncInfo, the helper's name for that tuple position, {helper parameter: caller argument text},
    [Return statements of the helper that return such a tuple]) or None. One level, same class: the summary bound
    of the 'extract method' refactoring."""
    for a in walk_no_nested(f.node):
        if not (isinstance(a, ast.Assign) and len(a.targets) == 1 and isinstance(a.targets[0], ast.Tuple)):
            continue
        elts = a.targets[0].elts
        pos = [i for i, t in enumerate(elts) if isinstance(t, ast.Name) and t.id == name]
        if not pos:
            continue
        calls = []
        if isinstance(a.value, ast.Call):
            calls = [a.value]
        elif isinstance(a.value, ast.Name):
            calls = [b.value for b in walk_no_nested(f.node) if isinstance(b, ast.Assign) and len(b.targets) == 1 and isinstance(b.targets[0], ast.Name) and b.targets[0].id == a.value.id and isinstance(b.value, ast.Call)]
        calls = [c for c in calls if isinstance(c.func, ast.Attribute) and norm(c.func.value) == "self"]
        names = {c.func.attr for c in calls}
        if len(names) != 1:
            continue
        h = ci.methods.get(next(iter(names)))
        if h is None:
            continue
        rets = [r for r in walk_no_nested(h.node) if isinstance(r, ast.Return) and isinstance(r.value, ast.Tuple) and len(r.value.elts) == len(elts)]
        if not rets or not all(isinstance(r.value.elts[pos[0]], ast.Name) for r in rets):
            continue
        hname = rets[0].value.elts[pos[0]].id
        if any(r.value.elts[pos[0]].id != hname for r in rets):
            continue
        hp = [p for p in h.params() if p != "self"]
        pmap = {p: norm(arg) for p, arg in zip(hp, calls[0].args)}
        for k in calls[0].keywords:
            if k.arg:
                pmap[k.arg] = norm(k.value)
        return h, hname, pmap, rets
    return None
