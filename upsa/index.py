"""Source index of /repo/unified_planning: modules, classes, functions, imports, MRO.

Nothing here imports or executes unified_planning; everything is computed from syntax trees.
"""
from __future__ import annotations

import ast
import hashlib
import os
from dataclasses import dataclass, field
from typing import Dict, Iterator, List, Optional, Sequence, Set, Tuple

REPO = os.environ.get("UPSA_REPO", "/repo")
PKG = "unified_planning"
EXCLUDE_DIRS = ("test", os.path.join("grpc", "generated"))


class AnalysisError(Exception):
    """An anchor vanished, a file does not parse, or a rule matched fewer sites than its minimum."""


_NEGATED = {ast.Eq: ast.NotEq, ast.NotEq: ast.Eq, ast.Is: ast.IsNot, ast.IsNot: ast.Is, ast.In: ast.NotIn, ast.NotIn: ast.In}


def _constant_like(e: ast.AST) -> bool:
    if isinstance(e, ast.Constant):
        return True
    if isinstance(e, ast.Name) and e.id.isupper():
        return True
    return isinstance(e, ast.Attribute) and e.attr.isupper() and isinstance(e.value, ast.Name) and e.value.id[:1].isupper()


def _canonical(tree: ast.AST) -> ast.AST:
    """Canonical form analysed by every rule: inside function bodies an annotated assignment to a local
    (`x: T = v`) becomes the plain assignment `x = v` (annotations of locals are never evaluated; adding or
    removing one must not change any verdict). Class-level annotated fields (dataclasses) are left alone."""

    class T(ast.NodeTransformer):
        def __init__(self):
            self.depth = 0

        def visit_FunctionDef(self, node):
            self.depth += 1
            self.generic_visit(node)
            self.depth -= 1
            return node

        visit_AsyncFunctionDef = visit_FunctionDef

        def visit_ClassDef(self, node):
            d, self.depth = self.depth, 0
            self.generic_visit(node)
            self.depth = d
            return node

        def visit_AnnAssign(self, node):
            self.generic_visit(node)
            if self.depth > 0 and node.value is not None and isinstance(node.target, ast.Name):
                new = ast.Assign(targets=[node.target], value=node.value, type_comment=None)
                return ast.copy_location(new, node)
            return node

        # logic shape (inside functions): one spelling per meaning, so that no rule depends on which one was written
        #   K == x            ->  x == K        (K a literal / None / ALL_CAPS constant; ==, !=, is, is not)
        #   not (a == b)      ->  a != b        (likewise is / in)
        #   if not c: A else: B  ->  if c: B else: A
        def visit_Compare(self, node):
            self.generic_visit(node)
            if self.depth > 0 and len(node.ops) == 1 and isinstance(node.ops[0], (ast.Eq, ast.NotEq, ast.Is, ast.IsNot)) and _constant_like(node.left) and not _constant_like(node.comparators[0]):
                node.left, node.comparators = node.comparators[0], [node.left]
            return node

        def visit_UnaryOp(self, node):
            self.generic_visit(node)
            if self.depth > 0 and isinstance(node.op, ast.Not) and isinstance(node.operand, ast.Compare) and len(node.operand.ops) == 1:
                flip = _NEGATED.get(type(node.operand.ops[0]))
                if flip is not None:
                    node.operand.ops = [flip()]
                    return ast.copy_location(node.operand, node)
            return node

        def visit_If(self, node):
            self.generic_visit(node)
            # `if A: if B: X` (no else anywhere) is `if A and B: X`
            if self.depth > 0 and not node.orelse and len(node.body) == 1 and isinstance(node.body[0], ast.If) and not node.body[0].orelse:
                inner = node.body[0]

                def conj(e):
                    return list(e.values) if isinstance(e, ast.BoolOp) and isinstance(e.op, ast.And) else [e]

                node.test = ast.copy_location(ast.BoolOp(op=ast.And(), values=conj(node.test) + conj(inner.test)), node.test)
                node.body = inner.body
            if self.depth > 0 and node.orelse:
                t = node.test
                if isinstance(t, ast.UnaryOp) and isinstance(t.op, ast.Not):
                    node.test, node.body, node.orelse = t.operand, node.orelse, node.body
                elif isinstance(t, ast.Compare) and len(t.ops) == 1 and isinstance(t.ops[0], (ast.NotEq, ast.IsNot, ast.NotIn)):
                    t.ops = [_NEGATED[type(t.ops[0])]()]
                    node.body, node.orelse = node.orelse, node.body
            return node

    tree = T().visit(tree)
    # a `pass` next to other statements is nothing: blocks are compared without it (so `else: if …: …; pass` is
    # still an elif link and two statements separated by a `pass` are still adjacent)
    for node in ast.walk(tree):
        for fld in ("body", "orelse", "finalbody"):
            blk = getattr(node, fld, None)
            if isinstance(blk, list) and len(blk) > 1 and any(isinstance(x, ast.Pass) for x in blk):
                kept = [x for x in blk if not isinstance(x, ast.Pass)]
                if kept:
                    setattr(node, fld, kept)
    _inline_return_temporaries(tree)
    _inline_pure_flags(tree)
    tree = T().visit(tree)  # the inlined tests get their canonical polarity too
    return ast.fix_missing_locations(tree)


def _inline_pure_flags(tree: ast.AST) -> None:
    """`flag = <comparison / and / or / not over stable names, no call>` bound once: every test that reads `flag`
    reads the expression instead (`has_iff = IFF in ops or IMPLIES in ops; if NOT in ops or has_iff:` is the test
    `NOT in ops or IFF in ops or IMPLIES in ops`). The assignment itself stays."""
    import copy

    impure = (ast.Call, ast.Await, ast.Yield, ast.YieldFrom, ast.Lambda, ast.ListComp, ast.SetComp, ast.DictComp, ast.GeneratorExp, ast.NamedExpr, ast.Starred, ast.Subscript)
    for fn in ast.walk(tree):
        if not isinstance(fn, (ast.FunctionDef, ast.AsyncFunctionDef)):
            continue
        stores: Dict[str, int] = {}
        for n in ast.walk(fn):
            if isinstance(n, ast.Name) and isinstance(n.ctx, (ast.Store, ast.Del)):
                stores[n.id] = stores.get(n.id, 0) + 1
            elif isinstance(n, (ast.Global, ast.Nonlocal)):
                for nm in n.names:
                    stores[nm] = stores.get(nm, 0) + 2
            elif isinstance(n, (ast.FunctionDef, ast.AsyncFunctionDef, ast.ClassDef)) and n is not fn:
                stores[n.name] = stores.get(n.name, 0) + 2
        params = {a.arg for a in fn.args.args + fn.args.kwonlyargs + fn.args.posonlyargs}
        if fn.args.vararg:
            params.add(fn.args.vararg.arg)
        if fn.args.kwarg:
            params.add(fn.args.kwarg.arg)
        flags: Dict[str, ast.AST] = {}
        for st in ast.walk(fn):
            if not (isinstance(st, ast.Assign) and len(st.targets) == 1 and isinstance(st.targets[0], ast.Name)):
                continue
            x, e = st.targets[0].id, st.value
            if x in params or stores.get(x, 0) != 1 or not isinstance(e, (ast.BoolOp, ast.Compare)) and not (isinstance(e, ast.UnaryOp) and isinstance(e.op, ast.Not)):
                continue
            if any(isinstance(y, impure[1:]) for y in ast.walk(e)):
                continue
            if any(isinstance(y, ast.Call) and not (isinstance(y.func, ast.Name) and y.func.id in ("len", "isinstance", "bool") and not y.keywords) for y in ast.walk(e)):
                continue  # len() / isinstance() of stable names are as stable as the names
            names = {y.id for y in ast.walk(e) if isinstance(y, ast.Name)}
            if not all((nm in params and stores.get(nm, 0) == 0) or stores.get(nm, 0) == 1 or nm not in stores for nm in names):
                continue
            flags[x] = e
        if not flags:
            continue

        class R(ast.NodeTransformer):
            def visit_Name(self, node):
                if isinstance(node.ctx, ast.Load) and node.id in flags:
                    return ast.copy_location(copy.deepcopy(flags[node.id]), node)
                return node

        r = R()
        for n in ast.walk(fn):
            if isinstance(n, (ast.If, ast.While, ast.IfExp, ast.Assert)):
                n.test = r.visit(n.test)


def _inline_return_temporaries(tree: ast.AST) -> None:
    """`x = E` immediately followed by `return x`, with x bound once and read once in the whole function, is
    `return E`: a result kept in a temporary for one line (to log it, to name it) is the same code to every rule."""
    for fn in ast.walk(tree):
        if not isinstance(fn, (ast.FunctionDef, ast.AsyncFunctionDef)):
            continue
        loads: Dict[str, int] = {}
        stores: Dict[str, int] = {}
        for n in ast.walk(fn):
            if isinstance(n, ast.Name):
                d = loads if isinstance(n.ctx, ast.Load) else stores
                d[n.id] = d.get(n.id, 0) + 1
            elif isinstance(n, (ast.Global, ast.Nonlocal)):
                for nm in n.names:
                    stores[nm] = stores.get(nm, 0) + 2
        params = {a.arg for a in fn.args.args + fn.args.kwonlyargs + fn.args.posonlyargs}
        for owner in ast.walk(fn):
            for fld in ("body", "orelse", "finalbody"):
                blk = getattr(owner, fld, None)
                if not (isinstance(blk, list) and len(blk) >= 2 and all(isinstance(x, ast.stmt) for x in blk)):
                    continue
                out = []
                i = 0
                while i < len(blk):
                    st = blk[i]
                    nxt = blk[i + 1] if i + 1 < len(blk) else None
                    if isinstance(st, ast.Assign) and len(st.targets) == 1 and isinstance(st.targets[0], ast.Name) and isinstance(nxt, ast.Return) and isinstance(nxt.value, ast.Name) and nxt.value.id == st.targets[0].id and st.targets[0].id not in params and loads.get(st.targets[0].id, 0) == 1 and stores.get(st.targets[0].id, 0) == 1:
                        out.append(ast.copy_location(ast.Return(value=st.value), nxt))
                        i += 2
                        continue
                    # likewise `c = T` immediately followed by `if c:` / `if not c:` (c bound once, read once)
                    if isinstance(st, ast.Assign) and len(st.targets) == 1 and isinstance(st.targets[0], ast.Name) and isinstance(nxt, ast.If) and st.targets[0].id not in params and loads.get(st.targets[0].id, 0) == 1 and stores.get(st.targets[0].id, 0) == 1:
                        t = nxt.test
                        neg = False
                        while isinstance(t, ast.UnaryOp) and isinstance(t.op, ast.Not):
                            t, neg = t.operand, not neg
                        if isinstance(t, ast.Name) and t.id == st.targets[0].id:
                            nxt.test = ast.copy_location(ast.UnaryOp(op=ast.Not(), operand=st.value), nxt.test) if neg else st.value
                            out.append(nxt)
                            i += 2
                            continue
                    out.append(st)
                    i += 1
                setattr(owner, fld, out)


@dataclass
class FuncInfo:
    name: str
    qualname: str  # module.Class.func or module.func
    node: ast.AST  # FunctionDef | AsyncFunctionDef
    module: "ModuleInfo"
    cls: Optional["ClassInfo"] = None

    @property
    def file(self) -> str:
        return self.module.relpath

    @property
    def short(self) -> str:
        return (self.cls.name + "." if self.cls else "") + self.name

    def loc(self, node: Optional[ast.AST] = None) -> str:
        n = node if node is not None else self.node
        return f"{self.module.relpath}:{getattr(n, 'lineno', 0)}"

    def params(self) -> List[str]:
        a = self.node.args
        return [x.arg for x in list(a.posonlyargs) + list(a.args) + list(a.kwonlyargs)] + (
            [a.vararg.arg] if a.vararg else []
        ) + ([a.kwarg.arg] if a.kwarg else [])


@dataclass
class ClassInfo:
    name: str
    qualname: str
    node: ast.ClassDef
    module: "ModuleInfo"
    base_exprs: List[ast.expr] = field(default_factory=list)
    bases: List["ClassInfo"] = field(default_factory=list)
    unresolved_bases: List[str] = field(default_factory=list)
    methods: Dict[str, FuncInfo] = field(default_factory=dict)
    _mro: Optional[List["ClassInfo"]] = None

    def loc(self, node: Optional[ast.AST] = None) -> str:
        n = node if node is not None else self.node
        return f"{self.module.relpath}:{getattr(n, 'lineno', 0)}"

    @property
    def mro(self) -> List["ClassInfo"]:
        if self._mro is None:
            self._mro = _c3(self)
        return self._mro

    def lookup(self, meth: str) -> Optional[FuncInfo]:
        for c in self.mro:
            if meth in c.methods:
                return c.methods[meth]
        return None

    def is_subclass_of(self, other: "ClassInfo") -> bool:
        return other in self.mro

    def decorators(self) -> List[str]:
        return [ast.unparse(d) for d in self.node.decorator_list]


def _c3(cls: ClassInfo) -> List[ClassInfo]:
    seqs = [list(b.mro) for b in cls.bases] + [list(cls.bases)]
    res = [cls]
    while True:
        seqs = [s for s in seqs if s]
        if not seqs:
            return res
        for s in seqs:
            cand = s[0]
            if not any(cand in t[1:] for t in seqs):
                break
        else:  # inconsistent hierarchy: fall back to depth-first order
            cand = seqs[0][0]
        res.append(cand)
        for s in seqs:
            if s and s[0] is cand:
                del s[0]


@dataclass
class ModuleInfo:
    name: str  # dotted
    path: str
    relpath: str
    source: str
    tree: ast.Module
    imports: Dict[str, str] = field(default_factory=dict)  # local alias -> dotted target
    classes: Dict[str, ClassInfo] = field(default_factory=dict)
    functions: Dict[str, FuncInfo] = field(default_factory=dict)
    assigns: Dict[str, ast.expr] = field(default_factory=dict)  # module-level NAME = expr
    is_pkg: bool = False

    def seg(self, node: ast.AST) -> str:
        return ast.get_source_segment(self.source, node) or ast.unparse(node)


class Index:
    def __init__(self, repo: str = REPO, pkg: str = PKG, extra_files: Sequence[str] = ()):
        self.repo = repo
        self.pkg = pkg
        self.modules: Dict[str, ModuleInfo] = {}
        self.classes: Dict[str, ClassInfo] = {}
        self.classes_by_name: Dict[str, List[ClassInfo]] = {}
        self.funcs: Dict[str, FuncInfo] = {}
        self.methods_by_name: Dict[str, List[FuncInfo]] = {}
        self.consulted: Set[str] = set()
        self._load(extra_files)
        self._resolve_bases()
        self._register_enums()

    # ---------------------------------------------------------------- loading
    def _iter_files(self) -> Iterator[str]:
        root = os.path.join(self.repo, self.pkg)
        if not os.path.isdir(root):
            raise AnalysisError(f"package directory missing: {root}")
        for dp, dn, fn in os.walk(root):
            rel = os.path.relpath(dp, root)
            if any(rel == e or rel.startswith(e + os.sep) for e in EXCLUDE_DIRS):
                dn[:] = []
                continue
            dn[:] = sorted(d for d in dn if d != "__pycache__")
            for f in sorted(fn):
                if f.endswith(".py"):
                    yield os.path.join(dp, f)

    def _load(self, extra_files: Sequence[str]) -> None:
        files = list(self._iter_files()) + list(extra_files)
        for path in files:
            rel = os.path.relpath(path, self.repo)
            try:
                with open(path, encoding="utf-8") as fh:
                    src = fh.read()
                tree = _canonical(ast.parse(src, filename=path))
            except (SyntaxError, OSError, UnicodeDecodeError) as e:
                raise AnalysisError(f"cannot parse {rel}: {e}")
            if path in extra_files:
                modname = "fixture." + os.path.splitext(os.path.basename(path))[0]
            else:
                modname = rel[:-3].replace(os.sep, ".")
            is_pkg = modname.endswith(".__init__")
            if is_pkg:
                modname = modname[: -len(".__init__")]
            m = ModuleInfo(modname, path, rel, src, tree, is_pkg=is_pkg)
            self.modules[modname] = m
            self._scan_module(m)

    def _scan_module(self, m: ModuleInfo) -> None:
        pkgname = m.name if m.is_pkg else m.name.rpartition(".")[0]
        for node in ast.walk(m.tree):
            if isinstance(node, ast.Import):
                for a in node.names:
                    if a.asname:
                        m.imports.setdefault(a.asname, a.name)
                    else:
                        m.imports.setdefault(a.name.split(".")[0], a.name.split(".")[0])
            elif isinstance(node, ast.ImportFrom):
                base = node.module or ""
                if node.level:
                    parts = pkgname.split(".")
                    parts = parts[: len(parts) - (node.level - 1)]
                    base = ".".join(parts + ([node.module] if node.module else []))
                for a in node.names:
                    if a.name == "*":
                        m.imports.setdefault("*" + base, base)
                    else:
                        m.imports.setdefault(a.asname or a.name, base + "." + a.name)
        for node in m.tree.body:
            if isinstance(node, ast.ClassDef):
                self._scan_class(m, node, prefix=m.name)
            elif isinstance(node, (ast.FunctionDef, ast.AsyncFunctionDef)):
                fi = FuncInfo(node.name, f"{m.name}.{node.name}", node, m)
                m.functions[node.name] = fi
                self.funcs[fi.qualname] = fi
            elif isinstance(node, ast.Assign) and len(node.targets) == 1 and isinstance(node.targets[0], ast.Name):
                m.assigns[node.targets[0].id] = node.value
            elif isinstance(node, ast.AnnAssign) and isinstance(node.target, ast.Name) and node.value is not None:
                m.assigns[node.target.id] = node.value
            elif isinstance(node, (ast.If, ast.Try)):
                # conditional module-level definitions (rare): index classes/functions inside too
                for sub in ast.walk(node):
                    if isinstance(sub, ast.ClassDef) and sub.name not in m.classes:
                        self._scan_class(m, sub, prefix=m.name)

    def _scan_class(self, m: ModuleInfo, node: ast.ClassDef, prefix: str) -> None:
        ci = ClassInfo(node.name, f"{prefix}.{node.name}", node, m, base_exprs=list(node.bases))
        m.classes[node.name] = ci
        self.classes[ci.qualname] = ci
        self.classes_by_name.setdefault(node.name, []).append(ci)
        for sub in node.body:
            if isinstance(sub, (ast.FunctionDef, ast.AsyncFunctionDef)):
                fi = FuncInfo(sub.name, f"{ci.qualname}.{sub.name}", sub, m, ci)
                # keep the last definition (property setters share the name with the getter: keep getter
                # under the name and the setter under name + '.setter')
                decos = [ast.unparse(d) for d in sub.decorator_list]
                key = sub.name
                if any(d.endswith(".setter") for d in decos):
                    key = sub.name + ".setter"
                ci.methods[key] = fi
                self.funcs[f"{ci.qualname}.{key}"] = fi
                self.methods_by_name.setdefault(sub.name, []).append(fi)
            elif isinstance(sub, ast.ClassDef):
                self._scan_class(m, sub, prefix=ci.qualname)

    # ---------------------------------------------------------------- resolution
    def resolve_dotted(self, m: ModuleInfo, dotted: str) -> Optional[object]:
        """Resolve a dotted expression as written in module m to ClassInfo / FuncInfo / ModuleInfo."""
        parts = dotted.split(".")
        head = parts[0]
        target: Optional[str] = None
        if head in m.classes and len(parts) == 1:
            return m.classes[head]
        if head in m.functions and len(parts) == 1:
            return m.functions[head]
        if head in m.imports:
            target = m.imports[head]
        elif head in m.classes:
            target = m.classes[head].qualname
        elif head == self.pkg:
            target = self.pkg
        if target is None:
            return None
        full = ".".join([target] + parts[1:])
        return self.lookup_qual(full)

    def lookup_qual(self, full: str, _depth: int = 0) -> Optional[object]:
        if full in self.classes:
            return self.classes[full]
        if full in self.funcs:
            return self.funcs[full]
        if full in self.modules:
            return self.modules[full]
        if _depth > 6:
            return None
        # follow re-exports: a.b.C where a.b is a package whose __init__ imports C
        parts = full.split(".")
        for i in range(len(parts) - 1, 0, -1):
            modname = ".".join(parts[:i])
            if modname in self.modules:
                mod = self.modules[modname]
                nxt = parts[i]
                rest = parts[i + 1 :]
                if nxt in mod.classes:
                    obj: object = mod.classes[nxt]
                    for r in rest:
                        if isinstance(obj, ClassInfo) and r in obj.methods:
                            obj = obj.methods[r]
                        elif isinstance(obj, ClassInfo) and f"{obj.qualname}.{r}" in self.classes:
                            obj = self.classes[f"{obj.qualname}.{r}"]
                        else:
                            return None
                    return obj
                if nxt in mod.functions and not rest:
                    return mod.functions[nxt]
                if nxt in mod.imports:
                    return self.lookup_qual(".".join([mod.imports[nxt]] + rest), _depth + 1)
                for k, v in mod.imports.items():
                    if k.startswith("*"):
                        r = self.lookup_qual(".".join([v, nxt] + rest), _depth + 1)
                        if r is not None:
                            return r
                return None
        return None

    def _resolve_bases(self) -> None:
        for ci in self.classes.values():
            for b in ci.base_exprs:
                txt = ast.unparse(b)
                if isinstance(b, ast.Subscript):  # Generic[T]
                    txt = ast.unparse(b.value)
                obj = self.resolve_dotted(ci.module, txt)
                if isinstance(obj, ClassInfo):
                    ci.bases.append(obj)
                else:
                    ci.unresolved_bases.append(txt)

    def _register_enums(self) -> None:
        """Enum classes and their members, for exhaustive if-chains (see dataflow.feasible_path)."""
        from . import dataflow

        for ci in self.classes.values():
            if any(ast.unparse(b).split(".")[-1] in ("Enum", "IntEnum") for b in ci.base_exprs):
                members = [t.id for s in ci.node.body if isinstance(s, ast.Assign) for t in s.targets if isinstance(t, ast.Name)]
                if members:
                    dataflow.ENUMS[ci.name] = members

    # ---------------------------------------------------------------- anchors
    def module(self, name: str) -> ModuleInfo:
        full = name if name.startswith(self.pkg) or name.startswith("fixture.") else f"{self.pkg}.{name}"
        if full not in self.modules:
            raise AnalysisError(f"anchor vanished: module {full}")
        self.consulted.add(self.modules[full].relpath)
        return self.modules[full]

    def cls(self, name: str) -> ClassInfo:
        """name: 'pkg.mod.Class' (with or without the leading 'unified_planning.')."""
        full = name if name.startswith(self.pkg) or name.startswith("fixture.") else f"{self.pkg}.{name}"
        if full not in self.classes:
            raise AnalysisError(f"anchor vanished: class {full}")
        self.consulted.add(self.classes[full].module.relpath)
        return self.classes[full]

    def func(self, name: str) -> FuncInfo:
        full = name if name.startswith(self.pkg) or name.startswith("fixture.") else f"{self.pkg}.{name}"
        if full not in self.funcs:
            raise AnalysisError(f"anchor vanished: function {full}")
        self.consulted.add(self.funcs[full].module.relpath)
        return self.funcs[full]

    def method(self, clsname: str, meth: str) -> FuncInfo:
        """Method as seen from class (through the MRO)."""
        c = self.cls(clsname)
        f = c.lookup(meth)
        if f is None:
            raise AnalysisError(f"anchor vanished: method {c.qualname}.{meth}")
        self.consulted.add(f.module.relpath)
        return f

    def subclasses(self, base: ClassInfo, strict: bool = True) -> List[ClassInfo]:
        return [c for c in self.classes.values() if base in c.mro and (c is not base or not strict)]

    def all_funcs(self) -> Iterator[FuncInfo]:
        seen = set()
        for f in self.funcs.values():
            if id(f) not in seen:
                seen.add(id(f))
                yield f

    def digest(self, relpaths: Optional[Sequence[str]] = None) -> str:
        h = hashlib.sha256()
        for m in sorted(self.modules.values(), key=lambda m: m.relpath):
            if relpaths is None or m.relpath in relpaths:
                h.update(m.relpath.encode())
                h.update(m.source.encode())
        return h.hexdigest()[:16]


# ------------------------------------------------------------------------- ast helpers
def norm(node: ast.AST) -> str:
    """Normalised source text of a node (formatting- and line-independent)."""
    return ast.unparse(node)


def chain(node: ast.AST) -> Optional[Tuple[str, ...]]:
    """Access path of an expression: self._problem.fluents -> ('self','_problem','fluents');
    calls are kept as 'name()' : state.get_value(x) -> ('state','get_value()');
    subscripts as '[]'. None if the root is not a Name."""
    out: List[str] = []
    cur = node
    while True:
        if isinstance(cur, ast.Attribute):
            out.append(cur.attr)
            cur = cur.value
        elif isinstance(cur, ast.Call):
            # mark the last attr as call
            f = cur.func
            if isinstance(f, ast.Attribute):
                out.append(f.attr + "()")
                cur = f.value
            elif isinstance(f, ast.Name) and f.id == "cast" and len(cur.args) == 2:
                cur = cur.args[1]  # typing.cast is the identity
            elif isinstance(f, ast.Name):
                out.append(f.id + "()")
                return tuple(reversed(out))
            else:
                return None
        elif isinstance(cur, ast.Subscript):
            out.append("[]")
            cur = cur.value
        elif isinstance(cur, ast.Name):
            out.append(cur.id)
            return tuple(reversed(out))
        else:
            return None


def call_name(call: ast.Call) -> Optional[str]:
    f = call.func
    if isinstance(f, ast.Attribute):
        return f.attr
    if isinstance(f, ast.Name):
        return f.id
    return None


def walk_no_nested(node: ast.AST, include_lambdas: bool = True) -> Iterator[ast.AST]:
    """ast.walk that does not descend into nested function / class definitions (but yields them)."""
    todo = [node]
    first = True
    while todo:
        n = todo.pop()
        yield n
        if not first and isinstance(n, (ast.FunctionDef, ast.AsyncFunctionDef, ast.ClassDef)):
            continue
        if not include_lambdas and isinstance(n, ast.Lambda):
            continue
        first = False
        todo.extend(reversed(list(ast.iter_child_nodes(n))))


def attrs_read(node: ast.AST) -> Set[str]:
    return {n.attr for n in ast.walk(node) if isinstance(n, ast.Attribute)}


def names_read(node: ast.AST) -> Set[str]:
    return {n.id for n in ast.walk(node) if isinstance(n, ast.Name) and isinstance(n.ctx, ast.Load)}


def calls_in(node: ast.AST) -> List[ast.Call]:
    return [n for n in ast.walk(node) if isinstance(n, ast.Call)]


def str_consts(node: ast.AST) -> List[str]:
    return [n.value for n in ast.walk(node) if isinstance(n, ast.Constant) and isinstance(n.value, str)]


def parent_map(root: ast.AST) -> Dict[ast.AST, ast.AST]:
    pm: Dict[ast.AST, ast.AST] = {}
    for n in ast.walk(root):
        for c in ast.iter_child_nodes(n):
            pm[c] = n
    return pm


def docstring_free_body(fn: ast.AST) -> List[ast.stmt]:
    body = list(fn.body)
    if body and isinstance(body[0], ast.Expr) and isinstance(body[0].value, ast.Constant) and isinstance(body[0].value.value, str):
        body = body[1:]
    return body
