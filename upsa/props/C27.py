"""C27 — deordering a valid sequential plan keeps every linearisation valid (structural clauses).

Decides (T1 in SequentialPlan._to_partial_order_plan): the read set of an action instance is built from its
preconditions and, for every effect *expanded over the problem's objects*, from the effect's condition, its value
and its target fluent (so a write is also a read: write-write pairs stay ordered); quantifiers are removed before
the free fluents are extracted; read fluents are grounded with the instance's parameters; every reader is ordered
after the last modifier of the fluent, every writer after all earlier readers/writers of the fluent, and the
writer becomes the last modifier; edges point from the earlier to the later instance.
Does not decide: validity of the linearisations.
"""
from __future__ import annotations

import ast

from ..dataflow import DefUse
from ..index import AnalysisError, Index, call_name, norm, walk_no_nested
from ..report import Report
from ..rules import cfg_nodes_with_call, cfg_of

F = "plans.sequential_plan.SequentialPlan._to_partial_order_plan"


def run(idx: Index, rep: Report, tier: str) -> None:
    rep.explanation = __doc__.strip()
    f = idx.func(F)
    rep.note_function(f.qualname)
    cfg = cfg_of(f)
    du = DefUse(cfg)
    rule1 = "C27.1 T1 read-set-sources"
    aug = [n for n in cfg.nodes if isinstance(n.ast, ast.AugAssign) and isinstance(n.ast.op, ast.BitOr) and isinstance(n.ast.target, ast.Name)]
    if not aug:
        raise AnalysisError("anchor vanished: read-set accumulation in _to_partial_order_plan")
    read_set = aug[0].ast.target.id
    sources = {}
    for n in aug:
        if n.ast.target.id != read_set:
            continue
        for ch in du.expanded_chains(n.ast.value, n):
            for key in ("preconditions", "condition", "value", "fluent"):
                if ch[-1] == key or (key == "preconditions" and "preconditions" in ch):
                    if key not in sources or ("effects" in ch and "effects" not in sources[key][1]):
                        sources[key] = (n, ch)
    for key, why in (("preconditions", "a precondition reads"), ("condition", "an effect condition reads"), ("value", "an effect value reads"), ("fluent", "an effect target writes (recorded as read so that write-write pairs stay ordered)")):
        hit = sources.get(key)
        ok = hit is not None
        if ok and key != "preconditions":
            ok = "expand_effect()" in hit[1] and "effects" in hit[1]
        rep.check(ok, rule1, f"the read set contains the fluents {why}", f.loc(hit[0].ast) if hit else f.loc(), construct=".".join(hit[1]) if hit else f"nothing derived from .{key} is added to {read_set}", detail="" if ok else f"two instances where one writes a fluent that {why.split()[0]} {why.split()[1]} of the other are left unordered", function=f.qualname)
    ee = [c for _, c in cfg_nodes_with_call(cfg, "expand_effect")]
    ok = len(ee) >= 2 and all(c.args and norm(c.args[0]) == "problem" for c in ee)
    rep.check(ok, rule1, "effects are expanded over the problem's objects in both the read and the write pass", f.loc(ee[0]) if ee else f.loc(), construct=f"{len(ee)} expand_effect(problem) sites", detail="" if ok else "forall effects are not expanded: the fluents they touch are missing from the read/write sets", function=f.qualname)
    rq = [c for _, c in cfg_nodes_with_call(cfg, "remove_quantifiers")]
    rep.check(len(rq) >= 4, rule1, "quantifiers are removed before free fluents are extracted", f.loc(rq[0]) if rq else f.loc(), construct=f"{len(rq)} remove_quantifiers sites", function=f.qualname)
    adds = [(n, c) for n, c in cfg_nodes_with_call(cfg, "add") if norm(c.func.value) == "required_fluents"]
    ok = bool(adds) and all("substitute" in norm(c.args[0]) and "assignments" in norm(c.args[0]) for _, c in adds)
    rep.check(ok, rule1, "read fluents are grounded with the instance's actual parameters", f.loc(adds[0][1]) if adds else f.loc(), construct=norm(adds[0][1])[:100] if adds else "", function=f.qualname)
    asg = [a for a in walk_no_nested(f.node) if isinstance(a, (ast.Assign, ast.AnnAssign)) and norm(a.targets[0] if isinstance(a, ast.Assign) else a.target) == "assignments"]
    ok = bool(asg) and "parameters" in norm(asg[0].value) and "actual_parameters" in norm(asg[0].value)
    rep.check(ok, rule1, "the grounding map pairs formal with actual parameters", f.loc(asg[0]) if asg else f.loc(), construct=norm(asg[0].value) if asg else "", function=f.qualname)

    rule2 = "C27.2 ordering-edges"
    edges = [c for _, c in cfg_nodes_with_call(cfg, "add_edge")]
    txt = [tuple(norm(a) for a in c.args) for c in edges]
    ok = any(a[1] == "action_instance" and "last_modifier" in a[0] for a in txt)
    rep.check(ok, rule2, "a reader is ordered after the last modifier of the fluent (earlier -> later)", f.loc(edges[0]) if edges else f.loc(), construct=str(txt), detail="" if ok else "read-after-write pairs are not ordered (or the edge is reversed)", function=f.qualname)
    ok = any(a[1] == "action_instance" and "dependent" in a[0] for a in txt)
    rep.check(ok, rule2, "a writer is ordered after every earlier instance that read or wrote the fluent", f.loc(edges[-1]) if edges else f.loc(), construct=str(txt), detail="" if ok else "write-after-read / write-after-write pairs are not ordered", function=f.qualname)
    lm = [a for a in walk_no_nested(f.node) if isinstance(a, ast.Assign) and isinstance(a.targets[0], ast.Subscript) and norm(a.targets[0].value) == "last_modifier"]
    ok = bool(lm) and all(norm(a.value) == "action_instance" for a in lm)
    rep.check(ok, rule2, "the writer becomes the last modifier of the ground fluent", f.loc(lm[0]) if lm else f.loc(), construct=norm(lm[0]) if lm else "", function=f.qualname)
    if lm:
        key = norm(lm[0].targets[0].slice)
        kd = [a for a in walk_no_nested(f.node) if isinstance(a, ast.Assign) and norm(a.targets[0]) == key]
        ok = bool(kd) and "eff.fluent" in norm(kd[0].value) and "assignments" in norm(kd[0].value)
        rep.check(ok, rule2, "the written fluent is the effect's target grounded with the actual parameters", f.loc(kd[0]) if kd else f.loc(), construct=norm(kd[0].value)[:100] if kd else "", function=f.qualname)
    regs = [c for _, c in cfg_nodes_with_call(cfg, "append") if "action_instance" in norm(c.args[0]) and "list" in norm(c.func.value)]
    rep.check(bool(regs), rule2, "every reader is registered for the fluents it reads", f.loc(regs[0]) if regs else f.loc(), construct=norm(regs[0]) if regs else "", function=f.qualname)
    loops = [l for l in cfg.nodes if l.kind == "for" and norm(l.owner.iter) == "self.actions"]
    rep.check(bool(loops), rule2, "instances are processed in plan order", f.loc(loops[0].owner) if loops else f.loc(), construct="for action_instance in self.actions", function=f.qualname)
    # simulated effects are outside the property's grammar
    if not any(isinstance(n, ast.Attribute) and n.attr == "simulated_effect" for n in walk_no_nested(f.node)):
        rep.candidate("C27 simulated effects", f.loc(), "simulated_effect is never read", "fluents written by simulated effects are not part of the write set (outside the property's grammar)")
