"""C27 — deordering a valid sequential plan keeps every linearisation valid (structural clauses).

Decides (T1 in SequentialPlan._to_partial_order_plan): the read set of an action instance is built from its
preconditions and, for every effect *expanded over the problem's objects*, from the effect's condition, its value
and its target fluent (so a write is also a read: write-write pairs stay ordered); quantifiers are removed before
the free fluents are extracted; read fluents are grounded with the instance's parameters; every reader is ordered
after the last modifier of the fluent, every writer after all earlier readers/writers of the fluent, and the
writer becomes the last modifier; edges point from the earlier to the later instance.
Does not decide: validity of the linearisations.
"""
from __future__ import annotations

import ast

from ..dataflow import DefUse
from ..index import AnalysisError, Index, call_name, norm, walk_no_nested
from ..report import Report
from ..rules import cfg_nodes_with_call, cfg_of

F = "plans.sequential_plan.SequentialPlan._to_partial_order_plan"


def run(idx: Index, rep: Report, tier: str) -> None:
    rep.explanation = __doc__.strip()
    f = idx.func(F)
    rep.note_function(f.qualname)
    cfg = cfg_of(f)
    du = DefUse(cfg)
    rule1 = "C27.1 T1 read-set-sources"
    def read_set_rule() -> None:
        aug = [n for n in cfg.nodes if isinstance(n.ast, ast.AugAssign) and isinstance(n.ast.op, ast.BitOr) and isinstance(n.ast.target, ast.Name)]
        if not aug:
            rep.vanished(rule1, "read-set accumulation in _to_partial_order_plan", f.qualname, f.loc())
            return
        read_set = aug[0].ast.target.id
        sources = {}
        for n in aug:
            if n.ast.target.id != read_set:
                continue
            for ch in du.expanded_chains(n.ast.value, n):
                for key in ("preconditions", "condition", "value", "fluent"):
                    if ch[-1] == key or (key == "preconditions" and "preconditions" in ch):
                        if key not in sources or ("effects" in ch and "effects" not in sources[key][1]):
                            sources[key] = (n, ch)
        for key, why in (("preconditions", "a precondition reads"), ("condition", "an effect condition reads"), ("value", "an effect value reads"), ("fluent", "an effect target writes (recorded as read so that write-write pairs stay ordered)")):
            hit = sources.get(key)
            ok = hit is not None
            if ok and key != "preconditions":
                ok = "expand_effect()" in hit[1] and "effects" in hit[1]
            rep.check(ok, rule1, f"the read set contains the fluents {why}", f.loc(hit[0].ast) if hit else f.loc(), construct=".".join(hit[1]) if hit else f"nothing derived from .{key} is added to {read_set}", detail="" if ok else f"two instances where one writes a fluent that {why.split()[0]} {why.split()[1]} of the other are left unordered", function=f.qualname)
        ee = [c for _, c in cfg_nodes_with_call(cfg, "expand_effect")]
        params = set(f.params()) - {"self"}
        ok = len(ee) >= 2 and all(c.args and isinstance(c.args[0], ast.Name) and c.args[0].id in params for c in ee)
        rep.check(ok, rule1, "effects are expanded over the problem's objects in both the read and the write pass", f.loc(ee[0]) if ee else f.loc(), construct=f"{len(ee)} expand_effect(<problem parameter>) sites", detail="" if ok else "forall effects are not expanded: the fluents they touch are missing from the read/write sets", function=f.qualname)
        rq = [c for _, c in cfg_nodes_with_call(cfg, "remove_quantifiers")]
        rep.check(len(rq) >= 4, rule1, "quantifiers are removed before free fluents are extracted", f.loc(rq[0]) if rq else f.loc(), construct=f"{len(rq)} remove_quantifiers sites", function=f.qualname)
        # the grounding map: built from the formal and the actual parameters of the instance
        maps = [a for a in walk_no_nested(f.node) if isinstance(a, (ast.Assign, ast.AnnAssign)) and a.value is not None and any(isinstance(x, ast.Attribute) and x.attr == "actual_parameters" for x in ast.walk(a.value))]
        ok = bool(maps) and any(isinstance(x, ast.Attribute) and x.attr == "parameters" for x in ast.walk(maps[0].value)) and any(isinstance(x, ast.Call) and call_name(x) == "zip" for x in ast.walk(maps[0].value))
        rep.check(ok, rule1, "the grounding map pairs formal with actual parameters", f.loc(maps[0]) if maps else f.loc(), construct=norm(maps[0].value) if maps else "no map built from actual_parameters", function=f.qualname)
        mname = norm(maps[0].targets[0] if isinstance(maps[0], ast.Assign) else maps[0].target) if maps else None
        adds = [(n, c) for n, c in cfg_nodes_with_call(cfg, "add") if c.args and any(ch[0] == read_set and "<elem>" in ch for ch in du.expanded_chains(c.args[0], n))]
        ok = bool(adds) and all(any(isinstance(x, ast.Call) and call_name(x) == "substitute" and any(norm(a) == mname for a in x.args) for x in ast.walk(c.args[0])) for _, c in adds)
        rep.check(ok, rule1, "read fluents are grounded with the instance's actual parameters", f.loc(adds[0][1]) if adds else f.loc(), construct=norm(adds[0][1])[:100] if adds else "no grounded copy of the read set", function=f.qualname)

    read_set_rule()

    rule2 = "C27.2 ordering-edges"
    # roles are recognised by what the code does with them, not by their names
    loops = [l for l in cfg.nodes if l.kind == "for" and isinstance(l.owner.target, ast.Name) and any(ch[0] == "self" and ch[-1] in ("actions", "_actions") for ch in du.expanded_chains(l.owner.iter, l))]
    rep.check(bool(loops), rule2, "instances are processed in plan order", f.loc(loops[0].owner) if loops else f.loc(), construct="for <instance> in self.actions", function=f.qualname)
    if not loops:
        raise AnalysisError("anchor vanished: loop over self.actions in _to_partial_order_plan")
    inst = loops[0].owner.target.id

    def is_inst(e: ast.AST, n) -> bool:
        return any(ch == (inst,) for ch in du.expanded_chains(e, n))

    # last-modifier maps: D[key] = <instance>
    lm = [(n, n.ast) for n in cfg.nodes if n.kind == "stmt" and isinstance(n.ast, ast.Assign) and isinstance(n.ast.targets[0], ast.Subscript) and isinstance(n.ast.targets[0].value, ast.Name) and is_inst(n.ast.value, n)]
    rep.check(bool(lm), rule2, "the writer becomes the last modifier of the ground fluent", f.loc(lm[0][1]) if lm else f.loc(), construct=norm(lm[0][1]) if lm else "no `<map>[<fluent>] = <instance>`", detail="" if lm else "no map records the instance as last modifier of what it writes: read-after-write pairs cannot be ordered", function=f.qualname)
    lm_names = {a.targets[0].value.id for _, a in lm}
    for n, a in lm:
        src = du.sources(a.targets[0].slice, n)
        ok = any(ch[-1] == "fluent" for ch in src) and any(ch[-1] == "actual_parameters" for ch in src) and any(ch[-1] == "expand_effect()" for ch in src)
        rep.check(ok, rule2, "the written fluent is the target of an expanded effect grounded with the actual parameters", f.loc(a), construct=norm(a)[:100], detail="" if ok else "the key of the last-modifier map is not derived from eff.fluent of an expanded effect and the instance's actual parameters", function=f.qualname)
    # reader registries: <dict>.setdefault(k, []) … .append(<instance>)
    regs = []
    for n, c in cfg_nodes_with_call(cfg, "append"):
        # `<registry>.setdefault(k, []).append(x)` or `<registry>[k].append(x)` (the entry created beforehand)
        entry = [ch for ch in du.expanded_chains(c.func.value, n) if len(ch) >= 2 and ch[1] in ("setdefault()", "[]", "get()")]
        if c.args and is_inst(c.args[0], n) and entry:
            regs.append((n, c, {ch[0] for ch in entry}))
    rep.check(bool(regs), rule2, "every reader is registered for the fluents it reads", f.loc(regs[0][1]) if regs else f.loc(), construct=norm(regs[0][1]) if regs else "no `<registry>.setdefault(f, []).append(<instance>)`", function=f.qualname)
    reg_names = set().union(*[r[2] for r in regs]) if regs else set()
    edges = [(n, c) for n, c in cfg_nodes_with_call(cfg, "add_edge") if len(c.args) == 2]
    txt = [tuple(norm(a) for a in c.args) for _, c in edges]
    after_lm = [c for n, c in edges if is_inst(c.args[1], n) and any(ch[0] in lm_names for ch in du.expanded_chains(c.args[0], n))]
    rep.check(bool(after_lm), rule2, "a reader is ordered after the last modifier of the fluent (earlier -> later)", f.loc(after_lm[0]) if after_lm else f.loc(), construct=str(txt), detail="" if after_lm else "read-after-write pairs are not ordered (or the edge is reversed)", function=f.qualname)
    after_readers = [c for n, c in edges if is_inst(c.args[1], n) and any(ch[0] in reg_names for ch in du.expanded_chains(c.args[0], n))]
    rep.check(bool(after_readers), rule2, "a writer is ordered after every earlier instance that read or wrote the fluent", f.loc(after_readers[0]) if after_readers else f.loc(), construct=str(txt), detail="" if after_readers else "write-after-read / write-after-write pairs are not ordered", function=f.qualname)
    rev = [c for n, c in edges if is_inst(c.args[0], n)]
    rep.check(not rev, rule2, "no edge leaves the instance being processed (edges point from earlier to later instances)", f.loc(rev[0]) if rev else f.loc(), construct=str(txt), detail="" if not rev else "an ordering edge points from the later instance to an earlier one", function=f.qualname)
    # simulated effects are outside the property's grammar
