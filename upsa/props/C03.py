"""C03 — sequential plan validation decides validity and metric values exactly (structural clauses).

Decides: (1) definite assignment in SequentialPlanValidator._validate (incl. the empty plan),
(2) documented exceptions of the simulator calls are handled and turned into INVALID results,
(3) every quality-metric feature the validator declares supported has a branch in evaluate_quality_metric,
(4) action costs are accumulated over pre-states (evaluation precedes trace.append).
Does not decide: that VALID <=> executable-and-goal-reaching, nor the numeric metric value.
"""
from __future__ import annotations

import ast
from typing import Dict, List, Set

from ..index import AnalysisError, Index, call_name, norm, walk_no_nested
from ..kinddsl import TOP, KindInterp, KindTables
from ..report import Report
from ..dataflow import feasible_path
from ..rules import (
    cfg_nodes_with_call,
    cfg_of,
    definite_assignment,
    docstring_raises,
    enclosing_trys,
    exception_caught_by,
    handler_type_names,
    path_text,
)

VALIDATOR = "engines.plan_validator.SequentialPlanValidator"
SIM = "engines.sequential_simulator.UPSequentialSimulator"


def metric_feature_table(idx: Index) -> Dict[str, Set[str]]:
    """feature -> {is_* predicates} read off _KindFactory.update_problem_kind_metric."""
    f = idx.func("model.problem._KindFactory.update_problem_kind_metric")
    table: Dict[str, Set[str]] = {}

    def preds(test: ast.AST) -> Set[str]:
        return {c.func.attr for c in ast.walk(test) if isinstance(c, ast.Call) and isinstance(c.func, ast.Attribute) and c.func.attr.startswith("is_")}

    def visit_if(node: ast.If) -> None:
        ps = preds(node.test)
        for s in node.body:
            for c in walk_no_nested(s):
                if isinstance(c, ast.Call) and call_name(c) == "set_quality_metrics" and c.args and isinstance(c.args[0], ast.Constant):
                    table.setdefault(c.args[0].value, set()).update(ps)
        for s in node.orelse:
            if isinstance(s, ast.If):
                visit_if(s)

    for n in walk_no_nested(f.node):
        if isinstance(n, ast.If) and preds(n.test):
            visit_if(n)
    return table


def run(idx: Index, rep: Report, tier: str) -> None:
    rep.explanation = __doc__.strip()
    val = idx.func(VALIDATOR + "._validate")
    cfg = cfg_of(val)

    # ---- (1) T5 definite assignment
    definite_assignment(rep, "C03.1 T5 definite-assignment", val)

    # ---- (2) documented raises are handled -> invalid_result
    sim_cls = idx.cls(SIM)
    rule2 = "C03.2 T2 documented-raises-handled"
    n_calls = 0
    for meth in ("apply_unsafe", "get_unsatisfied_conditions", "get_unsatisfied_goals"):
        target = sim_cls.lookup(meth)
        if target is None:
            raise AnalysisError(f"anchor vanished: {SIM}.{meth}")
        rep.note_function(target.qualname)
        raised = docstring_raises(target)
        # exceptions raised explicitly in the body count as documented too
        for r in walk_no_nested(target.node):
            if isinstance(r, ast.Raise) and r.exc is not None:
                nm = norm(r.exc.func if isinstance(r.exc, ast.Call) else r.exc).split(".")[-1]
                if nm.startswith("UP") and nm not in raised and nm != "UPUnreachableCodeError":
                    raised.append(nm)
        for node, call in cfg_nodes_with_call(cfg, meth):
            n_calls += 1
            trys = enclosing_trys(val.node, call)
            handlers = [h for t in trys for h in t.handlers]
            names = [n for h in handlers for n in handler_type_names(h)]
            for exc in raised:
                if exc == "UPUsageError" and meth != "apply_unsafe":
                    continue
                ok = exception_caught_by(idx, exc, names)
                rep.check(
                    ok,
                    rule2,
                    f"_validate: call {meth}() vs :raises {exc}",
                    val.loc(call),
                    construct=f"{meth}(...) raises {exc}; enclosing handlers: {sorted(set(names))}",
                    detail="" if ok else f"{exc} is documented/raised by {meth} but no enclosing handler in _validate catches it: validation would raise instead of returning INVALID",
                    function=val.qualname,
                )
    rep.count("simulator_call_sites", n_calls)
    # each handler leads to `return invalid_result(...)`
    ret_invalid = [n for n in cfg.nodes if n.kind == "return" and isinstance(n.ast.value, ast.Call) and call_name(n.ast.value) == "invalid_result"]
    if not ret_invalid:
        raise AnalysisError("anchor vanished: no `return invalid_result(...)` in _validate")
    for h in [n for n in cfg.nodes if n.kind == "handler"]:
        p = feasible_path(cfg, h, cfg.exit, avoid=set(ret_invalid))
        rep.check(
            p is None,
            "C03.2 T2 handler-yields-INVALID",
            f"_validate: except {','.join(handler_type_names(h.ast))}",
            val.loc(h.ast),
            construct=f"except {','.join(handler_type_names(h.ast))}",
            detail="" if p is None else "a path from this handler reaches a normal return that is not invalid_result(...)",
            function=val.qualname,
            path=path_text(p) if p else None,
        )
    rep.count("handlers", len([n for n in cfg.nodes if n.kind == "handler"]))

    # ---- (3) T7 metric coverage
    tables = KindTables(idx)
    ki = KindInterp(idx, tables)
    sk = ki.eval_supported(idx.cls(VALIDATOR))
    eqm = idx.func("engines.sequential_simulator.evaluate_quality_metric")
    rep.note_function(eqm.qualname)
    rule3 = "C03.3 T7 metric-coverage"
    if sk is TOP or not isinstance(sk, set):
        rep.inconclusive(rule3, "SequentialPlanValidator.supported_kind()", val.loc(), detail="not evaluable in the kind-DSL")
    else:
        ftab = metric_feature_table(idx)
        branch_preds = {c.func.attr for c in walk_no_nested(eqm.node) if isinstance(c, ast.Call) and isinstance(c.func, ast.Attribute) and c.func.attr.startswith("is_")}
        # the final else must raise (an unsupported metric must not be silently valued)
        for feat in tables.features["QUALITY_METRICS"]:
            if feat not in sk:
                continue
            want = ftab.get(feat)
            if not want:
                rep.inconclusive(rule3, f"metric feature {feat}", eqm.loc(), detail="no is_* predicate associated with this feature in update_problem_kind_metric")
                continue
            missing = sorted(want - branch_preds)
            rep.check(
                not missing,
                rule3,
                f"metric feature {feat}",
                eqm.loc(),
                construct=f"evaluate_quality_metric has no branch for {missing}" if missing else f"branches {sorted(want)}",
                detail="" if not missing else f"{feat} is in SequentialPlanValidator.supported_kind() but evaluate_quality_metric falls into `raise NotImplementedError` for it: validation raises instead of reporting a metric value",
                function=eqm.qualname,
            )
            rep.count("metric_features")
        rep.require_min(rule3, "metric_features", 3)

    # ---- (4) T2 ordering: cost accumulated over the pre-state
    rule4 = "C03.4 T2 cost-over-pre-state"
    loops = [n for n in cfg.nodes if n.kind == "for" and "plan.actions" in norm(n.owner.iter)]
    if not loops:
        raise AnalysisError("anchor vanished: loop over plan.actions in _validate")
    head = loops[0]
    body_asts = {id(x) for s in head.owner.body for x in ast.walk(s)}
    body_nodes = {n for n in cfg.nodes if n.ast is not None and id(n.ast) in body_asts}
    n4 = 0
    for node, call in cfg_nodes_with_call(cfg, "evaluate_quality_metric"):
        in_loop = id(call) in body_asts
        if not in_loop:
            continue
        n4 += 1
        args = call.args
        pre = norm(args[3]) if len(args) > 3 else "?"
        # the trace: the list whose last element is the state argument (recognised by use, not by name)
        trace = norm(args[3].value) if len(args) > 3 and isinstance(args[3], ast.Subscript) and norm(args[3].slice) == "-1" and isinstance(args[3].value, ast.Name) else None
        rep.check(trace is not None, rule4, "_validate: state argument of the in-loop metric evaluation", val.loc(call), construct=f"state argument = {pre}", detail="" if trace is not None else "the cost must be evaluated in the state before the action (the last element of the trace, before the append)", function=val.qualname)
        appends = [n for n, c in cfg_nodes_with_call(cfg, "append") if trace is not None and norm(c.func.value) == trace and n in body_nodes]
        for ap in appends:
            p = cfg.path_avoiding(ap, node, {head})
            rep.check(
                p is None,
                rule4,
                "_validate: trace.append precedes metric evaluation?",
                val.loc(ap.ast),
                construct=norm(ap.ast),
                detail="" if p is None else "trace.append(next_state) can execute before the cost evaluation of the same step: trace[-1] is then the post-state",
                function=val.qualname,
                path=path_text(p) if p else None,
            )
        # next_state argument comes from apply_unsafe on trace[-1]
        if len(args) > 6:
            nxt = norm(args[6])
            # the successor: a name bound to the result of applying the step's action to the last state of the trace
            succ = {norm(a.targets[0]) for a in walk_no_nested(val.node) if isinstance(a, ast.Assign) and isinstance(a.value, ast.Call) and call_name(a.value) in ("apply_unsafe", "apply") and a.value.args and norm(a.value.args[0]) == pre}
            rep.check(nxt in succ, rule4, "_validate: next-state argument", val.loc(call), construct=f"next_state argument = {nxt}", function=val.qualname)
    if n4 == 0:
        raise AnalysisError("anchor vanished: in-loop evaluate_quality_metric call in _validate")
    rep.count("in_loop_metric_calls", n4)
