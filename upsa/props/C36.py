"""C36 — planning states behave like finite maps under any update history (structural clauses).

Decides: (1) T11: get_value and make_child perform no store through self (reading a state or deriving a child
never changes the state); the only method that rewrites a state's own representation is _condense_state, which is
reached only from __hash__ / __repr__ / __eq__; (2) T2: get_value looks up its own values, then the chain of
fathers, then the fluent's default, then raises UPStateMissingFluentError; (3) make_child passes the updates on
top of the parent's values (updates win: they seed the merged map before the ancestors' values are added with
setdefault, or the parent becomes the father); the ancestor limit branch merges the whole chain;
(4) T9: __eq__ compares _values only after both operands were condensed (through hash), and __hash__ reads the
same field; condensation keeps the most recent value per fluent (setdefault from the youngest state upwards) and
drops default-valued entries only together with the father link.
Does not decide: map semantics under concrete histories.
"""
from __future__ import annotations

import ast
from typing import Dict

from ..index import AnalysisError, Index, call_name, norm, walk_no_nested
from ..report import Report
from ..rules import attr_mutations, cfg_of, guards_dominating, self_attr_stores

ST = "model.state.UPState"


def state_roles(m) -> Dict[str, str]:
    """Locals of a UPState method by role: the cursor that walks the chain (starts at self, moves to ._father), the map
    the chain is merged into (receives setdefault), and the (key, value) pair of a loop over a `….items()`."""
    roles: Dict[str, str] = {}
    fn = m.node
    for a in walk_no_nested(fn):
        tg = a.targets[0] if isinstance(a, ast.Assign) else (a.target if isinstance(a, ast.AnnAssign) else None)
        if isinstance(tg, ast.Name) and getattr(a, "value", None) is not None:
            if norm(a.value) == "self":
                roles.setdefault(tg.id, "current_instance")
            elif isinstance(a.value, ast.Attribute) and a.value.attr == "_father" and norm(a.value.value) == tg.id:
                roles.setdefault(tg.id, "current_instance")
    for c in walk_no_nested(fn):
        if isinstance(c, ast.Call) and call_name(c) == "setdefault" and isinstance(c.func.value, ast.Name) and c.func.value.id not in fn.args.args[0].arg and c.func.value.id not in {a.arg for a in fn.args.args}:
            roles.setdefault(c.func.value.id, "condensed_values")
    for l in walk_no_nested(fn):
        if isinstance(l, ast.For) and isinstance(l.target, ast.Tuple) and len(l.target.elts) == 2 and all(isinstance(x, ast.Name) for x in l.target.elts) and isinstance(l.iter, ast.Call) and call_name(l.iter) == "items":
            names = ("fluent", "value") if m.name == "__init__" else ("k", "v")
            for x, r in zip(l.target.elts, names):
                roles.setdefault(x.id, r)
    return roles


def run(idx: Index, rep: Report, tier: str) -> None:
    rep.explanation = __doc__.strip()
    cls = idx.cls(ST)
    from ..roles import with_roles

    M = {name: with_roles(m, state_roles(m)) for name, m in cls.methods.items()}
    rule1 = "C36.1 T11 reads-do-not-write"
    for name in ("get_value", "make_child", "_is_nondefault"):
        m = M.get(name)
        if m is None:
            raise AnalysisError(f"anchor vanished: UPState.{name}")
        rep.note_function(m.qualname)
        w = set(self_attr_stores(m.node)) | set(attr_mutations(m.node))
        rep.check(not w, rule1, f"{name} performs no store through self", m.loc(), construct=", ".join(sorted(w)), detail="" if not w else f"{name} modifies the state it is called on", function=m.qualname)
        # no store through the walking cursor either
        cur = set(self_attr_stores(m.node, "current_instance")) | set(attr_mutations(m.node, "current_instance"))
        rep.check(not cur, rule1, f"{name} performs no store through an ancestor", m.loc(), construct=", ".join(sorted(cur)), function=m.qualname)
    callers = [m.name for m in cls.methods.values() if any(isinstance(c, ast.Call) and call_name(c) == "_condense_state" for c in walk_no_nested(m.node))]
    ok = set(callers) <= {"__hash__", "__repr__", "__eq__", "__str__"}
    rep.check(ok, rule1, "_condense_state is reached only from __hash__/__repr__/__eq__", cls.loc(), construct=", ".join(sorted(callers)), detail="" if ok else "a read or update path rewrites the state's representation", function=cls.qualname)

    rule2 = "C36.2 T2 lookup-order"
    from ..rules2 import path_facts

    gv = M["get_value"]
    cfg = cfg_of(gv)
    whiles = [w for w in walk_no_nested(gv.node) if isinstance(w, ast.While)]
    chain_ok = False
    walker = None
    for w in whiles:
        names = [x.id for x in ast.walk(w.test) if isinstance(x, ast.Name)]
        for x in names:
            steps = any(isinstance(a, ast.Assign) and norm(a.targets[0]) == x and norm(a.value) == f"{x}._father" for a in ast.walk(w))
            reads = any(isinstance(c, ast.Call) and call_name(c) == "get" and norm(c.func.value) == f"{x}._values" for c in ast.walk(w)) or any(isinstance(sb, ast.Subscript) and norm(sb.value) == f"{x}._values" for sb in ast.walk(w))
            returns = any(isinstance(r, ast.Return) for r in ast.walk(w))
            starts = any(isinstance(a, ast.Assign) and norm(a.targets[0]) == x and norm(a.value) == "self" and a.lineno < w.lineno for a in walk_no_nested(gv.node))
            if steps and reads and returns and starts:
                chain_ok, walker = True, w
    rep.check(chain_ok, rule2, "the chain is walked from the state itself towards the root, returning the first hit", gv.loc(walker) if walker is not None else gv.loc(), construct=norm(walker.test) if walker is not None else "no walk over ._father", detail="" if chain_ok else "the most recent update is not the one returned", function=gv.qualname)
    defaults = [a for a in walk_no_nested(gv.node) if isinstance(a, ast.Assign) and "fluents_defaults" in norm(a.value)]
    raises = [n for n in cfg.nodes if n.kind == "raise" and n.ast is not None and "UPStateMissingFluentError" in norm(n.ast)]
    order_ok = chain_ok and bool(defaults) and bool(raises) and all(d.lineno > walker.lineno for d in defaults) and all(getattr(r.ast, "lineno", 0) > min(d.lineno for d in defaults) for r in raises)
    rep.check(order_ok, rule2, "own values and ancestors, then the default, then UPStateMissingFluentError", gv.loc(), construct="chain -> default -> raise" if order_ok else f"chain: {chain_ok}; default lookups: {len(defaults)}; raises: {len(raises)}", detail="" if order_ok else "the lookup order is not values -> ancestors -> default -> raise", function=gv.qualname)
    for r in raises:
        fs = path_facts(cfg, r)
        ok = any(t.endswith(" is None") and v for t, v in fs)
        rep.check(ok, rule2, "the error is raised only when neither a value nor a default was found", gv.loc(r.ast), construct=norm(r.ast)[:60], function=gv.qualname)
    for n in cfg.nodes:
        if n.kind == "return" and n.ast.value is not None:
            fs = path_facts(cfg, n)
            v = norm(n.ast.value)
            ok = (f"{v} is None", False) in fs or any(t.endswith(" is None") and not val and t[: -len(" is None")] in v for t, val in fs)
            rep.check(ok, rule2, "a value is returned only if it was found", gv.loc(n.ast), construct=norm(n.ast), function=gv.qualname)

    rule3 = "C36.3 make_child-updates-win"
    mc = M["make_child"]
    mcfg = cfg_of(mc)
    rets = [n for n in mcfg.nodes if n.kind == "return"]
    plain = [n for n in rets if isinstance(n.ast.value, ast.Call) and len(n.ast.value.args) == 3 and norm(n.ast.value.args[0]) == "updated_values" and norm(n.ast.value.args[2]) == "self"]
    rep.check(bool(plain), rule3, "below the ancestor limit the child stores the updates with the parent as father", mc.loc(plain[0].ast) if plain else mc.loc(), construct=norm(plain[0].ast) if plain else "", detail="" if plain else "the child does not chain to its parent", function=mc.qualname)
    def _seed_and_fill(fn_node, upd):
        seed_ = [a for a in walk_no_nested(fn_node) if isinstance(a, ast.Assign) and isinstance(a.value, ast.Call) and call_name(a.value) in ("copy", "dict") and upd in norm(a.value)]
        sd_ = [c for c in walk_no_nested(fn_node) if isinstance(c, ast.Call) and call_name(c) == "setdefault" and seed_ and norm(c.func.value) == norm(seed_[0].targets[0])]
        return seed_, sd_

    seed, sd = _seed_and_fill(mc.node, "updated_values")
    if not (seed and sd):
        # the flattening may be a private helper of the state that make_child hands the updates to
        for c in walk_no_nested(mc.node):
            if isinstance(c, ast.Call) and isinstance(c.func, ast.Attribute) and norm(c.func.value) == "self" and c.func.attr.startswith("_") and c.func.attr in M and any(norm(a) == "updated_values" for a in c.args):
                h = M[c.func.attr]
                hp = [p_ for p_ in h.params() if p_ != "self"]
                pos = [norm(a) for a in c.args].index("updated_values")
                if pos < len(hp):
                    s2, d2 = _seed_and_fill(h.node, hp[pos])
                    if s2 and d2:
                        seed, sd = s2, d2
                        break
    ok = bool(seed) and bool(sd)
    rep.check(ok, rule3, "at the ancestor limit the merged map is seeded with the updates and ancestors only fill gaps", mc.loc(seed[0]) if seed else mc.loc(), construct=(norm(seed[0]) + "; " + norm(sd[0])) if ok else "", detail="" if ok else "an ancestor's value can override an update (or the updates are lost) when the chain is flattened", function=mc.qualname)
    muts = [c for c in walk_no_nested(mc.node) if isinstance(c, ast.Call) and isinstance(c.func, ast.Attribute) and c.func.attr in ("setdefault", "update", "pop") and norm(c.func.value) == "updated_values"] + [a for a in walk_no_nested(mc.node) if isinstance(a, ast.Assign) and isinstance(a.targets[0], ast.Subscript) and norm(a.targets[0].value) == "updated_values"]
    rep.check(not muts, rule3, "the caller's update map is not modified", mc.loc(muts[0]) if muts else mc.loc(), construct=norm(muts[0]) if muts else "", function=mc.qualname)
    tests = [t for t in mcfg.nodes if t.kind == "test" and "max_ancestors" in norm(t.ast)]
    ok = bool(tests) and "is None" in norm(tests[0].ast) and ">=" in norm(tests[0].ast)
    rep.check(ok, rule3, "the chain is flattened when there is no limit or the limit is reached", mc.loc(tests[0].ast) if tests else mc.loc(), construct=norm(tests[0].ast) if tests else "", function=mc.qualname)

    rule4 = "C36.4 T9 equality-and-hash"
    eq, hs = M["__eq__"], M["__hash__"]
    rep.note_function(eq.qualname)
    rep.note_function(hs.qualname)
    txt = norm(eq.node)
    ok = "hash(self) == hash(oth)" in txt and "self._values == oth._values" in txt
    if not ok:
        # the same, however it is laid out: wherever the two _values maps are compared, hash(self) and hash(oth) (which
        # condense the operands) have been evaluated before on every path
        ecfg = cfg_of(eq)

        def _has(n, what):
            return n.ast is not None and any(isinstance(c, ast.Call) and norm(c) == what for c in ast.walk(n.ast))

        def _cmp_values(n):
            return n.ast is not None and any(isinstance(c, ast.Compare) and len(c.ops) == 1 and isinstance(c.ops[0], (ast.Eq, ast.NotEq)) and {norm(c.left), norm(c.comparators[0])} == {"self._values", "oth._values"} for c in ast.walk(n.ast))

        cmps = [n for n in ecfg.nodes if _cmp_values(n)]
        ok = bool(cmps)
        for n in cmps:
            for what in ("hash(self)", "hash(oth)"):
                hn = {m for m in ecfg.nodes if _has(m, what)}
                same = n in hn and norm(n.ast).index(what) < min(norm(n.ast).index(x) for x in ("self._values", "oth._values") if x in norm(n.ast))
                ok = ok and bool(hn) and (same or ecfg.path_avoiding(ecfg.entry, n, hn - {n}) is None and n not in hn or same)
    rep.check(ok, rule4, "__eq__ compares _values after both operands were condensed through hash()", eq.loc(), construct="hash(self) == hash(oth) and self._values == oth._values", detail="" if ok else "two states with the same valuation but different update histories compare unequal", function=eq.qualname)
    hcfg = cfg_of(hs)
    cond = [s for s in hs.node.body if isinstance(s, ast.Expr) and isinstance(s.value, ast.Call) and call_name(s.value) == "_condense_state"]
    ok = bool(cond) and hs.node.body.index(cond[0]) == (1 if isinstance(hs.node.body[0], ast.Expr) and isinstance(hs.node.body[0].value, ast.Constant) else 0)
    rep.check(ok, rule4, "__hash__ condenses before anything else", hs.loc(), construct="self._condense_state()", detail="" if ok else "the hash depends on how the valuation was reached", function=hs.qualname)
    ok = "self._values.items()" in norm(hs.node)
    rep.check(ok, rule4, "__hash__ reads the field __eq__ compares", hs.loc(), construct="self._values.items()", function=hs.qualname)
    cs = M["_condense_state"]
    rep.note_function(cs.qualname)
    t = norm(cs.node)
    ok = "condensed_values.setdefault(k, v)" in t and "current_instance = current_instance._father" in t and "_is_nondefault" in t
    rep.check(ok, rule4, "condensation keeps the youngest value per fluent and drops only default-valued entries", cs.loc(), construct="setdefault from self upwards; filter _is_nondefault", detail="" if ok else "condensation changes the valuation", function=cs.qualname)
    ok = "self._father = None" in t and "self._ancestors = 0" in t
    rep.check(ok, rule4, "after condensation the state has no father", cs.loc(), construct="self._father = None; self._ancestors = 0", function=cs.qualname)
    init = M["__init__"]
    it = norm(init.node)
    ok = "_father is not None or self._is_nondefault(fluent, value)" in it
    rep.check(ok, rule4, "a root state stores only non-default values; a child stores every update (a default-valued update must shadow the ancestor)", init.loc(), construct="if _father is not None or self._is_nondefault(fluent, value)", detail="" if ok else "an update that sets a fluent back to its default is dropped and the ancestor's older value shows through", function=init.qualname)
