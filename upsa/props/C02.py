"""C02 — simulator applicability queries agree with apply (structural clauses).

Decides: (1) the definitional clauses (_is_goal is emptiness of get_unsatisfied_goals; _is_applicable is
`reason is None` of the full check; _get_applicable_actions filters the un-pruned grounding through
_is_applicable); (2) T17 sibling coverage: every effect that apply_unsafe evaluates for a fluent that can
matter to a state invariant is evaluated exactly once by the full-check query path, decided by an abstract
simulation of the query path's guarded loops over all ordered pairs of effect classes on one target;
(3) T4: per-call evaluator fields are restored when evaluation raises (the simulator turns
UPStateMissingFluentError into an ordinary False, so the evaluator must stay usable);
(4) queries never store through the state argument.
Does not decide: equality of verdicts in general.
"""
from __future__ import annotations

import ast
import itertools
from typing import Dict, List, Optional, Set, Tuple

from ..index import AnalysisError, Index, call_name, norm, walk_no_nested
from ..report import Report
from ..rules import MUTATORS, cfg_nodes_with_call, cfg_of, exception_safe_restore, guards_dominating

SIM = "engines.sequential_simulator.UPSequentialSimulator"


# --------------------------------------------------------------------------- T17 extraction
class Site:
    def __init__(self) -> None:
        self.cond: Set[str] = {"C", "U"}  # conditional / unconditional effects reaching the site
        self.typ: Set[str] = {"B", "N"}  # Boolean / non-Boolean target
        self.inv_only = False  # guarded by membership in the invariant fluent sets
        self.occ: Set[str] = {"first", "repeated"}  # target absent / present in updated_values
        self.unknown: List[str] = []
        self.line = 0
        self.stores = True  # result stored into updated_values

    def admits(self, cond: str, typ: str, in_updated: bool) -> Optional[bool]:
        if cond not in self.cond or typ not in self.typ:
            return False
        if ("repeated" if in_updated else "first") not in self.occ:
            return False
        if self.unknown:
            return None
        return True

    def describe(self) -> str:
        return f"L{self.line}: cond={sorted(self.cond)} type={sorted(self.typ)} occ={sorted(self.occ)} inv_only={self.inv_only} unknown={self.unknown}"


def updated_maps(fn: ast.AST) -> Set[str]:
    """The local names that play the role of the pending-updates map: what is handed to make_child(…) and what is
    handed to _evaluate_effect next to the effect (recognised by use, not by spelling)."""
    out: Set[str] = set()
    for c in walk_no_nested(fn):
        if isinstance(c, ast.Call) and call_name(c) == "make_child" and c.args and isinstance(c.args[0], ast.Name):
            out.add(c.args[0].id)
        if isinstance(c, ast.Call) and call_name(c) == "_evaluate_effect":
            for a in list(c.args) + [k.value for k in c.keywords]:
                if isinstance(a, ast.Name) and any(isinstance(s, (ast.Assign, ast.AnnAssign)) and norm(s.targets[0] if isinstance(s, ast.Assign) else s.target) == a.id and isinstance(s.value, (ast.Dict, ast.Call)) and norm(s.value) in ("{}", "dict()") for s in walk_no_nested(fn)):
                    out.add(a.id)
    return out


def mode_flags(fn: ast.AST) -> Set[str]:
    """names whose truth is a run-time mode, not a class of effects: Boolean parameters and the result of evaluating
    the effect's own condition (`x = ….is_true()` / `x = self._se.evaluate(…)…`)."""
    out: Set[str] = set()
    a = fn.args
    for arg, default in zip(reversed(list(a.args) + list(a.kwonlyargs)), reversed(list(a.defaults) + list(a.kw_defaults))):
        if isinstance(default, ast.Constant) and isinstance(default.value, bool):
            out.add(arg.arg)
    for arg in list(a.args) + list(a.kwonlyargs):
        if arg.annotation is not None and norm(arg.annotation).strip("\"'") == "bool":
            out.add(arg.arg)
    for s in walk_no_nested(fn):
        if isinstance(s, ast.Assign) and len(s.targets) == 1 and isinstance(s.targets[0], ast.Name) and any(isinstance(c, ast.Call) and call_name(c) in ("evaluate", "is_true", "bool_constant_value") for c in ast.walk(s.value)):
            out.add(s.targets[0].id)
    return out


def extract_sites(f, cfg) -> List[Site]:
    sites: List[Site] = []
    uv = updated_maps(f.node)
    flags = mode_flags(f.node)
    for node, call in sorted(cfg_nodes_with_call(cfg, "_evaluate_effect"), key=lambda x: x[0].lineno):
        s = Site()
        s.line = call.lineno
        # enclosing for loops: which effect list
        for fn in cfg.nodes:
            if fn.kind == "for" and any(x is call for st in fn.owner.body for x in ast.walk(st)):
                it = norm(fn.owner.iter)
                if it.endswith(".conditional_effects"):
                    s.cond &= {"C"}
                elif it.endswith(".unconditional_effects"):
                    s.cond &= {"U"}
        local_defs: Dict[str, str] = {}
        for st in walk_no_nested(f.node):
            if isinstance(st, ast.Assign) and len(st.targets) == 1 and isinstance(st.targets[0], ast.Name):
                local_defs[st.targets[0].id] = norm(st.value)
        for t, outcome in guards_dominating(cfg, node):
            txt = norm(t.ast)
            _apply_guard(s, t.ast, outcome, local_defs, uv, flags)
        sites.append(s)
    return sites


def _apply_guard(s: Site, test: ast.AST, outcome: bool, local_defs: Dict[str, str], uv: Set[str], flags: Set[str]) -> None:
    if isinstance(test, ast.UnaryOp) and isinstance(test.op, ast.Not):
        return _apply_guard(s, test.operand, not outcome, local_defs, uv, flags)
    if isinstance(test, ast.BoolOp):
        if (isinstance(test.op, ast.And) and outcome) or (isinstance(test.op, ast.Or) and not outcome):
            for v in test.values:
                _apply_guard(s, v, outcome, local_defs, uv, flags)
            return
        s.unknown.append(norm(test))
        return
    txt = norm(test)
    if isinstance(test, ast.Call) and call_name(test) == "is_bool_type":
        s.typ &= {"B"} if outcome else {"N"}
        return
    if isinstance(test, ast.Compare) and len(test.ops) == 1:
        op = test.ops[0]
        right = norm(test.comparators[0])
        left = norm(test.left)
        if isinstance(op, (ast.In, ast.NotIn)) and "state_invariants" in right:
            if isinstance(op, ast.In) == outcome:
                s.inv_only = True
            else:
                s.unknown.append(txt)
            return
        if isinstance(op, (ast.In, ast.NotIn)) and right in uv:
            present = isinstance(op, ast.In) == outcome
            s.occ &= {"repeated"} if present else {"first"}
            return
        if isinstance(op, (ast.Is, ast.IsNot)) and right == "None" and left in local_defs and any(local_defs[left].startswith(u + ".get(") for u in uv):
            present = isinstance(op, ast.IsNot) == outcome
            s.occ &= {"repeated"} if present else {"first"}
            return
        if isinstance(op, (ast.Is, ast.IsNot)) and right == "None":
            return  # g_action is None, sim_eff is not None ...: not about the effect class
    if txt in flags:
        return  # the run-time truth of the effect's own condition / the mode flag
    if txt in uv:
        return  # "some earlier entry exists": implied by occ=repeated
    if isinstance(test, ast.Call) and call_name(test) == "isinstance":
        return
    s.unknown.append(txt)


def simulate_pairs(sites: List[Site]) -> List[Tuple[Tuple[str, str], ...]]:
    """All scenarios of one or two effects (class = conditional? x Boolean target?) on one ground fluent that
    occurs in a state invariant. apply_unsafe evaluates every effect once; returns the scenarios in which
    the query path provably evaluates some effect zero times or twice."""
    bad = []
    classes = [(c, t) for c in "CU" for t in "BN"]
    scenarios = [(a,) for a in classes] + [p for p in itertools.product(classes, classes) if p[0][1] == p[1][1]]
    for sc in scenarios:
        evaluated = [0] * len(sc)
        maybe = [False] * len(sc)
        in_updated = False
        for s in sites:
            for i, (c, t) in enumerate(sc):
                adm = s.admits(c, t, in_updated)
                if adm is None:
                    maybe[i] = True
                elif adm:
                    evaluated[i] += 1
                    if s.stores:
                        in_updated = True
        for i in range(len(sc)):
            if maybe[i]:
                continue
            if evaluated[i] != 1:
                bad.append((sc, i, evaluated[i]))
    return bad


def run(idx: Index, rep: Report, tier: str) -> None:
    rep.explanation = __doc__.strip()
    # ---------------------------------------------------------------- (1) definitional clauses
    rule1 = "C02.1 definitional"
    ig = idx.func(SIM + "._is_goal")
    rep.note_function(ig.qualname)
    rets = [n for n in walk_no_nested(ig.node) if isinstance(n, ast.Return) and n.value is not None and not (isinstance(n.value, ast.Constant))]
    ok = bool(rets) and all(
        isinstance(r.value, ast.Compare) and isinstance(r.value.ops[0], ast.Eq) and norm(r.value.comparators[0]) == "0" and isinstance(r.value.left, ast.Call) and call_name(r.value.left) == "len" and isinstance(r.value.left.args[0], ast.Call) and call_name(r.value.left.args[0]) == "get_unsatisfied_goals"
        or (isinstance(r.value, ast.UnaryOp) and isinstance(r.value.op, ast.Not) and isinstance(r.value.operand, ast.Call) and call_name(r.value.operand) == "get_unsatisfied_goals")
        for r in rets
    )
    rep.check(ok, rule1, "_is_goal == (get_unsatisfied_goals(state) is empty)", ig.loc(rets[0]) if rets else ig.loc(), construct=norm(rets[0]) if rets else "", detail="" if ok else "_is_goal is not defined as emptiness of get_unsatisfied_goals on the same state", function=ig.qualname)
    for r in rets:
        for c in ast.walk(r):
            if isinstance(c, ast.Call) and call_name(c) == "get_unsatisfied_goals":
                rep.check(bool(c.args) and norm(c.args[0]) == "state", rule1, "_is_goal passes its own state", ig.loc(c), construct=norm(c), function=ig.qualname)

    ia = idx.func(SIM + "._is_applicable")
    rep.note_function(ia.qualname)
    calls = [c for c in walk_no_nested(ia.node) if isinstance(c, ast.Call) and call_name(c) == "get_unsatisfied_conditions"]
    if not calls:
        raise AnalysisError("anchor vanished: _is_applicable no longer calls get_unsatisfied_conditions")
    for c in calls:
        kw = {k.arg: norm(k.value) for k in c.keywords}
        ok = kw.get("full_check") == "True" and len(c.args) >= 3 and [norm(a) for a in c.args[:3]] == ["state", "action", "parameters"]
        rep.check(ok, rule1, "_is_applicable runs the full check on its own arguments", ia.loc(c), construct=norm(c), detail="" if ok else "is_applicable does not run the full (effects + invariants) check", function=ia.qualname)
    # the verdict: what is returned; the reason: what the call's second result is bound to
    verdicts = {norm(r.value) for r in walk_no_nested(ia.node) if isinstance(r, ast.Return) and isinstance(r.value, ast.Name)}
    reasons = {norm(a.targets[0].elts[1]) for a in walk_no_nested(ia.node) if isinstance(a, ast.Assign) and isinstance(a.targets[0], ast.Tuple) and len(a.targets[0].elts) == 2 and isinstance(a.value, ast.Call) and call_name(a.value) == "get_unsatisfied_conditions"}
    assigns = [n for n in walk_no_nested(ia.node) if isinstance(n, ast.Assign) and norm(n.targets[0]) in verdicts and not isinstance(n.value, ast.Constant)]
    direct = [r for r in walk_no_nested(ia.node) if isinstance(r, ast.Return) and r.value is not None and not isinstance(r.value, (ast.Name, ast.Constant))]
    ok = (bool(assigns) or bool(direct)) and all(isinstance(v, ast.Compare) and len(v.ops) == 1 and isinstance(v.ops[0], ast.Is) and norm(v.left) in reasons and norm(v.comparators[0]) == "None" for v in [a.value for a in assigns] + [r.value for r in direct])
    rep.check(ok, rule1, "_is_applicable == (reason is None)", ia.loc(assigns[0]) if assigns else ia.loc(), construct=norm(assigns[0]) if assigns else "", detail="" if ok else "the verdict is not `reason is None`", function=ia.qualname)

    ap = idx.func(SIM + "._apply")
    rep.note_function(ap.qualname)
    acfg = cfg_of(ap)
    au_calls = cfg_nodes_with_call(acfg, "apply_unsafe")
    ok = bool(au_calls) and all([norm(a) for a in c.args[:3]] == ["state", "action", "parameters"] for _, c in au_calls)
    rep.check(ok, rule1, "_apply delegates to apply_unsafe on its own arguments", ap.loc(au_calls[0][1]) if au_calls else ap.loc(), construct=norm(au_calls[0][1]) if au_calls else "", function=ap.qualname)

    ga = idx.func(SIM + "._get_applicable_actions")
    rep.note_function(ga.qualname)
    src = [c for c in walk_no_nested(ga.node) if isinstance(c, ast.Call) and call_name(c) == "get_grounded_actions"]
    flt = [c for c in walk_no_nested(ga.node) if isinstance(c, ast.Call) and call_name(c) == "_is_applicable"]
    ok = bool(src) and bool(flt) and all(norm(c.args[0]) == "state" for c in flt) and all(norm(c.func.value) == "self._grounder" for c in src)
    rep.check(ok, rule1, "_get_applicable_actions filters the grounder's actions through _is_applicable", ga.loc(), construct="; ".join(norm(c) for c in src + flt), detail="" if ok else "applicable actions are not the _is_applicable-filtered grounding", function=ga.qualname)
    # yields are dominated by the _is_applicable test
    gcfg = cfg_of(ga)
    for n in gcfg.nodes:
        if n.ast is not None and n.kind == "stmt" and any(isinstance(x, ast.Yield) for x in ast.walk(n.ast)):
            gs = guards_dominating(gcfg, n)
            ok = any("_is_applicable" in norm(t.ast) and outcome for t, outcome in gs)
            rep.check(ok, rule1, "_get_applicable_actions: yield guarded by _is_applicable", ga.loc(n.ast), construct=norm(n.ast), detail="" if ok else "an action is yielded without the applicability test", function=ga.qualname)
    init = idx.func(SIM + ".__init__")
    gh = [c for c in walk_no_nested(init.node) if isinstance(c, ast.Call) and call_name(c) == "GrounderHelper"]
    ok = bool(gh) and all({k.arg: norm(k.value) for k in c.keywords}.get("prune_actions") == "False" for c in gh)
    rep.check(ok, rule1, "simulator grounder built with prune_actions=False", init.loc(gh[0]) if gh else init.loc(), construct=norm(gh[0]) if gh else "", detail="" if ok else "the simulator's grounder prunes actions using the declared initial state", function=init.qualname)

    # ---------------------------------------------------------------- (2) T17 sibling coverage
    rule2 = "C02.2 T17 query-path-evaluates-what-apply-evaluates"
    au = idx.func(SIM + ".apply_unsafe")
    aucfg = cfg_of(au)
    ausites = extract_sites(au, aucfg)
    if not ausites:
        raise AnalysisError("anchor vanished: apply_unsafe no longer calls _evaluate_effect")
    unguarded = all(s.cond == {"C", "U"} and s.typ == {"B", "N"} and s.occ == {"first", "repeated"} and not s.unknown for s in ausites)
    rep.check(unguarded, rule2, "apply_unsafe evaluates every expanded effect (reference path)", au.loc(), construct="; ".join(s.describe() for s in ausites), detail="" if unguarded else "the reference path itself skips effects", function=au.qualname)
    guc = idx.func(SIM + ".get_unsatisfied_conditions")
    rep.note_function(guc.qualname)
    qcfg = cfg_of(guc)
    qsites = extract_sites(guc, qcfg)
    if not qsites:
        raise AnalysisError("anchor vanished: get_unsatisfied_conditions no longer calls _evaluate_effect")
    rep.extra["query_path_sites"] = [s.describe() for s in qsites]
    rep.count("query_sites", len(qsites))
    if unguarded:
        bad = simulate_pairs(qsites)
        badset = {(sc, i): n for sc, i, n in bad}
        classes = [(c, t) for c in "CU" for t in "BN"]
        scenarios = [(a,) for a in classes] + [p for p in itertools.product(classes, classes) if p[0][1] == p[1][1]]
        names = {"C": "conditional", "U": "unconditional", "B": "Boolean", "N": "numeric/object"}
        for sc in scenarios:
            desc = " then ".join(f"{names[c]} effect on a {names[t]} fluent" for c, t in sc)
            fails = [(i, n) for (s_, i), n in badset.items() if s_ == sc]
            if fails:
                i, n = fails[0]
                rep.bad(rule2, f"scenario [{desc}] on one invariant-relevant ground fluent", guc.loc(), construct=f"scenario {'+'.join(c + t for c, t in sc)}: effect #{i + 1} evaluated {n} times on the query path", detail=f"apply_unsafe evaluates effect #{i + 1} exactly once, the full-check path of get_unsatisfied_conditions evaluates it {n} times: is_applicable and apply can disagree", function=guc.qualname)
            else:
                rep.ok(rule2, f"scenario [{desc}] on one invariant-relevant ground fluent", guc.loc(), construct="+".join(c + t for c, t in sc), function=guc.qualname)
    # the query path evaluates invariants on a child of the same pre-state
    mk = [c for _, c in cfg_nodes_with_call(qcfg, "make_child")]
    quv = updated_maps(guc.node)
    ok = bool(mk) and all(norm(c.func.value) == "state" and c.args and norm(c.args[0]) in quv for c in mk) and all(any(isinstance(a, ast.Name) and a.id in quv for a in c.args) for _, c in cfg_nodes_with_call(qcfg, "_evaluate_effect"))
    rep.check(ok, rule2, "query path checks invariants on state.make_child(updated_values)", guc.loc(mk[0]) if mk else guc.loc(), construct=norm(mk[0]) if mk else "", function=guc.qualname)

    # ---------------------------------------------------------------- (3) T4 query purity across failures
    rule3 = "C02.3 T4 evaluator-restored-after-failure"
    exception_safe_restore(rep, rule3, idx.func("model.walkers.state_evaluator.StateEvaluator.evaluate"))
    exception_safe_restore(rep, rule3, idx.func("model.walkers.quantifier_simplifier.QuantifierSimplifier.qsimplify"))

    # ---------------------------------------------------------------- (4) queries do not write the state
    rule4 = "C02.4 T11 queries-do-not-write-state"
    for meth in ("_is_applicable", "_apply", "apply_unsafe", "_evaluate_effect", "_get_applicable_actions", "get_unsatisfied_conditions", "get_unsatisfied_goals", "_is_goal"):
        f = idx.func(f"{SIM}.{meth}")
        rep.note_function(f.qualname)
        writes = []
        for n in walk_no_nested(f.node):
            tg = []
            if isinstance(n, ast.Assign):
                tg = n.targets
            elif isinstance(n, (ast.AugAssign, ast.AnnAssign)):
                tg = [n.target]
            elif isinstance(n, ast.Delete):
                tg = n.targets
            for t in tg:
                base = t
                while isinstance(base, (ast.Attribute, ast.Subscript)):
                    base = base.value
                if isinstance(base, ast.Name) and base.id == "state" and base is not t:
                    writes.append(n)
            if isinstance(n, ast.Call) and isinstance(n.func, ast.Attribute) and n.func.attr in MUTATORS:
                base = n.func.value
                while isinstance(base, (ast.Attribute, ast.Subscript)):
                    base = base.value
                if isinstance(base, ast.Name) and base.id == "state":
                    writes.append(n)
        rep.check(not writes, rule4, f"{meth}: no store through `state`", f.loc(writes[0]) if writes else f.loc(), construct=norm(writes[0]) if writes else "", detail="" if not writes else "a query writes into the state it was given", function=f.qualname)
