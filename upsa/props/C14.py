"""C14 — shared environment walkers are history-independent, even after failures (structural clauses).

Decides: (1) T4 on DagWalker.iter_walk / walk, which all walkers inherit: the work stack pushed before
_process_stack is emptied again when processing raises, and the one-shot memoization of walkers constructed with
invalidate_memoization is also cleared on the exceptional exit; (2) T7 key adequacy: a walker whose results
depend on per-call keyword state that _get_key ignores, or on per-call fields read by its walk_* functions,
is constructed with invalidate_memoization=True; (3) T3 on ExpressionManager.create_node: a node is entered in
the environment's expression table only after type checking succeeded (no raising call between the store and
the return, unless the store is undone); (4) T4 on StateEvaluator.evaluate and QuantifierSimplifier.qsimplify.
Does not decide: equality of results with a fresh environment.
"""
from __future__ import annotations

import ast
from typing import List, Optional, Set

from ..dataflow import feasible_path
from ..index import AnalysisError, ClassInfo, Index, call_name, norm, walk_no_nested
from ..report import Report
from ..rules import cfg_nodes_with_call, cfg_of, exception_safe_restore, path_text, per_call_fields, _has_label


def _is_reset_of(node_ast: ast.AST, field: str) -> bool:
    """self.<field>.clear() | self.<field> = [] / {} | del self.<field>[:]"""
    for n in ast.walk(node_ast):
        if isinstance(n, ast.Call) and isinstance(n.func, ast.Attribute) and n.func.attr == "clear" and norm(n.func.value) == f"self.{field}":
            return True
        if isinstance(n, ast.Assign) and any(norm(t) == f"self.{field}" for t in n.targets) and isinstance(n.value, (ast.List, ast.Dict)) and not getattr(n.value, "elts", getattr(n.value, "keys", [])):
            return True
        if isinstance(n, ast.Delete) and any(isinstance(t, ast.Subscript) and norm(t.value) == f"self.{field}" for t in n.targets):
            return True
    return False


def invalidate_arg(idx: Index, ci: ClassInfo) -> Optional[bool]:
    """Value of invalidate_memoization the class passes up to DagWalker.__init__ (None: not determinable)."""
    seen = set()
    cur: Optional[ClassInfo] = ci
    while cur is not None and cur.qualname not in seen:
        seen.add(cur.qualname)
        init = cur.methods.get("__init__")
        if init is None:
            nxt = [b for b in cur.mro[1:] if "__init__" in b.methods]
            if not nxt:
                return None
            cur = nxt[0]
            continue
        if cur.name == "DagWalker":
            return False  # default
        target = None
        for c in walk_no_nested(init.node):
            if isinstance(c, ast.Call) and isinstance(c.func, ast.Attribute) and c.func.attr == "__init__":
                base = norm(c.func.value).split(".")[-1]
                if base in ("DagWalker", "IdentityDagWalker") or base.endswith("Simplifier") or base == "super()":
                    target = (base, c)
                    break
        if target is None:
            return None
        base, c = target
        args = [a for a in c.args if not (isinstance(a, ast.Name) and a.id == "self")]
        kw = {k.arg: k.value for k in c.keywords}
        pos = {"DagWalker": 0, "IdentityDagWalker": 1}.get(base)
        val = kw.get("invalidate_memoization")
        if val is None and pos is not None and len(args) > pos:
            val = args[pos]
        if pos is not None:
            if val is None:
                return False
            if isinstance(val, ast.Constant):
                return bool(val.value)
            if isinstance(val, ast.Name) and val.id == "invalidate_memoization":
                # forwarded constructor parameter: look at its default
                a = init.node.args
                names = [x.arg for x in a.args]
                if val.id in names:
                    i = names.index(val.id) - (len(names) - len(a.defaults))
                    if 0 <= i < len(a.defaults) and isinstance(a.defaults[i], ast.Constant):
                        return bool(a.defaults[i].value)
            return None
        # delegated to another walker class's __init__
        nxt = [b for b in cur.mro[1:] if b.name == base]
        cur = nxt[0] if nxt else None
    return None


def run(idx: Index, rep: Report, tier: str) -> None:
    rep.explanation = __doc__.strip()
    # ---------------------------------------------------------------- (1) T4 on DagWalker
    rule1 = "C14.1 T4 walker-state-restored-after-failure"
    iw = idx.func("model.walkers.dag.DagWalker.iter_walk")
    cfg = cfg_of(iw, implicit_raise=True)
    rep.note_function(iw.qualname)
    pushes = [n for n, c in cfg_nodes_with_call(cfg, "append") if norm(c.func.value) == "self.stack"]
    if not pushes:
        raise AnalysisError("anchor vanished: self.stack.append in DagWalker.iter_walk")
    resets = {n for n in cfg.nodes if n.ast is not None and n.kind in ("stmt",) and _is_reset_of(n.ast, "stack")}
    # a normal return of _process_stack means the stack is empty again (its body is `while self.stack: pop`)
    ps = idx.func("model.walkers.dag.DagWalker._process_stack")
    ps_body = [s for s in ps.node.body if not (isinstance(s, ast.Expr) and isinstance(s.value, ast.Constant))]
    drains = len(ps_body) == 1 and isinstance(ps_body[0], ast.While) and norm(ps_body[0].test) == "self.stack" and not any(isinstance(x, (ast.Break, ast.Return)) for x in ast.walk(ps_body[0])) and any(isinstance(c, ast.Call) and call_name(c) == "pop" and norm(c.func.value) == "self.stack" for c in ast.walk(ps_body[0]))
    # … or the loop sits in a try whose handler for every exception empties the stack and re-raises: then the method
    # itself raises only with a cleared stack (what iter_walk's own try/except otherwise has to guarantee)
    ps_self_cleaning = False
    if not drains and len(ps_body) == 1 and isinstance(ps_body[0], ast.Try) and not ps_body[0].orelse and len(ps_body[0].body) == 1 and isinstance(ps_body[0].body[0], ast.While):
        w_ = ps_body[0].body[0]
        loop_ok = norm(w_.test) == "self.stack" and not any(isinstance(x, (ast.Break, ast.Return)) for x in ast.walk(w_)) and any(isinstance(c, ast.Call) and call_name(c) == "pop" and norm(c.func.value) == "self.stack" for c in ast.walk(w_))
        hs = ps_body[0].handlers
        catch_all = any(h.type is None or norm(h.type) == "BaseException" for h in hs)
        each_clears = all(any(_is_reset_of(st, "stack") for st in h.body) and any(isinstance(st, ast.Raise) and st.exc is None for st in h.body) for h in hs)
        fin_clears = any(_is_reset_of(st, "stack") for st in ps_body[0].finalbody)
        if loop_ok and ((catch_all and each_clears) or fin_clears):
            drains = ps_self_cleaning = True
    rep.check(drains, rule1, "DagWalker._process_stack returns normally only with an empty stack", ps.loc(), construct="while self.stack: ... self.stack.pop()", function=ps.qualname)
    drain_calls = {n for n, c in cfg_nodes_with_call(cfg, "_process_stack")} if drains else set()
    # a private helper of the walker that wraps _process_stack and empties the stack before letting an exception
    # out behaves, for its caller, like the try/except it contains: it returns normally only with a drained stack and
    # raises only with a cleared one
    dagc = idx.cls("model.walkers.dag.DagWalker")
    safe_helpers = set()
    for hname, h in dagc.methods.items():
        if not hname.startswith("_") or hname in ("_process_stack", "__init__") or not drains:
            continue
        hcfg = cfg_of(h, implicit_raise=True)
        hcalls = {n for n, c in cfg_nodes_with_call(hcfg, "_process_stack")}
        if not hcalls:
            continue
        hres = {n for n in hcfg.nodes if n.ast is not None and n.kind == "stmt" and _is_reset_of(n.ast, "stack")}
        leaks = any(feasible_path(hcfg, c_, hcfg.raise_exit, avoid=hres, correlated=False) is not None for c_ in hcalls)
        if hres and not leaks:
            safe_helpers.add(hname)
            rep.note_function(h.qualname)
    safe_calls = {n for hn in safe_helpers for n, c in cfg_nodes_with_call(cfg, hn)}
    if ps_self_cleaning:
        safe_calls |= {n for n, c in cfg_nodes_with_call(cfg, "_process_stack")}
    drain_calls |= safe_calls

    def after_drain(node, succ, label, binds):
        if node in safe_calls and label == "exc":
            return True  # the helper cleared the stack before raising
        return node in drain_calls and label != "exc"

    for p in pushes:
        w = None
        for succ in cfg.g.successors(p):
            if not _has_label(cfg.g[p][succ].get("label"), "exc"):
                w = w or feasible_path(cfg, succ, cfg.raise_exit, avoid=resets, block_edge=after_drain, correlated=False)
        raiser = None
        if w:
            for a, b in zip(w, w[1:]):
                if _has_label(cfg.g[a][b].get("label"), "exc"):
                    raiser = a
        rep.check(
            w is None,
            rule1,
            "DagWalker.iter_walk: self.stack emptied when processing raises",
            iw.loc(raiser.ast if raiser is not None else p.ast),
            construct=f"self.stack not cleared when `{norm(raiser.ast)[:60] if raiser is not None else '?'}` raises",
            detail="" if w is None else "the entries pushed for the failed walk stay on the stack of the shared walker; the next walk pops and processes them with the new call's arguments (stale keys, KeyError in the type checker)",
            function=iw.qualname,
            path=path_text(w) if w else None,
        )
    wk = idx.func("model.walkers.dag.DagWalker.walk")
    wcfg = cfg_of(wk, implicit_raise=True)
    rep.note_function(wk.qualname)
    calls = [n for n, c in cfg_nodes_with_call(wcfg, "iter_walk")]
    clears = {n for n in wcfg.nodes if n.ast is not None and n.kind == "stmt" and _is_reset_of(n.ast, "memoization")}
    # … or a call of a private helper whose whole body is that conditional reset
    helper_clears = set()
    for hname, h in idx.cls("model.walkers.dag.DagWalker").methods.items():
        if hname.startswith("_") and not hname.startswith("__"):
            hb = [st for st in h.node.body if not (isinstance(st, ast.Expr) and isinstance(st.value, ast.Constant))]
            if hb and all(any(_is_reset_of(x, "memoization") for x in ast.walk(st)) for st in hb):
                for n, c in cfg_nodes_with_call(wcfg, hname):
                    helper_clears.add(n)
    clears |= helper_clears
    if not calls or not clears:
        raise AnalysisError("anchor vanished: iter_walk call / memoization.clear() in DagWalker.walk")

    def block(node, succ, label, binds):
        return node.kind == "test" and norm(node.ast) == "self.invalidate_memoization" and label is False

    for cnode in calls:
        w = feasible_path(wcfg, cnode, wcfg.raise_exit, avoid=clears, block_edge=block, correlated=False)
        rep.check(
            w is None,
            rule1,
            "DagWalker.walk: one-shot memoization cleared when the walk raises",
            wk.loc(cnode.ast),
            construct="self.memoization not cleared when `res = self.iter_walk(expression, **kwargs)` raises",
            detail="" if w is None else "walkers built with invalidate_memoization=True (Substituter, Dnf, quantifier removers) keep the entries of the failed call; their keys ignore the call's arguments, so a later call reuses results computed for other arguments",
            function=wk.qualname,
            path=path_text(w) if w else None,
        )
        # and on the normal path
        w2 = feasible_path(wcfg, cnode, wcfg.exit, avoid=clears, block_edge=block, correlated=False, skip_exc=True)
        rep.check(w2 is None, rule1, "DagWalker.walk: one-shot memoization cleared after a successful walk", wk.loc(cnode.ast), construct="if self.invalidate_memoization: self.memoization.clear()", function=wk.qualname, path=path_text(w2) if w2 else None)

    # ---------------------------------------------------------------- (2) key adequacy
    rule2 = "C14.2 T7 memo-key-adequacy"
    dag = idx.cls("model.walkers.dag.DagWalker")
    n_walkers = 0
    for ci in sorted(idx.subclasses(dag), key=lambda c: c.qualname):
        n_walkers += 1
        needs: List[str] = []
        # (a) walk(..., kw=...) with a _get_key that ignores kwargs
        gk = ci.lookup("_get_key")
        passes_kwargs = any(isinstance(c, ast.Call) and call_name(c) == "walk" and norm(c.func.value) == "self" and c.keywords for m in ci.methods.values() for c in walk_no_nested(m.node))
        if passes_kwargs and gk is not None:
            uses = any(isinstance(n, ast.Name) and n.id == "kwargs" and isinstance(n.ctx, ast.Load) for n in walk_no_nested(gk.node)) and gk.cls is not dag
            if not uses or gk.cls is dag:
                if gk.cls is not dag:
                    needs.append(f"{gk.short} ignores the keyword state passed to walk()")
        # (b) per-call fields read by walk_* functions
        pcf: Set[str] = set()
        for c in ci.mro:
            for m in c.methods.values():
                if any(isinstance(x, ast.Call) and call_name(x) == "walk" and norm(x.func.value) == "self" for x in walk_no_nested(m.node)):
                    pcf |= set(per_call_fields(m).keys())
                    # fields assigned (not reset) right before self.walk, e.g. self._state = state
                    for a in walk_no_nested(m.node):
                        if isinstance(a, ast.Assign) and isinstance(a.targets[0], ast.Attribute) and norm(a.targets[0].value) == "self" and isinstance(a.value, ast.Name) and a.value.id in m.params():
                            pcf.add(a.targets[0].attr)
        if pcf:
            readers = [m for c in ci.mro for m in c.methods.values() if m.name.startswith("walk_") and any(isinstance(n, ast.Attribute) and norm(n.value) == "self" and n.attr in pcf for n in walk_no_nested(m.node))]
            if readers:
                needs.append(f"walk functions ({readers[0].short}, ...) read per-call fields {sorted(pcf)}")
        if not needs:
            rep.ok(rule2, f"{ci.name}: results depend only on the expression (memo key adequate)", ci.loc(), function=ci.qualname)
            continue
        inv = invalidate_arg(idx, ci)
        if inv is None:
            rep.inconclusive(rule2, f"{ci.name}: invalidate_memoization argument not determinable", ci.loc(), detail="; ".join(needs), function=ci.qualname)
        else:
            rep.check(inv, rule2, f"{ci.name}: constructed with invalidate_memoization=True", ci.loc(), construct="; ".join(needs), detail="" if inv else "the memo survives across calls although results depend on per-call state that is not part of the key", function=ci.qualname)
    rep.count("walker_classes", n_walkers)
    rep.require_min(rule2, "walker_classes", 18)

    # ---------------------------------------------------------------- (3) T3 create_node
    rule3 = "C14.3 T3 validate-before-commit"
    cn = idx.func("model.expression.ExpressionManager.create_node")
    ccfg = cfg_of(cn, implicit_raise=True)
    rep.note_function(cn.qualname)
    stores = [n for n in ccfg.nodes if isinstance(n.ast, ast.Assign) and any(isinstance(t, ast.Subscript) and norm(t.value) == "self.expressions" for t in n.ast.targets)]
    if not stores:
        raise AnalysisError("anchor vanished: self.expressions[...] = n in create_node")
    undo = {n for n in ccfg.nodes if n.ast is not None and any((isinstance(x, ast.Delete) and any(isinstance(t, ast.Subscript) and norm(t.value) == "self.expressions" for t in x.targets)) or (isinstance(x, ast.Call) and call_name(x) == "pop" and norm(x.func.value) == "self.expressions") for x in ast.walk(n.ast))}
    for s in stores:
        # a path from the store (after it executed) to an exception leaving the function
        w = None
        for succ in ccfg.g.successors(s):
            if _has_label(ccfg.g[s][succ].get("label"), "exc"):
                continue
            w = w or (feasible_path(ccfg, succ, ccfg.raise_exit, avoid=undo, correlated=False) if succ is not ccfg.raise_exit else [s, succ])
            if w is None and succ is not ccfg.raise_exit:
                # succ itself may raise directly
                for s2 in ccfg.g.successors(succ):
                    pass
        raiser = None
        if w:
            for a, b in zip(w, w[1:]):
                if _has_label(ccfg.g[a][b].get("label"), "exc"):
                    raiser = a
            if raiser is None and w:
                raiser = w[0]
        rep.check(
            w is None,
            rule3,
            "create_node: node stored only after type checking succeeded",
            cn.loc(raiser.ast if raiser is not None and raiser.ast is not None else s.ast),
            construct=f"`{norm(s.ast)}` precedes `{norm(raiser.ast)[:70] if raiser is not None and raiser.ast is not None else '?'}` which may raise",
            detail="" if w is None else "an ill-typed node stays in the expression table after the UPTypeError: building the same expression again returns the stored node without any check",
            function=cn.qualname,
            path=path_text(w) if w else None,
        )

    # ---------------------------------------------------------------- (4) evaluators
    rule4 = "C14.4 T4 evaluator-restored-after-failure"
    exception_safe_restore(rep, rule4, idx.func("model.walkers.state_evaluator.StateEvaluator.evaluate"))
    exception_safe_restore(rep, rule4, idx.func("model.walkers.quantifier_simplifier.QuantifierSimplifier.qsimplify"))
