"""C15 — expression type inference is sound and symmetric (structural clauses).

Decides: (1) T10 exact arithmetic in walkers/type_checker.py (the float("inf") sentinels are the reasoned
exception): interval bounds are never computed by true division of values that can both be ints;
(2) T15 symmetry of the well-formedness predicate TypeChecker.walk_equals, by extracting its decision table
with a three-valued abstract interpreter over the type classes {bool, int, real, time, user} x same and
comparing verdict(a, b) with verdict(b, a); (3) T6: TypeChecker has a handler for every OperatorKind.
Does not decide: soundness of the interval arithmetic.
"""
from __future__ import annotations

import ast
from typing import Any, Dict, List, Set, Tuple

from ..dtable import TOP, AbsInterp, Obj
from ..index import Index, norm
from ..report import Report
from ..rules import exact_arithmetic
from ..walkersdb import WalkerDB

CLASSES = ["bool", "int", "real", "time", "user"]


def _method_eval(recv: Any, meth: str, args: List[Any]) -> Any:
    if isinstance(recv, Obj):
        if meth.startswith("is_") and meth.endswith("_type"):
            return recv.cls == meth[3:-5]
        if meth == "is_compatible" and args and isinstance(args[0], Obj):
            o = args[0]
            if recv.ident == o.ident:
                return True
            if recv.cls != o.cls:
                if {recv.cls, o.cls} == {"int", "real"}:
                    return TOP
                return False
            return TOP
    return TOP


def verdict(outs: Set[Tuple[str, str]]) -> str:
    vs = set()
    for kind, val in outs:
        if kind == "raise":
            vs.add("reject")
        elif val in ("None",):
            vs.add("reject")
        elif val == "TOP":
            vs.add("?")
        else:
            vs.add("accept")
    if vs == {"accept"} or vs == {"reject"}:
        return next(iter(vs))
    return "?"


def equality_table(we) -> Tuple[Dict[Tuple[str, str], str], List[str]]:
    table: Dict[Tuple[str, str], str] = {}
    unknown: List[str] = []
    for a in CLASSES:
        for b in CLASSES:
            ai = AbsInterp(_method_eval)
            x, y = Obj(a, 1), Obj(b, 2)
            outs = ai.run(we.node, {"args": [x, y], "expression": TOP, "self": TOP, "BOOL": "BOOL"})
            table[(a, b)] = verdict(outs)
            unknown += ai.unknown
    return table, unknown


def run(idx: Index, rep: Report, tier: str) -> None:
    rep.explanation = __doc__.strip()
    mod = idx.module("model.walkers.type_checker")
    funcs = [f for f in idx.all_funcs() if f.module is mod]
    n = exact_arithmetic(rep, "C15.1 T10 exact-arithmetic", funcs)
    rep.count("arithmetic_sites", n)
    rep.require_min("C15.1 T10 exact-arithmetic", "arithmetic_sites", 10)

    rule2 = "C15.2 T15 equality-well-formedness-symmetric"
    we = idx.func("model.walkers.type_checker.TypeChecker.walk_equals")
    rep.note_function(we.qualname)
    table, unknown = equality_table(we)
    rep.extra["equality_decision_table"] = {f"{a},{b}": v for (a, b), v in table.items()}
    decided = 0
    for i, a in enumerate(CLASSES):
        for b in CLASSES[i + 1 :]:
            v1, v2 = table[(a, b)], table[(b, a)]
            if "?" in (v1, v2):
                rep.inconclusive(rule2, f"Equals({a}, {b}) vs Equals({b}, {a})", we.loc(), construct=f"{v1} / {v2}", function=we.qualname)
                continue
            decided += 1
            rep.check(v1 == v2, rule2, f"Equals({a}, {b}) accepted iff Equals({b}, {a}) accepted", we.loc(), construct=f"Equals({a}, {b}) -> {v1}; Equals({b}, {a}) -> {v2}", detail="" if v1 == v2 else f"walk_equals only inspects the second operand relative to the class of the first: an equality between a {a} term and a {b} term is {v1}ed one way round and {v2}ed the other", function=we.qualname)
    rep.count("decided_pairs", decided)
    # the guard against a vacuous rule counts the pairs enumerated; a pair the abstract interpreter cannot decide
    # (code outside its fragment) is recorded above as inconclusive, which is not a lost anchor
    rep.count("equality_pairs_enumerated", len(CLASSES) * (len(CLASSES) - 1) // 2)
    rep.require_min(rule2, "equality_pairs_enumerated", 6)

    rule3 = "C15.3 T6 operator-exhaustiveness"
    db = WalkerDB(idx)
    ci = idx.cls("model.walkers.type_checker.TypeChecker")
    un = db.unhandled(ci)
    for m in db.ops.members:
        rep.check(m not in un, rule3, f"TypeChecker handles OperatorKind.{m}", ci.loc(), construct=m, detail="" if m not in un else f"expressions containing {m} cannot be typed", function=ci.qualname)
