"""C01 — sequential simulator computes the documented successor semantics (structural clauses).

Decides: (1) every path of apply_unsafe from make_child to the returned state runs the loop over the state
invariants whose failing evaluation raises, and the constructor derives those invariants from both the
problem's state invariants and the bounds of every numeric fluent; (2) effect conditions/values are
evaluated in the pre-state parameter; (3) every effect is expanded over the problem's objects
(expand_effect) before evaluation; (4) a fluent without a value raises UPStateMissingFluentError in
UPState.get_value and each public query turns that into False/None; _evaluate_effect distinguishes
assignment / increase / decrease and raises otherwise.
Does not decide: the computed values (accumulation, add-after-delete outcome, conflict verdicts).
"""
from __future__ import annotations

import ast
from typing import List, Optional, Set

from ..cfg import CFGNode
from ..dataflow import DefUse, feasible_path, reaching_defs
from ..index import AnalysisError, Index, call_name, chain, norm, walk_no_nested
from ..report import Report
from ..rules import cfg_nodes_with_call, cfg_of, handler_type_names, path_text, raising_branch

SIM = "engines.sequential_simulator.UPSequentialSimulator"


def _contains_call(node: ast.AST, name: str) -> bool:
    return any(isinstance(c, ast.Call) and call_name(c) == name for c in ast.walk(node))


def invariant_loop_guards(rep: Report, f, cfg, rule: str, after: CFGNode, before: CFGNode, state_var: str) -> None:
    """Between `after` and `before` every path runs `for si in self._state_invariants` whose body tests
    self._se.evaluate(si, <state_var>) and raises (or records) on failure."""
    loops = [n for n in cfg.nodes if n.kind == "for" and norm(n.owner.iter) == "self._state_invariants"]
    loops = [l for l in loops if feasible_path(cfg, after, l, correlated=False) is not None]
    # the same check written as `if not all(self._se.evaluate(si, <state>)… for si in self._state_invariants): raise`
    alls = []
    for t in cfg.nodes:
        if t.kind != "test" or t.ast is None:
            continue
        neg, e = False, t.ast
        while isinstance(e, ast.UnaryOp) and isinstance(e.op, ast.Not):
            neg, e = not neg, e.operand
        if isinstance(e, ast.Call) and call_name(e) == "all" and len(e.args) == 1 and isinstance(e.args[0], (ast.GeneratorExp, ast.ListComp)) and len(e.args[0].generators) == 1 and norm(e.args[0].generators[0].iter) == "self._state_invariants":
            g = e.args[0].generators[0]
            evs = [c for c in ast.walk(e.args[0].elt) if isinstance(c, ast.Call) and call_name(c) == "evaluate" and len(c.args) >= 2 and norm(c.args[0]) == norm(g.target) and norm(c.args[1]) == state_var]
            if evs and not g.ifs and raising_branch(cfg, t, True if neg else False) and feasible_path(cfg, after, t, correlated=False) is not None:
                alls.append(t)
    if alls and not loops:
        p = cfg.path_avoiding(after, before, set(alls))
        rep.check(p is None, rule, f"{f.short}: every path make_child -> return passes the invariants loop", f.loc(before.ast), construct=norm(before.ast), detail="" if p is None else "a path returns the successor without running the invariant checks", function=f.qualname, path=path_text(p) if p else None)
        rep.ok(rule, f"{f.short}: invariant evaluated in the successor and failure raises", f.loc(alls[0].ast), construct="all(… for … in self._state_invariants)", function=f.qualname)
        return
    if not loops:
        rep.bad(rule, f"{f.short}: invariants loop after make_child", f.loc(after.ast), construct="no `for si in self._state_invariants` reachable after make_child", detail="the successor state is returned without checking state invariants / bounded types", function=f.qualname)
        return
    p = cfg.path_avoiding(after, before, set(loops))
    rep.check(p is None, rule, f"{f.short}: every path make_child -> return passes the invariants loop", f.loc(before.ast), construct=norm(before.ast), detail="" if p is None else "a path returns the successor without running the invariant checks", function=f.qualname, path=path_text(p) if p else None)
    for l in loops:
        var = norm(l.ast)
        tests = [n for n in cfg.nodes if n.kind == "test" and isinstance(n.owner, ast.If) and any(x is n.owner for s in l.owner.body for x in ast.walk(s))]
        good = False
        for t in tests:
            calls = [c for c in ast.walk(t.ast) if isinstance(c, ast.Call) and call_name(c) == "evaluate"]
            for c in calls:
                if len(c.args) >= 2 and norm(c.args[0]) == var and norm(c.args[1]) == state_var:
                    neg = isinstance(t.ast, ast.UnaryOp) and isinstance(t.ast.op, ast.Not)
                    if raising_branch(cfg, t, True if neg else False):
                        good = True
        rep.check(good, rule, f"{f.short}: invariant evaluated in the successor and failure raises", f.loc(l.owner), construct=f"for {var} in self._state_invariants", detail="" if good else f"loop body does not raise when self._se.evaluate({var}, {state_var}) is false", function=f.qualname)


def run(idx: Index, rep: Report, tier: str) -> None:
    rep.explanation = __doc__.strip()
    sim = idx.cls(SIM)

    # ---------------------------------------------------------------- (1) invariants & bounds
    au = idx.func(SIM + ".apply_unsafe")
    cfg = cfg_of(au)
    rep.note_function(au.qualname)
    mk = [n for n, c in cfg_nodes_with_call(cfg, "make_child") if isinstance(n.ast, ast.Assign)]
    direct = [n for n, c in cfg_nodes_with_call(cfg, "make_child") if n.kind == "return"]
    for n in direct:
        # `return state.make_child(…)` (also `s = state.make_child(…); return s`, which the canonical tree inlines):
        # nothing can have been checked on the successor
        rep.bad("C01.1 T2 successor-checked-against-invariants", f"{au.short}: every path make_child -> return passes the invariants loop", au.loc(n.ast), construct=norm(n.ast)[:80], detail="the successor state is returned as soon as it is built: state invariants and bounded types are not checked on it", function=au.qualname)
    if direct and not mk:
        return
    if len(mk) != 1:
        raise AnalysisError("anchor vanished: `new_state = state.make_child(...)` in apply_unsafe")
    mk = mk[0]
    new_var = norm(mk.ast.targets[0])
    rets = [n for n in cfg.nodes if n.kind == "return" and n.ast.value is not None and norm(n.ast.value) == new_var]
    if not rets:
        raise AnalysisError("anchor vanished: `return new_state` in apply_unsafe")
    rule1 = "C01.1 T2 successor-checked-against-invariants"
    for r in rets:
        invariant_loop_guards(rep, au, cfg, rule1, mk, r, new_var)
    # all returns of apply_unsafe return the checked successor
    for n in cfg.nodes:
        if n.kind == "return" and n not in rets:
            rep.bad(rule1, "apply_unsafe: return of something other than the checked successor", au.loc(n.ast), construct=norm(n.ast), detail="apply_unsafe returns a state that did not pass the invariant loop", function=au.qualname)

    init = idx.func(SIM + ".__init__")
    rep.note_function(init.qualname)
    icfg = cfg_of(init)
    du = DefUse(icfg)
    rule1b = "C01.1 T1 invariants-derived-from-problem"
    # (a) from problem.state_invariants
    src_ok = False
    for n in icfg.nodes:
        if isinstance(n.ast, (ast.Assign, ast.AnnAssign)):
            tg = n.ast.targets[0] if isinstance(n.ast, ast.Assign) else n.ast.target
            if norm(tg) == "self._state_invariants" and n.ast.value is not None:
                if any(c[-1] == "state_invariants" and c[0] in ("self", "problem") for c in du.expanded_chains(n.ast.value, n)):
                    src_ok = True
                    rep.ok(rule1b, "__init__: _state_invariants built from problem.state_invariants", init.loc(n.ast), construct=norm(n.ast)[:120], function=init.qualname)
    if not src_ok:
        rep.bad(rule1b, "__init__: _state_invariants built from problem.state_invariants", init.loc(), construct="self._state_invariants = ...", detail="the simulator's invariant list does not derive from problem.state_invariants", function=init.qualname)
    # (b) bounds of every fluent
    for bound in ("lower_bound", "upper_bound"):
        found = None
        for n, c in cfg_nodes_with_call(icfg, "append"):
            if norm(c.func.value) != "self._state_invariants" or not c.args:
                continue
            chains = du.expanded_chains(c.args[0], n)
            hit = [ch for ch in chains if ch[-1] == bound and "fluents" in ch and "<elem>" in ch and "type" in ch]
            if hit:
                # the appended expression must be a comparison built by the expression manager over the fluent expression
                if isinstance(c.args[0], ast.Call) and call_name(c.args[0]) in ("LE", "GE", "LT", "GT"):
                    found = (n, hit[0])
        rep.check(found is not None, rule1b, f"__init__: invariant from fluent {bound}", init.loc(found[0].ast) if found else init.loc(), construct=norm(found[0].ast) if found else f"no append(em.LE(.. {bound} ..)) over problem.fluents", detail="" if found else f"no state invariant is derived from the {bound} of the problem's numeric fluents: bounded types are not enforced in successors", function=init.qualname)
    # the bound loop must not be guarded away for some numeric class: is_int_type() or is_real_type()
    tests = [n for n in icfg.nodes if n.kind == "test" and "is_int_type" in norm(n.ast) or (n.kind == "test" and "is_real_type" in norm(n.ast))]
    ok_both = any("is_int_type" in norm(t.ast) and "is_real_type" in norm(t.ast) and isinstance(t.ast, ast.BoolOp) and isinstance(t.ast.op, ast.Or) for t in tests)
    rep.check(ok_both, rule1b, "__init__: bounds read for int and real fluents", init.loc(tests[0].ast) if tests else init.loc(), construct=norm(tests[0].ast) if tests else "no numeric-type guard", detail="" if ok_both else "bounds are not read for both int and real fluent types", function=init.qualname)

    # ---------------------------------------------------------------- (2) pre-state evaluation
    rule2 = "C01.2 def-use pre-state-evaluation"
    ee = idx.func(SIM + "._evaluate_effect")
    rep.note_function(ee.qualname)
    ecfg = cfg_of(ee)
    erd = reaching_defs(ecfg)
    n_ev = 0
    for fn, fcfg, rd in ((ee, ecfg, erd), (au, cfg, reaching_defs(cfg))):
        for node in list(fcfg.nodes):
            if node.ast is None:
                continue
            for c in ast.walk(node.ast) if not isinstance(node.ast, (ast.FunctionDef,)) else []:
                if isinstance(c, ast.Call) and call_name(c) == "evaluate" and isinstance(c.func, ast.Attribute) and norm(c.func.value) == "self._se" and len(c.args) >= 2:
                    st = c.args[1]
                    n_ev += 1
                    is_param = isinstance(st, ast.Name) and st.id == "state"
                    # inside a lambda the name resolves at call time to the enclosing function's `state`
                    rebound = isinstance(st, ast.Name) and any(d is not fcfg.entry for d in rd.get(node, {}).get(st.id, ()))
                    if fn is au and isinstance(st, ast.Name) and st.id == new_var:
                        continue  # the invariant loop evaluates in the successor (clause 1)
                    rep.check(is_param and not rebound, rule2, f"{fn.short}: state argument of self._se.evaluate", fn.loc(c), construct=norm(c), detail="" if (is_param and not rebound) else "an effect condition/value is evaluated in a state other than the pre-state parameter", function=fn.qualname)
    # the `state` parameter is never re-bound in these functions
    for fn in (ee, au):
        stores = [n for n in walk_no_nested(fn.node) if isinstance(n, ast.Name) and n.id == "state" and isinstance(n.ctx, ast.Store)]
        rep.check(not stores, rule2, f"{fn.short}: parameter `state` never re-bound", fn.loc(stores[0]) if stores else fn.loc(), construct="state = ..." if stores else "", detail="" if not stores else "the pre-state parameter is overwritten", function=fn.qualname)
    # _evaluate_effect is called with the pre-state
    for n, c in cfg_nodes_with_call(cfg, "_evaluate_effect"):
        ok = len(c.args) >= 2 and norm(c.args[1]) == "state"
        rep.check(ok, rule2, "apply_unsafe: _evaluate_effect receives the pre-state", au.loc(c), construct=norm(c)[:100], function=au.qualname, detail="" if ok else "effects are evaluated in a state other than the pre-state")
        n_ev += 1
    for n, c in cfg_nodes_with_call(cfg, "function"):
        ok = len(c.args) >= 2 and norm(c.args[1]) == "state"
        rep.check(ok, rule2, "apply_unsafe: simulated effect receives the pre-state", au.loc(c), construct=norm(c)[:100], function=au.qualname)
    rep.count("evaluate_sites", n_ev)
    rep.require_min(rule2, "evaluate_sites", 2)
    # updates are applied to a child of the pre-state in one step, after all effects were evaluated
    p = None
    for n, c in cfg_nodes_with_call(cfg, "_evaluate_effect"):
        p = p or cfg.path_avoiding(mk, n, set())
    rep.check(p is None, rule2, "apply_unsafe: no effect is evaluated after make_child", au.loc(mk.ast), construct=norm(mk.ast), detail="" if p is None else "an effect is evaluated after the successor was created", function=au.qualname, path=path_text(p) if p else None)
    rep.check(norm(mk.ast.value.func.value) == "state", rule2, "apply_unsafe: successor is a child of the pre-state", au.loc(mk.ast), construct=norm(mk.ast), function=au.qualname)

    # ---------------------------------------------------------------- (3) forall expansion
    rule3 = "C01.3 T1 forall-effects-expanded"
    adu = DefUse(cfg)
    sites = cfg_nodes_with_call(cfg, "_evaluate_effect")
    if not sites:
        raise AnalysisError("anchor vanished: apply_unsafe no longer calls _evaluate_effect")
    for n, c in sites:
        chains = adu.expanded_chains(c.args[0], n)
        ok = any("expand_effect()" in ch and "effects" in ch and ch.count("<elem>") >= 2 for ch in chains)
        rep.check(ok, rule3, "apply_unsafe: effect passed to _evaluate_effect comes from expand_effect over the action's effects", au.loc(c), construct=norm(c.args[0]) + " <- " + "; ".join(sorted(".".join(ch) for ch in chains if "effects" in ch)[:3]), detail="" if ok else "effects are evaluated without expanding forall effects over the problem's objects", function=au.qualname)
    for n, c in cfg_nodes_with_call(cfg, "expand_effect"):
        # directly, or through a local that holds (a cast of) the problem
        ok = c.args and ("self._problem" in norm(c.args[0]) or any(ch[:2] == ("self", "_problem") for ch in adu.sources(c.args[0], n)))
        rep.check(bool(ok), rule3, "apply_unsafe: expand_effect ranges over the problem's objects", au.loc(c), construct=norm(c)[:100], function=au.qualname)
    # all effects: the iterable is grounded_action.effects (not only unconditional / conditional ones)
    fors = [n for n in cfg.nodes if n.kind == "for" and norm(n.owner.iter).endswith(".effects")]
    rep.check(bool(fors), rule3, "apply_unsafe: iterates over all effects of the grounded action", au.loc(fors[0].owner) if fors else au.loc(), construct=norm(fors[0].owner.iter) if fors else "no loop over <action>.effects", function=au.qualname, detail="" if fors else "apply_unsafe does not iterate over the full effect list")

    # ---------------------------------------------------------------- (4) undefined fluent never satisfies
    rule4 = "C01.4 T2 undefined-fluent-never-satisfies"
    gv = idx.func("model.state.UPState.get_value")
    rep.note_function(gv.qualname)
    gcfg = cfg_of(gv)
    # falling off the end is impossible and the last statement raises UPStateMissingFluentError
    last = gv.node.body[-1]
    ok = isinstance(last, ast.Raise) and last.exc is not None and "UPStateMissingFluentError" in norm(last.exc)
    if not ok:
        # the same written with the raise as a guard: `if default is None: raise …` followed by `return default` —
        # no path falls off the end, some path raises the error, and every return gives something known not to be None
        from ..rules2 import path_facts

        raises = [n for n in gcfg.nodes if n.kind == "raise" and n.ast is not None and "UPStateMissingFluentError" in norm(n.ast)]
        rets = [n for n in gcfg.nodes if n.kind == "return"]
        falls_off = any(p.kind not in ("return", "raise") for p in gcfg.g.predecessors(gcfg.exit)) if hasattr(gcfg, "exit") else False
        found_only = all(n.ast.value is not None and (f"{norm(n.ast.value)} is None", False) in path_facts(gcfg, n) for n in rets)
        ok = bool(raises) and bool(rets) and found_only and not falls_off
        last = raises[0].ast if raises else last
    rep.check(ok, rule4, "UPState.get_value: miss path raises UPStateMissingFluentError", gv.loc(last), construct=norm(last)[:100], detail="" if ok else "a fluent with neither value nor default does not raise", function=gv.qualname)
    for n in gcfg.nodes:
        if n.kind == "return":
            # a return must be guarded by `is not None`
            v = n.ast.value
            ok = v is not None and isinstance(v, ast.Name)
            rep.check(ok, rule4, "UPState.get_value: returns only a found value", gv.loc(n.ast), construct=norm(n.ast), function=gv.qualname, detail="" if ok else "get_value may return something other than a found value")
    expect = {"_is_applicable": "False", "_apply": "None", "_is_goal": "False"}
    for meth, val in expect.items():
        f = idx.func(f"{SIM}.{meth}")
        rep.note_function(f.qualname)
        fc = cfg_of(f)
        hs = [h for h in fc.nodes if h.kind == "handler" and "UPStateMissingFluentError" in handler_type_names(h.ast)]
        good = False
        for h in hs:
            # every normal exit from the handler returns the negative answer
            rets_ = [n for n in fc.nodes if n.kind == "return" and h in _preds_closure(fc, n)]
            vals = set()
            for r in rets_:
                vals |= _return_values(fc, r, h)
            if vals and vals <= {val}:
                good = True
        rep.check(good, rule4, f"{meth}: UPStateMissingFluentError -> {val}", f.loc(hs[0].ast) if hs else f.loc(), construct=f"except UPStateMissingFluentError -> {val}" if good else "handler missing or returns something else", detail="" if good else f"{meth} lets UPStateMissingFluentError escape or answers positively", function=f.qualname)
        # the guarded call is inside the try
        body_calls = [c for h in hs for c in ast.walk(h.owner) if isinstance(c, ast.Call) and call_name(c) in ("get_unsatisfied_conditions", "get_unsatisfied_goals", "apply_unsafe")]
        rep.check(bool(body_calls), rule4, f"{meth}: evaluation happens inside the try", f.loc(), construct=", ".join(sorted({call_name(c) for c in body_calls})), function=f.qualname)
    gi = idx.func(SIM + "._get_initial_state")
    rep.note_function(gi.qualname)
    gic = cfg_of(gi)
    hs = [h for h in gic.nodes if h.kind == "handler" and "UPStateMissingFluentError" in handler_type_names(h.ast)]
    ok = bool(hs) and all(any(isinstance(s, ast.Assign) and isinstance(s.value, ast.Constant) and s.value.value is False for s in h.ast.body) for h in hs)
    rep.check(ok, rule4, "_get_initial_state: invariant over an undefined fluent counts as violated", gi.loc(hs[0].ast) if hs else gi.loc(), construct=norm(hs[0].ast)[:100] if hs else "no handler", function=gi.qualname)

    # T6: effect kinds in _evaluate_effect
    rule6 = "C01.4 T6 effect-kinds-distinguished"
    preds = {c.func.attr for c in walk_no_nested(ee.node) if isinstance(c, ast.Call) and isinstance(c.func, ast.Attribute) and c.func.attr in ("is_assignment", "is_increase", "is_decrease")}
    for pname in ("is_assignment", "is_increase", "is_decrease"):
        rep.check(pname in preds, rule6, f"_evaluate_effect: branch for {pname}", ee.loc(), construct=pname, detail="" if pname in preds else f"no branch for effect.{pname}()", function=ee.qualname)
    # the chain ends in raise
    chain_tests = [n for n in ecfg.nodes if n.kind == "test" and "is_decrease" in norm(n.ast)]
    # `if not e.is_decrease(): raise` is the same dispatch: the raising outcome is the one where the predicate is false
    ok = bool(chain_tests) and all(raising_branch(ecfg, t, isinstance(t.ast, ast.UnaryOp) and isinstance(t.ast.op, ast.Not)) for t in chain_tests)
    rep.check(ok, rule6, "_evaluate_effect: unknown effect kind raises", ee.loc(chain_tests[0].ast) if chain_tests else ee.loc(), construct="else: raise NotImplementedError", detail="" if ok else "an effect that is neither assignment, increase nor decrease is silently accepted", function=ee.qualname)
    # conflicting numeric/object assignments raise; Boolean add-after-delete distinguished by is_bool_type
    raises = [r for r in walk_no_nested(ee.node) if isinstance(r, ast.Raise) and r.exc is not None and "UPConflictingEffectsException" in norm(r.exc)]
    rep.check(len(raises) >= 3, "C01.4 T2 conflicts-raise", "_evaluate_effect: conflict raises", ee.loc(), construct=f"{len(raises)} raise UPConflictingEffectsException", detail="" if len(raises) >= 3 else "fewer conflict raises than the three documented cases (two assignments; assignment after inc/dec; inc/dec after assignment)", function=ee.qualname)
    bt = [n for n in ecfg.nodes if n.kind == "test" and "is_bool_type" in norm(n.ast)]
    ok = bool(bt) and any(raising_branch(ecfg, t, True if (isinstance(t.ast, ast.UnaryOp)) else False) for t in bt)
    rep.check(ok, "C01.4 T2 conflicts-raise", "_evaluate_effect: different values for a non-Boolean fluent raise", ee.loc(bt[0].ast) if bt else ee.loc(), construct=norm(bt[0].ast) if bt else "no is_bool_type test", function=ee.qualname, detail="" if ok else "two different values for a numeric/object fluent do not raise")


def _preds_closure(cfg, node) -> Set[CFGNode]:
    seen = set()
    todo = [node]
    while todo:
        n = todo.pop()
        for p in cfg.g.predecessors(n):
            if p not in seen:
                seen.add(p)
                todo.append(p)
    return seen


def _return_values(cfg, ret: CFGNode, handler: CFGNode) -> Set[str]:
    """Normalised values a return node can yield when reached from handler (follows `x = const` in the handler)."""
    v = ret.ast.value
    if v is None:
        return {"None"}
    if isinstance(v, ast.Constant):
        return {repr(v.value)}
    if isinstance(v, ast.Name):
        vals = set()
        for s in handler.ast.body:
            if isinstance(s, ast.Assign) and norm(s.targets[0]) == v.id and isinstance(s.value, ast.Constant):
                vals.add(repr(s.value.value))
        return vals or {"?"}
    return {"?"}
