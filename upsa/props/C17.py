"""C17 — linearity and monotonicity analysis is sound (structural clauses).

Decides: (1) sibling agreement between LinearChecker.walk_times and walk_div: a function that returns the two
fluent sets in both orders depending on a computed sign must know the sign of every fluent-free operand; for an
operand that is not a constant that knowledge can only come from its type bounds, so the function must read
lower_bound / upper_bound and fall back to reporting the fluents in both sets when the sign is unknown;
(2) shape: in walk_times a second fluent-dependent factor sets is_linear to False; in walk_div a
fluent-dependent divisor makes the quotient non-linear; a non-linear verdict returns empty sets;
walk_minus swaps the sets of the subtrahend only; a fluent is reported positive.
Does not decide: monotonicity of concrete expressions.
"""
from __future__ import annotations

import ast
from typing import Dict, List, Set, Tuple

from ..index import AnalysisError, Index, call_name, norm, walk_no_nested
from ..report import Report
from ..rules2 import fact_holds
from ..rules import cfg_of, guards_dominating

LC = "model.walkers.linear_checker.LinearChecker"


def _tuple_returns(f) -> List[Tuple[ast.Return, List[str]]]:
    out = []
    for r in walk_no_nested(f.node):
        if isinstance(r, ast.Return) and isinstance(r.value, ast.Tuple) and len(r.value.elts) == 3:
            out.append((r, [norm(e) for e in r.value.elts]))
    return out


def lc_roles(f) -> Dict[str, str]:
    """Role names for the locals of a LinearChecker.walk_* method, recognised by use: the three components unpacked
    from an argument triple, the verdict (first component of the returned triples), the two accumulated sets (second
    and third component of the final return, or: what `|= <positive part>` / `|= <negative part>` first feed)."""
    roles: Dict[str, str] = {}
    fn = f.node
    # triples unpacked from args[i] / from the loop over args
    for a in walk_no_nested(fn):
        tgt = val = None
        if isinstance(a, ast.Assign) and isinstance(a.targets[0], ast.Tuple) and len(a.targets[0].elts) == 3:
            tgt, val = a.targets[0], a.value
        elif isinstance(a, ast.For):
            t = a.target
            if isinstance(t, ast.Tuple) and len(t.elts) == 2 and isinstance(t.elts[1], ast.Tuple):
                t = t.elts[1]
            if isinstance(t, ast.Tuple) and len(t.elts) == 3:
                tgt, val = t, a.iter
        if tgt is None or not all(isinstance(x, ast.Name) for x in tgt.elts):
            continue
        v = norm(val)
        if v == "args[0]" and fn.name == "walk_div":
            names = ("numerator_is_linear", "numerator_positive_fluents", "numerator_negative_fluents")
        elif v == "args[1]" and fn.name == "walk_div":
            names = ("denominator_is_linear", "denominator_positive_fluents", "denominator_negative_fluents")
        elif "args" in v:
            names = ("b", "spf", "snf")
        else:
            continue
        for x, r in zip(tgt.elts, names):
            roles.setdefault(x.id, r)
    inv = {r: a for a, r in roles.items()}
    # the verdict
    for r in walk_no_nested(fn):
        if isinstance(r, ast.Return) and isinstance(r.value, ast.Tuple) and len(r.value.elts) == 3 and isinstance(r.value.elts[0], ast.Name) and r.value.elts[0].id not in roles:
            roles[r.value.elts[0].id] = "is_linear"
            break
    # the accumulators
    if "spf" in inv:
        for a in walk_no_nested(fn):
            if isinstance(a, ast.AugAssign) and isinstance(a.op, ast.BitOr) and isinstance(a.target, ast.Name) and a.target.id not in roles:
                if norm(a.value) == inv["spf"] and "positive_fluents" not in roles.values():
                    roles[a.target.id] = "positive_fluents"
                elif norm(a.value) == inv.get("snf") and "negative_fluents" not in roles.values():
                    roles[a.target.id] = "negative_fluents"
    else:
        for a in walk_no_nested(fn):
            tg = a.targets[0] if isinstance(a, ast.Assign) else (a.target if isinstance(a, ast.AnnAssign) else None)
            if isinstance(tg, ast.Name) and tg.id not in roles and getattr(a, "value", None) is not None and isinstance(a.value, ast.BinOp) and isinstance(a.value.op, ast.BitOr):
                ops = {norm(a.value.left), norm(a.value.right)}
                if inv.get("numerator_positive_fluents") in ops:
                    roles[tg.id] = "positive_fluents"
                elif inv.get("numerator_negative_fluents") in ops:
                    roles[tg.id] = "negative_fluents"
    # the "a factor with fluents was seen" flag: `if not X: X = True`
    for i in walk_no_nested(fn):
        if isinstance(i, ast.If) and isinstance(i.test, ast.UnaryOp) and isinstance(i.test.op, ast.Not) and isinstance(i.test.operand, ast.Name):
            x = i.test.operand.id
            if any(isinstance(a, ast.Assign) and norm(a.targets[0]) == x and isinstance(a.value, ast.Constant) and a.value.value is True for a in i.body):
                roles.setdefault(x, "arg_with_fluents_found")
    return roles


def _sets_by_cases(idx: Index, rep: Report, rule2: str) -> Set[str]:
    """walk_minus and the default handler (sums and every other operator) are pure functions of the triples computed
    for the operands — (linear?, fluents the value grows in, fluents it shrinks in) — and touch the sets only through
    union: what they answer is decided by interpreting their syntax tree on every combination of
    {linear, non-linear} x {empty, one distinct token} for each set of each operand. Expected: linear iff every operand
    is; for a linear answer, a sum grows in what its operands grow in and shrinks in what they shrink in, a difference
    grows in what the minuend grows in and the subtrahend shrinks in (and symmetrically); the operands' own sets are
    left untouched (they are memoised results of the children). Returns the handlers decided (not those whose code
    leaves the interpreter's fragment)."""
    import itertools

    from .extra3 import _OrderInterp, _Raised, _Returned, _Stub, _Yielded

    decided: Set[str] = set()
    for name, arities in (("walk_minus", (2,)), ("walk_default", (0, 1, 2, 3))):
        f = _lc(idx, name)
        params = [p for p in f.params() if p not in ("self", "cls")]
        if len(params) != 2:
            continue
        interp = _OrderInterp(f.node)
        interp.check_asserts = True
        wrong = None
        cases = 0
        supported = True
        for n in arities:
            for bits in itertools.product((False, True), repeat=3 * n):
                triples = [(bits[3 * i], {f"p{i}"} if bits[3 * i + 1] else set(), {f"n{i}"} if bits[3 * i + 2] else set()) for i in range(n)]
                frozen = [(b, set(p), set(q)) for b, p, q in triples]
                env = {"self": _Stub("self"), params[0]: _Stub("expression"), params[1]: list(triples)}
                try:
                    interp.run(env)
                    got = None
                except _Returned as r:
                    got = r.value
                except _Yielded:
                    got = None
                except _Raised as ex:
                    got = f"raises {ex}"
                except _OrderInterp.Unsupported:
                    supported = False
                    break
                except Exception:
                    supported = False
                    break
                cases += 1
                lin = all(b for b, _, _ in frozen)
                if name == "walk_minus":
                    pos, neg = frozen[0][1] | frozen[1][2], frozen[0][2] | frozen[1][1]
                else:
                    pos = set().union(*[p for _, p, _ in frozen]) if frozen else set()
                    neg = set().union(*[q for _, _, q in frozen]) if frozen else set()
                good = isinstance(got, tuple) and len(got) == 3 and bool(got[0]) == lin and (not lin or (got[1] == pos and got[2] == neg))
                if name == "walk_minus" and good and not lin:
                    good = got[1] == set() and got[2] == set()
                untouched = [(b, p, q) for b, p, q in triples] == frozen
                if wrong is None and not (good and untouched):
                    wrong = (frozen, got, (lin, pos, neg), untouched)
            if not supported:
                break
        if not supported:
            continue
        decided.add(name)
        detail = ""
        if wrong is not None:
            frozen, got, want, untouched = wrong
            detail = f"for the operand results {frozen} the handler answers {got}, expected {want}" + ("" if untouched else "; the operands' own (memoised) sets are modified") + (": the polarity of the subtrahend's fluents is not flipped — x - y is reported as growing in y" if name == "walk_minus" else "")
        what = "minuend keeps, subtrahend swaps the fluent sets; a non-linear verdict carries no sets" if name == "walk_minus" else "linear iff every operand is, and the fluent sets are the unions of the operands' sets"
        rep.check(wrong is None, rule2, f"{name}: {what}", f.loc(), construct=f"{cases} operand-result combinations interpreted", detail=detail, function=f.qualname, strict=True)
    return decided


def _lc(idx: Index, name: str):
    from ..roles import with_roles

    f = idx.func(f"{LC}.{name}")
    return with_roles(f, lc_roles(f))


def run(idx: Index, rep: Report, tier: str) -> None:
    rep.explanation = __doc__.strip()
    rule1 = "C17.1 T17 sign-of-non-constant-operands"
    for name in ("walk_times", "walk_div"):
        f = _lc(idx, name)
        rep.note_function(f.qualname)
        rets = _tuple_returns(f)
        orders = {(e[1], e[2]) for _, e in rets if e[1] != e[2] and "set()" not in e[1]}
        swapped = any((b, a) in orders for a, b in orders)
        if not swapped:
            rep.ok(rule1, f"{name}: no sign-dependent swap of the positive/negative sets", f.loc(), function=f.qualname)
            continue
        reads_bounds = {n.attr for n in walk_no_nested(f.node) if isinstance(n, ast.Attribute) and n.attr in ("lower_bound", "upper_bound")}
        _lcc = idx.cls(LC)
        for c in walk_no_nested(f.node):  # … or in a private helper of the checker that the handler calls
            if isinstance(c, ast.Call) and isinstance(c.func, ast.Attribute) and norm(c.func.value) == "self" and c.func.attr.startswith("_") and c.func.attr in _lcc.methods:
                reads_bounds |= {n.attr for n in walk_no_nested(_lcc.methods[c.func.attr].node) if isinstance(n, ast.Attribute) and n.attr in ("lower_bound", "upper_bound")}
        both_sets = [e for _, e in rets if e[1] == e[2] and e[1] not in ("set()",)]
        only_constants = any(isinstance(c, ast.Call) and call_name(c) in ("is_int_constant", "is_real_constant", "is_constant") for c in walk_no_nested(f.node))
        ok = reads_bounds == {"lower_bound", "upper_bound"} and bool(both_sets)
        rep.check(
            ok,
            rule1,
            f"{name}: the sign of a fluent-free, non-constant operand is taken from its type bounds (or treated as unknown)",
            f.loc(),
            construct=f"{name}: swaps sets on a computed sign; reads bounds: {sorted(reads_bounds)}; unknown-sign return (fluents in both sets): {bool(both_sets)}; sign from constants only: {only_constants and not reads_bounds}",
            detail="" if ok else f"{name} flips polarity only for negative *constants*: a parameter or bounded expression whose range is negative (f / k with k in [-5, -1]) leaves the fluent reported as positive although the value decreases in it; the sibling {'walk_times' if name == 'walk_div' else 'walk_div'} reads lower_bound/upper_bound",
            function=f.qualname,
        )

    rule2 = "C17.2 linearity-shape"
    wt = _lc(idx, "walk_times")
    cfg = cfg_of(wt)
    falses = [n for n in cfg.nodes if isinstance(n.ast, ast.Assign) and norm(n.ast.targets[0]) == "is_linear" and isinstance(n.ast.value, ast.Constant) and n.ast.value.value is False]
    ok = False
    for n in falses:
        gs = [(norm(t.ast), o) for t, o in guards_dominating(cfg, n)]
        if any(("len(spf) > 0" in g or "len(snf) > 0" in g) and o for g, o in gs) and any("arg_with_fluents_found" in g for g, o in gs):
            ok = True
    rep.check(ok, rule2, "walk_times: a second fluent-dependent factor makes the product non-linear", wt.loc(falses[0].ast) if falses else wt.loc(), construct="is_linear = False under (fluents in this factor) and (a previous factor had fluents)", detail="" if ok else "a product of two fluent-dependent factors can be reported linear", function=wt.qualname)
    wd = _lc(idx, "walk_div")
    asg = [a for a in walk_no_nested(wd.node) if isinstance(a, ast.Assign) and norm(a.targets[0]) == "is_linear"]
    ok = False
    for a in asg:
        t = norm(a.value)
        if "len(denominator_positive_fluents) == 0" in t and "len(denominator_negative_fluents) == 0" in t and "numerator_is_linear" in t and "denominator_is_linear" in t and isinstance(a.value, ast.BoolOp) and isinstance(a.value.op, ast.And):
            ok = True
    if not ok:
        # the same condition written as a guard: every return that can claim linearity is reached only with both
        # fluent sets of the divisor empty (and both operands linear)
        from ..rules2 import path_facts

        dcfg = cfg_of(wd)
        claims = [n for n in dcfg.nodes if n.kind == "return" and isinstance(n.ast.value, ast.Tuple) and len(n.ast.value.elts) == 3 and not (isinstance(n.ast.value.elts[0], ast.Constant) and n.ast.value.elts[0].value is False)]
        def _empty(facts, x):
            return (f"len({x}) == 0", True) in facts or (x, False) in facts or (f"len({x}) > 0", False) in facts
        good = []
        for n in claims:
            fs = path_facts(dcfg, n)
            if (norm(n.ast.value.elts[0]), False) in fs:
                continue  # this return reports non-linearity
            good.append(_empty(fs, "denominator_positive_fluents") and _empty(fs, "denominator_negative_fluents") and ("numerator_is_linear", True) in fs and ("denominator_is_linear", True) in fs)
        ok = bool(good) and all(good)
    rep.check(ok, rule2, "walk_div: a fluent-dependent divisor makes the quotient non-linear", wd.loc(asg[0]) if asg else wd.loc(), construct=norm(asg[0])[:150] if asg else "linearity claimed only under empty divisor fluent sets", detail="" if ok else "a quotient with fluents in the divisor can be reported linear", function=wd.qualname)
    for name in ("walk_times", "walk_div", "walk_minus"):
        f = _lc(idx, name)
        fc = cfg_of(f)
        ok = False
        for n in fc.nodes:
            if n.kind == "return" and isinstance(n.ast.value, ast.Tuple) and [norm(e) for e in n.ast.value.elts][1:] == ["set()", "set()"]:
                first = n.ast.value.elts[0]
                gds = guards_dominating(fc, n)
                # `if not is_linear:` may have been inlined to the condition is_linear stands for
                if fact_holds(gds, "is_linear", False) or (isinstance(first, ast.Constant) and first.value is False) or (isinstance(first, ast.Name) and first.id == "is_linear" and gds):
                    ok = True
        rep.check(ok, rule2, f"{name}: a non-linear verdict carries no monotonicity claim", f.loc(), construct="if not is_linear: return (is_linear, set(), set())", function=f.qualname)
    wm = _lc(idx, "walk_minus")
    rep.note_function(wm.qualname)
    # statements after `b, spf, snf = args[1]` swap
    body = list(wm.node.body)
    idx1 = next((i for i, s in enumerate(body) if isinstance(s, ast.Assign) and norm(s.value) == "args[1]"), None)
    ok = False
    if idx1 is not None:
        after = [norm(s) for s in body[idx1 + 1 : idx1 + 5]]
        ok = "negative_fluents |= spf" in after and "positive_fluents |= snf" in after
        before = [norm(s) for s in body[:idx1]]
        ok = ok and "positive_fluents |= spf" in before and "negative_fluents |= snf" in before
    removal = None
    lc_cls = idx.cls(LC)
    for hm in lc_cls.methods.values():
        for x in walk_no_nested(hm.node):
            if isinstance(x, ast.BinOp) and isinstance(x.op, (ast.Sub, ast.BitAnd, ast.BitXor)) and any(isinstance(y, ast.Name) and ("fluents" in y.id or y.id in ("spf", "snf")) for y in ast.walk(x)):
                removal = removal or (hm, x)
            if isinstance(x, ast.Call) and isinstance(x.func, ast.Attribute) and x.func.attr in ("difference", "difference_update", "discard", "remove", "intersection", "intersection_update", "symmetric_difference", "clear", "pop") and "fluents" in norm(x.func.value):
                removal = removal or (hm, x)
            if isinstance(x, ast.AugAssign) and isinstance(x.op, (ast.Sub, ast.BitAnd, ast.BitXor)) and "fluents" in norm(x.target):
                removal = removal or (hm, x)
    rep.check(removal is None, rule2, "LinearChecker: the sets of fluents an expression grows / shrinks in only ever grow", (removal[0].loc(removal[1]) if removal else lc_cls.loc()), construct=(norm(removal[1])[:70] if removal else "no set difference / removal in the handlers"), detail="" if removal is None else "a fluent is taken out of a monotonicity set: when the same fluent occurs in both operands (2*x - x) its contribution from one side is lost and the expression is reported monotone in the wrong direction", function=(removal[0].qualname if removal else lc_cls.qualname))
    decided = _sets_by_cases(idx, rep, rule2)
    if "walk_minus" in decided:
        pass
    elif ok:
        rep.ok(rule2, "walk_minus: minuend keeps, subtrahend swaps the fluent sets", wm.loc(), construct="args[0]: pos|=spf, neg|=snf; args[1]: neg|=spf, pos|=snf", function=wm.qualname)
    else:
        rep.inconclusive(rule2, "walk_minus: the swap of the subtrahend's sets is not in the recognised form", wm.loc(), construct="args[0]: pos|=spf, neg|=snf; args[1]: neg|=spf, pos|=snf", function=wm.qualname)
    wf = _lc(idx, "walk_fluent_exp")
    rets = _tuple_returns(wf)
    ok = bool(rets) and all(e[1] == "{expression}" and e[2] == "set()" for _, e in rets)
    rep.check(ok, rule2, "walk_fluent_exp: a fluent is non-decreasing in itself", wf.loc(), construct=str(rets[0][1]) if rets else "", function=wf.qualname)
    # get_fluents simplifies first with the problem (static fluents are constants)
    gf = idx.func(f"{LC}.get_fluents")
    calls = [c for c in walk_no_nested(gf.node) if isinstance(c, ast.Call) and call_name(c) == "walk"]
    ok = bool(calls) and all("simplify" in norm(c.args[0]) for c in calls)
    rep.check(ok, rule2, "get_fluents walks the simplified expression", gf.loc(), construct=norm(calls[0]) if calls else "", function=gf.qualname)
