"""C22 — problem cloning yields an equal, independent copy that accepts the same edits (structural clauses).

Decides: (1) T8 clone completeness, MRO-aware, for every class of unified_planning.model that defines clone():
every *state field* (assigned by an __init__ of the MRO and changed by some other method) is assigned on the
copy, by clone itself, by the _clone_to helpers it calls, by a method it calls on the copy, or through the
constructor arguments; a container that is mutated in place is copied, not aliased;
(2) T9 on the classes that carry timed conditions/effects and on the problem classes: everything hashed is
compared, __eq__ can return True, dictionaries are compared in both directions.
Does not decide: behaviour under later edits.
"""
from __future__ import annotations

from ..index import Index
from ..report import Report
from ..rules import clone_completeness, eq_hash_agreement


def run(idx: Index, rep: Report, tier: str) -> None:
    rep.explanation = __doc__.strip()
    rule1 = "C22.1 T8 clone-completeness"
    n_cls = 0
    n_fields = 0
    for ci in sorted(idx.classes.values(), key=lambda c: c.qualname):
        if "clone" in ci.methods and ci.module.name.startswith("unified_planning.model"):
            n_cls += 1
            n_fields += clone_completeness(rep, rule1, idx, ci)
    rep.count("classes_with_clone", n_cls)
    rep.count("state_fields_checked", n_fields)
    rep.require_min(rule1, "classes_with_clone", 20)
    rep.require_min(rule1, "state_fields_checked", 80)
    # the problem classes named by the property must be among them
    for q in ("model.problem.Problem", "model.contingent.contingent_problem.ContingentProblem", "model.htn.hierarchical_problem.HierarchicalProblem", "model.multi_agent.ma_problem.MultiAgentProblem", "model.action.InstantaneousAction", "model.action.DurativeAction", "model.mixins.timed_conds_effs.TimedCondsEffs"):
        ci = idx.cls(q)
        rep.check("clone" in ci.methods, rule1, f"{ci.name} defines clone()", ci.loc(), construct=ci.name, function=ci.qualname)

    rule2 = "C22.2 T9 equality-usable"
    for q in ("model.mixins.timed_conds_effs.TimedCondsEffs", "model.problem.Problem", "model.contingent.contingent_problem.ContingentProblem", "model.htn.hierarchical_problem.HierarchicalProblem", "model.multi_agent.ma_problem.MultiAgentProblem", "model.action.InstantaneousAction", "model.action.DurativeAction", "model.natural_transition.Event", "model.natural_transition.Process", "model.effect.Effect"):
        eq_hash_agreement(rep, rule2, idx.cls(q))
