"""Third set of seed-driven clauses (DESIGN.md section 10, round 3). Same conventions as extra.py / extra2.py."""
from __future__ import annotations

import ast
from typing import Dict, List, Optional, Set, Tuple

from ..dataflow import DefUse
from ..index import AnalysisError, FuncInfo, Index, call_name, norm, str_consts, walk_no_nested
from ..report import Report
from ..rules import cfg_nodes_with_call, cfg_of, guards_dominating, path_text


def _names(e: ast.AST) -> Set[str]:
    return {x.id for x in ast.walk(e) if isinstance(x, ast.Name)}


# ------------------------------------------------------------------------------------ shared hidden state
def class_level_mutables(idx: Index, rep: Report, rule: str, prefixes) -> None:
    """A container created in a class body is one object for all instances (and for all problems of the process). If
    methods fill it through `self`, it is a hidden cache: what one plan / walker / problem computed leaks into the
    next. Zero instances on the pinned tree; an inline fixture keeps the rule alive."""
    def scan(cls_node: ast.ClassDef, cname: str):
        out = []
        cand = {}
        for st in cls_node.body:
            tg = v = None
            if isinstance(st, ast.Assign) and len(st.targets) == 1 and isinstance(st.targets[0], ast.Name):
                tg, v = st.targets[0].id, st.value
            elif isinstance(st, ast.AnnAssign) and isinstance(st.target, ast.Name) and st.value is not None:
                tg, v = st.target.id, st.value
            if tg and (isinstance(v, (ast.Dict, ast.List, ast.Set)) or (isinstance(v, ast.Call) and norm(v.func) in ("dict", "list", "set", "OrderedDict", "defaultdict"))):
                cand[tg] = st
        for name, st in cand.items():
            recv = (f"self.{name}", f"cls.{name}", f"{cname}.{name}")
            for m in [x for x in cls_node.body if isinstance(x, (ast.FunctionDef, ast.AsyncFunctionDef))]:
                for x in walk_no_nested(m):
                    if (isinstance(x, ast.Assign) and any(isinstance(t, ast.Subscript) and norm(t.value) in recv for t in x.targets)) or (isinstance(x, ast.Call) and isinstance(x.func, ast.Attribute) and x.func.attr in ("append", "add", "update", "setdefault", "extend", "pop", "clear", "remove") and norm(x.func.value) in recv):
                        out.append((name, st, m.name, x))
        return out

    n = 0
    for ci in idx.classes.values():
        if not ci.module.name.startswith(tuple(prefixes)):
            continue
        n += 1
        for name, st, mname, x in scan(ci.node, ci.name):
            rep.bad(rule, f"{ci.name}.{name} is not a class-level container filled through instances", ci.loc(st), construct=f"{ci.name}.{name} = {norm(st.value)[:30]} mutated in {mname}: {norm(x)[:60]}", detail="the container is shared by every instance: a value memoised for one plan / problem is served to another one with different objects, so the result depends on what was computed before in the same process", function=ci.qualname)
    fixture = ast.parse("class P:\n    _memo = {}\n    def f(self, k):\n        self._memo[k] = 1\n").body[0]
    if not scan(fixture, "P"):
        raise AnalysisError(f"{rule}: positive fixture no longer matches")
    rep.ok(rule, f"{n} classes: no class-level container is filled through an instance", "unified_planning:1", construct=f"{n} classes")
    rep.count("classes_scanned", n)
    rep.require_min(rule, "classes_scanned", 3)


# ------------------------------------------------------------------------------------ C27
def c27(idx: Index, rep: Report, tier: str) -> None:
    """Every expanded effect contributes its condition, value *and target* to the read set whatever its kind: a
    contribution guarded by a test on the effect (is_assignment(), is_increase(), …) drops the write-write and
    write-read ordering of the other kinds."""
    rule = "C27.3 read-set-contributions-unconditional"
    f = idx.func("plans.sequential_plan.SequentialPlan._to_partial_order_plan")
    cfg = cfg_of(f)
    du = DefUse(cfg)
    n = 0
    for node in cfg.nodes:
        if not (isinstance(node.ast, ast.AugAssign) and isinstance(node.ast.op, ast.BitOr)):
            continue
        chains = du.expanded_chains(node.ast.value, node)
        keys = {ch[-1] for ch in chains if "effects" in ch and ch[-1] in ("condition", "value", "fluent")}
        if not keys:
            continue
        # the loop variables the contribution is computed from
        loop_vars = set()
        for l in cfg.nodes:
            if l.kind == "for" and any(x is node.ast for s in l.owner.body for x in ast.walk(s)):
                loop_vars |= _names(l.owner.target)
        for key in sorted(keys):
            n += 1
            bad = [t for t, _ in guards_dominating(cfg, node) if t.kind == "test" and (_names(t.ast) & loop_vars)]
            rep.check(not bad, rule, f"the effect's {key} is added to the read set for every effect", f.loc(node.ast), construct=f"{key}: {'under `' + norm(bad[0].ast)[:50] + '`' if bad else 'unconditional'}", detail="" if not bad else f"effects for which `{norm(bad[0].ast)}` does not hold do not record their {key} as read: two instances that increase / decrease the same fluent, or a later reader of it, are left unordered and some linearisation of the partial-order plan is invalid", function=f.qualname)
    rep.count("read_set_contributions", n)
    rep.require_min(rule, "read_set_contributions", 3, f.qualname)
    class_level_mutables(idx, rep, "C27.4 T11 no-class-level-cache", ("unified_planning.plans",))
    # every fluent occurrence an action instance reads is registered as required: inside the loop over the lifted
    # fluents the `required.add(…)` depends on no test except those that reject the plan (the other branch raises)
    from ..rules import raising_branch

    rule6 = "C27.6 T2 every-read-fluent-is-registered"
    n6 = 0
    for nd, c in cfg_nodes_with_call(cfg, "add"):
        if not (c.args and isinstance(c.args[0], ast.Call) and any(isinstance(x, ast.Call) and call_name(x) == "substitute" for x in ast.walk(c.args[0]))):
            continue
        loops = [l for l in cfg.nodes if l.kind == "for" and any(x is nd.ast for st in l.owner.body for x in ast.walk(st))]
        if not loops:
            continue
        inner = max(loops, key=lambda l: l.owner.lineno)
        n6 += 1
        filt = []
        for t, o in guards_dominating(cfg, nd):
            if t.kind != "test" or not any(x is t.ast for st in inner.owner.body for x in ast.walk(st)):
                continue
            if not raising_branch(cfg, t, not o):
                filt.append(t)
        rep.check(not filt, rule6, "a fluent read by the action instance is always added to its required fluents", f.loc(c), construct=norm(c)[:60] + ("" if not filt else f" only if `{norm(filt[0].ast)[:50]}`"), detail="" if not filt else "some reads are not registered (filtered by a property of the fluent): the instance gets no ordering edge to the writers of that fluent — e.g. one written only through conditional effects — and a linearisation of the partial-order plan puts the reader before the writer", function=f.qualname)
    rep.count("read_registrations", n6)
    rep.require_min(rule6, "read_registrations", 1)
    # reader keys and writer keys are normalised the same way
    rule5 = "C27.5 T7 reader-and-writer-keys-same-normal-form"
    from ..dataflow import reaching_defs, def_value

    rd = reaching_defs(cfg)

    def shape(e):
        out = []
        while isinstance(e, ast.Call):
            out.append(call_name(e))
            e = e.args[0] if e.args else None
        return out

    reader = [c.args[0] for nd, c in cfg_nodes_with_call(cfg, "add") if c.args and isinstance(c.args[0], ast.Call)]
    writer = []
    for nd in cfg.nodes:
        a = nd.ast
        if nd.kind == "stmt" and isinstance(a, ast.Assign) and isinstance(a.targets[0], ast.Subscript) and isinstance(a.targets[0].slice, ast.Name):
            for d in rd[nd].get(a.targets[0].slice.id, ()):
                v = def_value(d, a.targets[0].slice.id)
                if isinstance(v, ast.Call) and any(isinstance(x, ast.Call) and call_name(x) == "substitute" for x in ast.walk(v)):
                    writer.append(v)
    rs = {tuple(shape(e)) for e in reader if "substitute" in shape(e)}
    ws = {tuple(shape(e)) for e in writer}
    ok = bool(rs) and bool(ws) and rs == ws
    rep.check(ok, rule5, "the ground fluents an instance reads and the ones it writes are normalised by the same calls", f.loc(), construct=f"read keys: {sorted(rs)}; written keys: {sorted(ws)}", detail="" if ok else "the table of last modifiers and the table of readers are keyed by different normal forms of a ground fluent (`cell(1 + 1)` vs `cell(2)`): a reader does not find the writer of the fluent it reads and is left unordered", function=f.qualname)


# ------------------------------------------------------------------------------------ C28
UNGROUND_CALLS = {"substitute", "get"}  # parameter substitution keeps nested fluents; FreeVarsExtractor.get returns them


def state_lookups_ground(rep: Report, rule: str, funcs: List[FuncInfo]) -> int:
    """`state.get_value(e)` answers for *ground* fluent expressions only (anything else falls through to the default
    value). An expression that comes from a parameter substitution or from the free-variables extractor may still have
    a fluent among its arguments: the lookup must be guarded by a groundness test on `e.args`, or `e` must have been
    rebuilt from evaluated arguments."""
    n = 0
    for f in funcs:
        calls = [c for c in walk_no_nested(f.node) if isinstance(c, ast.Call) and call_name(c) == "get_value" and len(c.args) == 1 and isinstance(c.func, ast.Attribute)]
        if not calls:
            continue
        cfg = cfg_of(f)
        du = DefUse(cfg)
        for c in calls:
            nds = cfg.node_containing(c)
            if not nds:
                continue
            nd = nds[0]
            src = du.sources(c.args[0], nd)
            risky = sorted({ch[-1] for ch in src if ch and ch[-1].endswith("()") and ch[-1][:-2] in UNGROUND_CALLS and not (ch[-1] == "get()" and len(ch) >= 2 and ch[-2] in ("_values", "fluents_defaults", "dict"))})
            rebuilt = any(isinstance(x, ast.Call) and call_name(x) == "evaluate" for a in ast.walk(f.node) if isinstance(a, ast.Assign) and any(norm(t) == norm(c.args[0]) for t in a.targets) for x in ast.walk(a.value))
            if not risky:
                continue
            n += 1
            guards = [norm(t.ast) for t, o in guards_dominating(cfg, nd)]
            # a generator / comprehension filter counts too
            guarded = any("is_constant" in g and ".args" in g for g in guards)
            ok = guarded or rebuilt
            rep.check(ok, rule, "a state is asked for the value of a ground fluent expression", f.loc(c), construct=f"{norm(c)[:60]} with the argument from {risky}: " + ("groundness tested" if guarded else "rebuilt from evaluated arguments" if rebuilt else "not known to be ground"), detail="" if ok else "the expression can still have a fluent among its arguments (f(g(x))): State.get_value finds no entry for it and answers with the default of f instead of the value of f(<value of g(x)>)", function=f.qualname)
    return n


def produced_then_consumed(rep: Report, rule: str, f: FuncInfo, producer: str, consumers, what: str, detail: str) -> int:
    """`x = producer(…)` followed by `consumer(… x …)`: the consumer call is conditioned on nothing but x itself
    (`x is not None`): every extra test between the two that reads anything else lets a produced value be dropped.
    Returns the number of (producer, consumer) pairs."""
    cfg = cfg_of(f)
    n = 0
    for pn, pc in cfg_nodes_with_call(cfg, producer):
        if not (isinstance(pn.ast, ast.Assign) and len(pn.ast.targets) == 1):
            continue
        results = {x.id for x in ast.walk(pn.ast.targets[0]) if isinstance(x, ast.Name)}
        base = {id(t) for t, _ in guards_dominating(cfg, pn)}
        for cname in consumers:
            for cn, cc in cfg_nodes_with_call(cfg, cname):
                if not any(isinstance(x, ast.Name) and x.id in results for a in list(cc.args) + [k.value for k in cc.keywords] for x in ast.walk(a)):
                    continue
                if cfg.path_avoiding(pn, cn, set()) is None:
                    continue
                n += 1
                extra = [t for t, _ in guards_dominating(cfg, cn) if id(t) not in base and t.kind == "test" and not ({x.id for x in ast.walk(t.ast) if isinstance(x, ast.Name)} <= results)]
                rep.check(not extra, rule, what, f.loc(cc), construct=f"{norm(pn.ast.targets[0])} = {producer}(…); {cname}(…) " + ("whenever there is a result" if not extra else f"only if also `{norm(extra[0].ast)[:60]}`"), detail="" if not extra else detail, function=f.qualname)
    return n


# ------------------------------------------------------------------------------------ sibling branches / fixpoints
_TWIN_SWAPS = [("Minus", "Plus"), ("decrease", "increase"), ("Decrease", "Increase"), ("DECREASE", "INCREASE")]


def _twin_text(t: str) -> str:
    for a, b in _TWIN_SWAPS:
        t = t.replace(a, b)
    return t.replace(" - ", " + ")


def _read_paths(stmts: List[ast.stmt]) -> Set[str]:
    """The maximal access paths (name / attribute / subscript chains) a block reads."""
    out: Set[str] = set()

    def visit(n: ast.AST, top: bool):
        if isinstance(n, (ast.Name, ast.Attribute, ast.Subscript)) and isinstance(getattr(n, "ctx", None), ast.Load):
            if top:
                out.add(_twin_text(norm(n)))
            if isinstance(n, ast.Subscript):
                visit(n.value, False)
                visit(n.slice, True)
            elif isinstance(n, ast.Attribute):
                visit(n.value, False)
            return
        for c in ast.iter_child_nodes(n):
            visit(c, True)

    for st in stmts:
        visit(st, True)
    return out


def _if_chain(i: ast.If):
    out = [(i.test, i.body)]
    while len(i.orelse) == 1 and isinstance(i.orelse[0], ast.If):
        i = i.orelse[0]
        out.append((i.test, i.body))
    return out


def increase_decrease_twins(rep: Report, rule: str, funcs: List[FuncInfo]) -> int:
    """Where a function treats `e.is_increase()` and `e.is_decrease()` separately, the statements executed only for a
    decrease read the same operands as those executed only for an increase (only the operator differs). Decided on
    path facts, so `if … elif e.is_decrease(): … else: raise` and `if not e.is_decrease(): raise` + fall-through are
    the same code; the pairs of different loops are kept apart."""
    from ..rules2 import path_facts

    n = 0
    for f in funcs:
        if not any(isinstance(c, ast.Call) and isinstance(c.func, ast.Attribute) and c.func.attr == "is_decrease" for c in walk_no_nested(f.node)):
            continue
        cfg = cfg_of(f)
        loops = [l for l in walk_no_nested(f.node) if isinstance(l, (ast.For, ast.While))]

        def region(a: ast.AST) -> int:
            inner = [l for l in loops if any(x is a for x in ast.walk(l))]
            return max((l.lineno for l in inner), default=0)

        groups: Dict[Tuple[str, int], Dict[str, list]] = {}
        for nd in cfg.nodes:
            if nd.ast is None or nd.kind not in ("stmt", "return", "raise", "test"):
                continue
            for txt, val in path_facts(cfg, nd):
                if val and txt.endswith((".is_increase()", ".is_decrease()")):
                    recv, kind = txt.rsplit(".", 1)
                    groups.setdefault((recv, region(nd.ast)), {}).setdefault(kind, []).append(nd)
        for (recv, reg), g in sorted(groups.items()):
            inc, dec = g.get("is_increase()", []), g.get("is_decrease()", [])
            if not inc or not dec:
                continue
            # code reachable from the other kind's statements is common code, not part of the pair
            heads = {h for h in cfg.nodes if h.kind == "for" or (h.kind == "test" and isinstance(getattr(h, "owner", None), ast.While))}

            def same_iteration(srcs):
                seen, todo = set(), list(srcs)
                while todo:
                    x = todo.pop()
                    for y in cfg.g.successors(x):
                        if y not in seen and y not in heads:
                            seen.add(y)
                            todo.append(y)
                return seen

            reach_inc = same_iteration(inc)
            reach_dec = same_iteration(dec)
            inc_only = [x for x in inc if x not in reach_dec]
            dec_only = [x for x in dec if x not in reach_inc]
            if not inc_only or not dec_only:
                continue
            n += 1
            def temps(nds):
                return {t.id for x in nds for t in ast.walk(x.ast) if isinstance(t, ast.Name) and isinstance(t.ctx, ast.Store)}

            # a temporary introduced inside one side (`previous = subs[f]; … Minus(previous, v)`) is not an operand
            a = _read_paths([x.ast for x in inc_only]) - temps(inc_only)
            b = _read_paths([x.ast for x in dec_only]) - temps(dec_only)
            ok = a == b
            first = min(dec_only, key=lambda x: getattr(x.ast, "lineno", 0))
            rep.check(ok, rule, f"what is done for a decrease of `{recv}` reads what is done for an increase reads", f.loc(first.ast), construct=f"{recv}.is_increase() / {recv}.is_decrease(): " + ("same operands" if ok else f"only one side reads {sorted(a ^ b)}"), detail="" if ok else "the two kinds of numeric update are compiled from different operands: one of them drops what the other accumulates (an earlier update of the same fluent, a condition, a timing), so a plan whose durative action both increases and decreases a fluent is converted for one kind and corrupted for the other", function=f.qualname)
    return n


def size_fixpoint_loops(rep: Report, rule: str, funcs: List[FuncInfo]) -> int:
    """`while after > before:` loops that iterate until a collection stops growing: both measures are `len()` of the
    same collection, `before` taken before the pass touches it and `after` when the pass is over."""
    n = 0
    for f in funcs:
        for w in walk_no_nested(f.node):
            if not (isinstance(w, ast.While) and isinstance(w.test, ast.Compare) and len(w.test.ops) == 1 and isinstance(w.test.left, ast.Name) and isinstance(w.test.comparators[0], ast.Name) and isinstance(w.test.ops[0], (ast.Gt, ast.Lt, ast.NotEq))):
                continue
            l, r = w.test.left.id, w.test.comparators[0].id
            after, before = (l, r) if not isinstance(w.test.ops[0], ast.Lt) else (r, l)
            asg = {after: [], before: []}
            for pos, st in enumerate(w.body):
                for a in ast.walk(st):
                    if isinstance(a, ast.Assign) and len(a.targets) == 1 and isinstance(a.targets[0], ast.Name) and a.targets[0].id in asg:
                        asg[a.targets[0].id].append((pos, st is a, a))
            if not asg[after] or not asg[before]:
                continue
            lens = [a.value for v in asg.values() for _, _, a in v if isinstance(a.value, ast.Call) and call_name(a.value) == "len" and len(a.value.args) == 1]
            if not lens:
                continue  # not a loop on the size of a collection
            n += 1
            coll = norm(lens[0].args[0])
            def is_len(a):
                return isinstance(a.value, ast.Call) and call_name(a.value) == "len" and len(a.value.args) == 1 and norm(a.value.args[0]) == coll
            problems = []
            for nm in (before, after):
                for pos, top, a in asg[nm]:
                    if not is_len(a):
                        problems.append(f"{nm} = {norm(a.value)} is not len({coll})")
                    elif not top:
                        problems.append(f"{nm} is measured inside a nested block")
            touches = [pos for pos, st in enumerate(w.body) if any(isinstance(c, ast.Call) and isinstance(c.func, ast.Attribute) and norm(c.func.value) == coll and c.func.attr in ("add", "update", "append", "extend", "insert", "setdefault", "__setitem__") for c in ast.walk(st)) or any(isinstance(t, ast.Subscript) and isinstance(t.ctx, ast.Store) and norm(t.value) == coll for t in ast.walk(st))]
            if touches and not problems:
                if any(pos > min(touches) for pos, _, _ in asg[before]):
                    problems.append(f"{before} is measured after the pass has started to extend {coll}")
                if any(pos < max(touches) for pos, _, _ in asg[after]):
                    problems.append(f"{after} is measured before the pass has finished to extend {coll}")
            ok = not problems
            rep.check(ok, rule, f"the loop runs until a whole pass leaves `{coll}` unchanged", f.loc(w), construct=f"while {norm(w.test)}: " + (f"{before} = len({coll}) … {after} = len({coll})" if ok else "; ".join(problems)), detail="" if ok else f"the loop is meant to stop when a pass adds nothing to {coll}; with this measure it can stop although the last pass did add elements, and the elements only a further pass would find (dependencies listed before what they depend on) are missing from the result", function=f.qualname)
    return n


def c28(idx: Index, rep: Report, tier: str) -> None:
    """plan_back_conversion_callable evaluates fluent-dependent duration bounds in a simulated state; the state must
    be advanced once per plan step: no path through the body of the loop over the plan's actions may return to the
    loop head without passing through `state = simulator.apply(state, …)`."""
    rule = "C28.4 T2 state-advanced-every-step"
    f = idx.func("engines.compilers.timed_to_sequential.plan_back_conversion_callable")
    cfg = cfg_of(f)
    advances = {nd for nd, c in cfg_nodes_with_call(cfg, "apply") if isinstance(nd.ast, ast.Assign) and nd.kind == "stmt"}
    advances |= {nd for nd, c in cfg_nodes_with_call(cfg, "apply_unsafe") if isinstance(nd.ast, ast.Assign) and nd.kind == "stmt"}
    if not advances:
        raise AnalysisError(f"{rule}: no `state = simulator.apply(…)` in plan_back_conversion_callable")
    n = 0
    for l in cfg.nodes:
        if l.kind != "for":
            continue
        body_nodes = [nd for nd in cfg.nodes if nd.ast is not None and any(x is nd.ast for s in l.owner.body for x in ast.walk(s))]
        if not any(nd in advances for nd in body_nodes):
            continue
        n += 1
        first = [s for s in cfg.g.successors(l) if cfg.g[l][s].get("label") is True or (isinstance(cfg.g[l][s].get("label"), tuple) and True in cfg.g[l][s].get("label"))]
        w = None
        for s in first:
            if s not in advances:
                w = w or cfg.path_avoiding(s, l, advances)
        rep.check(w is None, rule, "every iteration over the plan's actions advances the simulated state", f.loc(l.owner), construct=f"for {norm(l.owner.target)} in {norm(l.owner.iter)[:40]}: " + ("every path applies the action" if w is None else "a path skips simulator.apply"), detail="" if w is None else "an iteration can end (continue / fall through) without applying the action to the simulated state: the duration bounds of the following durative actions are evaluated in a stale state and the reconstructed plan is rejected by the time-triggered validator", function=f.qualname, path=path_text(w) if w else None)
    rep.count("plan_loops_with_state", n)
    rep.require_min(rule, "plan_loops_with_state", 1)

    rule_t = "C28.5 sibling increase-decrease-branches-agree"
    tts = [fi for fi in idx.all_funcs() if fi.module.name == "unified_planning.engines.compilers.timed_to_sequential"]
    nt = increase_decrease_twins(rep, rule_t, tts)
    rep.count("increase_decrease_pairs", nt)
    rep.require_min(rule_t, "increase_decrease_pairs", 3)

    # end-time expressions are read *after* the start effects: whatever is derived from an end effect's value or
    # condition and is tested or compared with the action's preconditions has gone through
    # `.substitute(start_effects_subs)` — also in the test that decides to drop a redundant effect
    rule_s = "C28.7 def-use end-expressions-are-read-after-the-start-effects"
    comp = idx.func("engines.compilers.timed_to_sequential.TimedToSequential._compile")
    ccfg = cfg_of(comp)
    cdu = DefUse(ccfg)
    ns = 0
    # the end-effect variables, recognised by role: loop targets whose .value / .condition is substituted somewhere
    loop_targets = {l.target.id for l in walk_no_nested(comp.node) if isinstance(l, ast.For) and isinstance(l.target, ast.Name)}
    end_vars = set()
    for c in walk_no_nested(comp.node):
        if isinstance(c, ast.Call) and call_name(c) == "substitute" and isinstance(c.func, ast.Attribute):
            recv = c.func.value
            if isinstance(recv, ast.Attribute) and recv.attr in ("value", "condition") and isinstance(recv.value, ast.Name) and recv.value.id in loop_targets:
                end_vars.add(recv.value.id)
    if not end_vars:
        raise AnalysisError(f"{rule_s}: no effect variable whose value / condition is substituted in TimedToSequential._compile")
    for nd in ccfg.nodes:
        if nd.kind != "test" or nd.ast is None:
            continue
        for x in ast.walk(nd.ast):
            if not (isinstance(x, ast.Name) and isinstance(x.ctx, ast.Load)):
                continue
            src = cdu.sources(x, nd)
            from_end = [c for c in src if len(c) >= 2 and c[0] in end_vars and c[1] in ("value", "condition")]
            if not from_end:
                continue
            ns += 1
            ok = any(len(c) >= 3 and c[0] in end_vars and c[2].rstrip("()") == "substitute" for c in src)
            rep.check(ok, rule_s, f"`{x.id}` is tested with the start effects applied", comp.loc(nd.ast), construct=f"{norm(nd.ast)[:60]}: {x.id} " + ("derives from <end effect>.….substitute(…)" if ok else "derives from the end effect without substitution"), detail="" if ok else "the decision (e.g. to drop an end effect that a precondition already implies) is taken on the expression as written, before the start effects: when a start effect changes a fluent of that expression the effect is dropped although it writes a different value, and the compiled plan maps back to a plan the validator rejects", function=comp.qualname)
            break
    rep.count("end_expression_tests", ns)
    rep.require_min(rule_s, "end_expression_tests", 2)

    rule_g = "C28.6 def-use state-lookups-take-ground-expressions"
    ng = state_lookups_ground(rep, rule_g, tts)
    rep.count("state_lookups", ng)
    rep.require_min(rule_g, "state_lookups", 2)


# ------------------------------------------------------------------------------------ C20
ATOM_CONSTRUCTORS = {"int": "Int", "real": "Real", "boolean": "Bool"}


def _decide(test: ast.AST, var: str, val: str) -> Optional[bool]:
    """Truth of a test over `var` when var == val (None: not decidable)."""
    if isinstance(test, ast.Compare) and len(test.ops) == 1 and isinstance(test.left, ast.Name) and test.left.id == var:
        c = test.comparators[0]
        op = test.ops[0]
        if isinstance(c, ast.Constant) and isinstance(op, (ast.Eq, ast.NotEq)):
            return (c.value == val) == isinstance(op, ast.Eq)
        if isinstance(c, (ast.Tuple, ast.List, ast.Set)) and all(isinstance(e, ast.Constant) for e in c.elts) and isinstance(op, (ast.In, ast.NotIn)):
            return (val in [e.value for e in c.elts]) == isinstance(op, ast.In)
    if isinstance(test, ast.UnaryOp) and isinstance(test.op, ast.Not):
        r = _decide(test.operand, var, val)
        return None if r is None else not r
    return None


def _returns_under(stmts: List[ast.stmt], var: str, val: str, env: Dict[str, ast.AST]) -> Tuple[List[Tuple[ast.Return, Dict[str, ast.AST]]], bool]:
    """(returns reached when var == val with the bindings seen on the way, whether the block can fall through)"""
    out: List[Tuple[ast.Return, Dict[str, ast.AST]]] = []
    for s in stmts:
        if isinstance(s, ast.Return):
            out.append((s, dict(env)))
            return out, False
        if isinstance(s, ast.Raise):
            return out, False
        if isinstance(s, ast.Assign):
            for t in s.targets:
                for x in ast.walk(t):
                    if isinstance(x, ast.Name):
                        env[x.id] = s.value
        if isinstance(s, ast.If):
            d = _decide(s.test, var, val)
            falls = []
            for branch, taken in ((s.body, d is not False), (s.orelse, d is not True)):
                if not taken:
                    continue
                e2 = dict(env)
                r, ft = _returns_under(branch, var, val, e2)
                out += r
                falls.append((ft, e2))
            if not any(ft for ft, _ in falls):
                return out, False
            for ft, e2 in falls:
                if ft:
                    env.update(e2)
    return out, True


def atom_constructors_agree(idx: Index, rep: Report, rule: str) -> None:
    """Writer and reader of protobuf atoms agree on the node kind: the writer emits Atom(int=…) for int constants,
    Atom(real=…) for real constants, Atom(boolean=…) for Boolean constants; the reader must build the node of the
    same kind with the typed constructor (Int / Real / Bool). A normalising constructor (auto_promote) turns
    Real(4/1) into Int(4): a different node, so the object read back is not equal to the one written."""
    rd = idx.func("grpc.proto_reader.ProtobufReader._convert_atom")
    which = [a for a in walk_no_nested(rd.node) if isinstance(a, ast.Assign) and isinstance(a.value, ast.Call) and call_name(a.value) == "WhichOneof" and isinstance(a.targets[0], ast.Name)]
    if not which:
        raise AnalysisError(f"{rule}: _convert_atom no longer dispatches on WhichOneof")
    var = which[0].targets[0].id
    wr = idx.module("grpc.proto_writer")
    emitted = set()
    for f in idx.all_funcs():
        if f.module is wr:
            for c in walk_no_nested(f.node):
                if isinstance(c, ast.Call) and norm(c.func).endswith("Atom"):
                    emitted |= {k.arg for k in c.keywords if k.arg}
    n = 0
    for fld, ctor in ATOM_CONSTRUCTORS.items():
        if fld not in emitted:
            raise AnalysisError(f"{rule}: the writer no longer emits Atom({fld}=…)")
        rets, falls = _returns_under(rd.node.body, var, fld, {})
        n += 1
        if not rets:
            rep.bad(rule, f"Atom.{fld} is read back with {ctor}()", rd.loc(), construct=f"no return for field == '{fld}'", detail="the reader has no case for this atom kind", function=rd.qualname)
            continue
        for r, env in rets:
            v = r.value
            seen = 0
            while isinstance(v, ast.Name) and v.id in env and seen < 5:
                v = env[v.id]
                seen += 1
            got = call_name(v) if isinstance(v, ast.Call) else norm(v)[:40] if v is not None else "None"
            # auto_promote is exact for Python ints and bools; it normalises Fractions (denominator 1 -> int)
            ok = got == ctor or (got == "auto_promote" and fld in ("int", "boolean"))
            rep.check(ok, rule, f"Atom.{fld} is read back with {ctor}()", rd.loc(r), construct=f"field == '{fld}' -> {got}(…)", detail="" if ok else f"the writer emits Atom({fld}=…) for {ctor} constants but the reader builds the node with `{got}`: a constructor that normalises its argument (auto_promote maps Fraction(4, 1) to the int 4) returns a node of another kind, and the expression read back differs from the one written", function=rd.qualname, strict=(got == "auto_promote"))
    rep.count("atom_kinds", n)


def keyword_attribute_crossing(rep: Report, rule: str, funcs: List[FuncInfo]) -> int:
    """In a call that copies sibling fields keyword by keyword (is_left_open=msg.is_left_open,
    is_right_open=msg.is_right_open, lower=…, upper=…), a keyword k whose value reads the field named like *another*
    keyword of the same call is a copy-paste crossing: two keywords then carry the same field and one field is lost."""
    n = 0
    for f in funcs:
        for c in walk_no_nested(f.node):
            if not isinstance(c, ast.Call) or len(c.keywords) < 2:
                continue
            kws = {k.arg for k in c.keywords if k.arg}
            reads: Dict[str, str] = {}
            for k in c.keywords:
                if not k.arg:
                    continue
                last = [x.attr for x in ast.walk(k.value) if isinstance(x, ast.Attribute)]
                # the terminal attribute of the value expression (outermost attribute chain)
                v = k.value
                while isinstance(v, ast.Call) and len(v.args) == 1 and not v.keywords and isinstance(v.func, ast.Name):
                    v = v.args[0]  # bool(x), int(x), str(x)
                if isinstance(v, ast.Attribute):
                    reads[k.arg] = v.attr
            if len(reads) < 2:
                continue
            same = [k for k, a in reads.items() if a == k]
            if not same:
                continue  # not a field-by-field copy
            n += 1
            crossed = [(k, a) for k, a in reads.items() if a != k and a in kws]
            rep.check(not crossed, rule, f"{f.short}: every keyword of the field-by-field copy reads its own field", f.loc(c), construct=f"{norm(c.func)[-40:]}({', '.join(sorted(reads))})" + ("" if not crossed else f": {crossed[0][0]}=….{crossed[0][1]}"), detail="" if not crossed else f"`{crossed[0][0]}` is filled from the field `{crossed[0][1]}`, which another keyword of the same call already carries: the value of `{crossed[0][0]}` is lost in the round trip", function=f.qualname)
    return n


def sibling_calls_forward_same_fields(rep: Report, rule: str, f: FuncInfo, callees) -> int:
    """Within one function, the sibling calls add_effect / add_increase_effect / add_decrease_effect that copy an
    effect message field by field forward the same fields of it (a call that omits one — `forall` — loses it)."""
    groups: Dict[int, List[Tuple[ast.Call, frozenset, str]]] = {}
    for c in walk_no_nested(f.node):
        if not (isinstance(c, ast.Call) and call_name(c) in callees):
            continue
        fields: Dict[str, Set[str]] = {}
        for a in list(c.args) + [k.value for k in c.keywords]:
            if isinstance(a, ast.Attribute) and isinstance(a.value, ast.Name):
                fields.setdefault(a.value.id, set()).add(a.attr)
        if not fields:
            continue
        var, attrs = max(fields.items(), key=lambda kv: len(kv[1]))
        if len(attrs) < 2:
            continue
        groups.setdefault(len(c.args) - len(attrs), []).append((c, frozenset(attrs), var))
    n = 0
    for _, calls in groups.items():
        if len(calls) < 2:
            continue
        union = frozenset().union(*[a for _, a, _ in calls])
        for c, attrs, var in calls:
            n += 1
            missing = sorted(union - attrs)
            rep.check(not missing, rule, f"{f.short}: {call_name(c)}(…) forwards the same fields of `{var}` as its siblings", f.loc(c), construct=f"{call_name(c)}({', '.join(sorted(attrs))})" + ("" if not missing else f" without {missing}"), detail="" if not missing else f"the other calls of this function copy {missing} from the message as well: here it is dropped, so an effect of this kind is read back without it (a quantified effect loses its variables)", function=f.qualname)
    return n


def c20(idx: Index, rep: Report, tier: str) -> None:
    atom_constructors_agree(idx, rep, "C20.5 T7 atom-constructors-agree")
    k = sibling_calls_forward_same_fields(rep, "C20.8 T17 sibling-calls-forward-same-fields", idx.func("grpc.proto_reader.ProtobufReader._convert_action"), ("add_effect", "add_increase_effect", "add_decrease_effect"))
    rep.count("effect_copy_calls", k)
    rep.require_min("C20.8 T17 sibling-calls-forward-same-fields", "effect_copy_calls", 6)
    # a delay is signed: "has a delay" is `!= 0`, never a one-sided comparison
    rule7 = "C20.7 T16 delay-compared-with-zero-by-equality"
    n7 = 0
    for f in [x for x in idx.all_funcs() if x.module.name in ("unified_planning.grpc.proto_writer", "unified_planning.grpc.proto_reader")]:
        for c in walk_no_nested(f.node):
            if isinstance(c, ast.Compare) and len(c.ops) == 1 and any(isinstance(x, ast.Attribute) and x.attr == "delay" for x in (c.left, c.comparators[0])) and any(isinstance(x, ast.Constant) and x.value == 0 for x in (c.left, c.comparators[0])):
                n7 += 1
                ok = isinstance(c.ops[0], (ast.Eq, ast.NotEq))
                rep.check(ok, rule7, f"{f.short}: a delay is compared with zero by (in)equality", f.loc(c), construct=norm(c), detail="" if ok else "a negative delay (`end - 3`) falls on the no-delay side of a one-sided comparison: it is written without its delay and read back as the bare timepoint", function=f.qualname)
    rep.count("delay_tests", n7)
    rep.require_min(rule7, "delay_tests", 1)
    rule = "C20.6 T21 keyword-field-crossing"
    funcs = [f for f in idx.all_funcs() if f.module.name in ("unified_planning.grpc.proto_reader", "unified_planning.grpc.proto_writer")]
    n = keyword_attribute_crossing(rep, rule, funcs)
    rep.count("field_by_field_copies", n)
    rep.require_min(rule, "field_by_field_copies", 3)
    fx = ast.parse("def f(m):\n    return I(lower=m.lower, upper=m.upper, is_left_open=bool(m.is_left_open), is_right_open=bool(m.is_left_open))").body[0]
    class _F:  # minimal stand-in for FuncInfo
        node = fx; short = "fixture"; qualname = "fixture"
        def loc(self, n=None):
            return "fixture:1"
    probe = Report("FIXTURE", "quick", 0)
    keyword_attribute_crossing(probe, rule, [_F()])
    if not any(not o.ok for o in probe.obligations):
        raise AnalysisError(f"{rule}: positive fixture no longer fires")


# ------------------------------------------------------------------------------------ C17
def c17_leftover(idx: Index, rep: Report) -> None:
    leftover_loop_variables(idx, rep, "C17.4 leftover-loop-variable", ("unified_planning.model.problem", "unified_planning.model.walkers.linear_checker", "unified_planning.model.mixins"))


def c17(idx: Index, rep: Report, tier: str) -> None:
    """The sign analysis of a product must not depend on the order of its factors: inside the loop over the
    arguments, the accumulated positive / negative fluent sets may only grow (|=, update, add). Rebinding one
    accumulator from another inside that loop (a swap on a negative factor) affects only the fluents collected so far,
    so `p * f` and `f * p` (p negative) get different answers."""
    rule = "C17.3 accumulation-order-independent"
    lc = idx.cls("model.walkers.linear_checker.LinearChecker")
    n = 0
    for m in lc.methods.values():
        if not m.name.startswith("walk_"):
            continue
        for loop in [l for l in walk_no_nested(m.node) if isinstance(l, ast.For)]:
            acc = set()
            for x in ast.walk(loop):
                if isinstance(x, ast.AugAssign) and isinstance(x.op, ast.BitOr) and isinstance(x.target, ast.Name):
                    acc.add(x.target.id)
                if isinstance(x, ast.Call) and isinstance(x.func, ast.Attribute) and x.func.attr in ("update", "add") and isinstance(x.func.value, ast.Name):
                    acc.add(x.func.value.id)
            if len(acc) < 2:
                continue
            n += 1
            bad = None
            for x in ast.walk(loop):
                if isinstance(x, ast.Assign):
                    tnames = {t.id for tt in x.targets for t in ast.walk(tt) if isinstance(t, ast.Name)}
                    vnames = {v.id for v in ast.walk(x.value) if isinstance(v, ast.Name)}
                    if tnames & acc and (vnames & acc) - tnames or (len(tnames & acc) >= 2 and len(vnames & acc) >= 2):
                        bad = x
            rep.check(bad is None, rule, f"{m.name}: the accumulated fluent sets only grow inside the loop over the arguments", m.loc(bad) if bad is not None else m.loc(loop), construct=f"accumulators {sorted(acc)}" + ("" if bad is None else f"; rebound by `{norm(bad)[:60]}`"), detail="" if bad is None else "an accumulator is rebound from another one while the arguments are still being visited: the exchange reaches only the fluents of the factors seen so far, so the reported sign depends on where the negative factor stands in the product", function=m.qualname)
    rep.count("accumulating_loops", n)
    rep.require_min(rule, "accumulating_loops", 2)
    c17_leftover(idx, rep)


# ------------------------------------------------------------------------------------ C25
def c25(idx: Index, rep: Report, tier: str) -> None:
    """The incremental consistency check is label-correcting: an event whose distance improves must be expanded again
    even if it was expanded before. A membership filter in front of `queue.append` is sound only if the element is
    removed from the filter when it is popped."""
    rule = "C25.4 requeue-not-filtered"
    cls = idx.cls("model.delta_stn.DeltaSimpleTemporalNetwork")
    # every arc that enters the network is propagated: from the store of the new arc no path leaves `add` without
    # the incremental check (which lowers the distances of everything reachable and detects a negative cycle)
    rule5 = "C25.5 T2 every-new-arc-is-propagated"
    addf = cls.methods["add"]

    def _arc_sites(fn):
        g = cfg_of(fn)
        st_ = [nd for nd in g.nodes if isinstance(nd.ast, ast.Assign) and isinstance(nd.ast.targets[0], ast.Subscript) and norm(nd.ast.targets[0].value) == "self._constraints" and not (isinstance(nd.ast.value, ast.Constant) and nd.ast.value.value is None)]  # `= None` registers an event, it is no arc
        ch_ = {nd for nd, c in cfg_nodes_with_call(g, "_inc_check")}
        return g, st_, ch_

    acfg, stores, checks = _arc_sites(addf)
    if not stores or not checks:
        # the store of the arc and its propagation may have been extracted together into a private helper of the class
        for c in walk_no_nested(addf.node):
            if isinstance(c, ast.Call) and isinstance(c.func, ast.Attribute) and norm(c.func.value) == "self" and c.func.attr.startswith("_") and c.func.attr in cls.methods and c.func.attr != "_inc_check":
                g2, st2, ch2 = _arc_sites(cls.methods[c.func.attr])
                if st2 and ch2:
                    addf, acfg, stores, checks = cls.methods[c.func.attr], g2, st2, ch2
                    break
    if not stores or not checks:
        raise AnalysisError(f"{rule5}: add() (or a helper it calls) no longer stores an arc / calls _inc_check")
    for st in stores:
        w = acfg.path_avoiding(st, acfg.exit, checks)
        rep.check(w is None, rule5, "a stored arc is followed by the incremental check on every path", addf.loc(st.ast), construct=norm(st.ast)[:60] + (" … self._inc_check(…)" if w is None else " — a path returns without _inc_check"), detail="" if w is None else "an arc is added without propagating it: the distances of the events reachable from its target are not lowered (the reported model violates earlier constraints) and a negative cycle closed by this arc is not detected (an inconsistent network is reported consistent)", function=addf.qualname, path=path_text(w) if w else None)
    rep.count("arc_stores", len(stores))
    n = 0
    for m in cls.methods.values():
        pops = [c for c in walk_no_nested(m.node) if isinstance(c, ast.Call) and isinstance(c.func, ast.Attribute) and c.func.attr in ("popleft", "pop") and isinstance(c.func.value, ast.Name)]
        if not pops:
            continue
        cfg = cfg_of(m)
        queues = {c.func.value.id for c in pops}
        for node, c in cfg_nodes_with_call(cfg, "append"):
            if not (isinstance(c.func.value, ast.Name) and c.func.value.id in queues):
                continue
            n += 1
            filt = []
            for t, outcome in guards_dominating(cfg, node):
                for x in ast.walk(t.ast):
                    if isinstance(x, ast.Compare) and len(x.ops) == 1 and isinstance(x.ops[0], (ast.In, ast.NotIn)) and isinstance(x.comparators[0], ast.Name):
                        S = x.comparators[0].id
                        grows = any(isinstance(k, ast.Call) and isinstance(k.func, ast.Attribute) and k.func.attr in ("add", "append", "update") and norm(k.func.value) == S for k in walk_no_nested(m.node))
                        shrinks = any(isinstance(k, ast.Call) and isinstance(k.func, ast.Attribute) and k.func.attr in ("discard", "remove", "clear", "pop", "difference_update") and norm(k.func.value) == S for k in walk_no_nested(m.node))
                        if grows and not shrinks:
                            filt.append((S, x))
            rep.check(not filt, rule, f"{m.name}: an improved event is always queued again", m.loc(c), construct=norm(c) + ("" if not filt else f" only if `{norm(filt[0][1])}`"), detail="" if not filt else f"`{filt[0][0]}` only grows: an event that was expanded once is never expanded again although its distance improved later, so its successors keep stale distances — the model violates inserted constraints and a negative cycle through that event is missed", function=m.qualname)
    rep.count("queue_insertions", n)
    rep.require_min(rule, "queue_insertions", 1)


# ------------------------------------------------------------------------------------ C31
def c31(idx: Index, rep: Report, tier: str) -> None:
    # (a) the oversubscription search submits every candidate subset to the underlying planner
    rule = "C31.4 T2 every-candidate-is-submitted"
    g = idx.func("engines.oversubscription_planner.OversubscriptionPlanner._solve")
    cfg = cfg_of(g)
    solves = {nd for nd, c in cfg_nodes_with_call(cfg, "solve")}
    if not solves:
        raise AnalysisError(f"{rule}: OversubscriptionPlanner._solve no longer calls the underlying planner")
    n = 0
    for l in cfg.nodes:
        if l.kind != "for" or not any(nd.ast is not None and any(x is nd.ast for s in l.owner.body for x in ast.walk(s)) for nd in solves):
            continue
        n += 1
        first = [s for s in cfg.g.successors(l) if cfg.g[l][s].get("label") is True or (isinstance(cfg.g[l][s].get("label"), tuple) and True in cfg.g[l][s].get("label"))]
        w = None
        for s in first:
            if s not in solves:
                w = w or cfg.path_avoiding(s, l, solves)
        rep.check(w is None, rule, "no goal subset is skipped before it was given to the underlying planner", g.loc(l.owner), construct=f"for {norm(l.owner.target)} in {norm(l.owner.iter)}: " + ("every iteration solves" if w is None else "an iteration can continue without solving"), detail="" if w is None else "a candidate subset is discarded on the strength of an earlier answer; each candidate is solved with the other soft goals *negated*, so the failure of one candidate says nothing about another: the heaviest reachable subset can be skipped and a lighter one reported as SOLVED_OPTIMALLY", function=g.qualname, path=path_text(w) if w else None)
    rep.count("candidate_loops", n)
    rep.require_min(rule, "candidate_loops", 1)

    # (b) the two variants the interpreted-functions remover builds for an expression (values known / unknown) are
    # complementary: the unknown variant requires exactly the negation of what the known variant requires
    rule_b = "C31.5 known-unknown-variants-complementary"
    f = idx.func("engines.compilers.interpreted_functions_remover.InterpretedFunctionsRemover._expand_action")
    nb = 0
    for i in walk_no_nested(f.node):
        if not (isinstance(i, ast.If) and isinstance(i.test, ast.Name) and i.orelse):
            continue
        def cond_appends(stmts):
            out = []
            for st in stmts:
                for c in ast.walk(st):
                    if isinstance(c, ast.Call) and call_name(c) == "append" and c.args and isinstance(c.args[0], ast.Tuple) and len(c.args[0].elts) == 2:
                        out.append(c.args[0].elts[1])
            return out
        pos = [e for e in cond_appends(i.body) if isinstance(e, ast.Call) and call_name(e) == "And" and len(e.args) == 1 and isinstance(e.args[0], ast.Name)]
        if not pos:
            continue
        L = pos[0].args[0].id
        neg = [e for e in cond_appends(i.orelse) if any(isinstance(x, ast.Name) and x.id == L for x in ast.walk(e))]
        loops_over_L = [l for st in i.orelse for l in ast.walk(st) if isinstance(l, ast.For) and norm(l.iter) == L and cond_appends(l.body)]
        nb += 1
        want = f"Not({norm(pos[0]).split('.')[-1]})"
        ok = bool(neg) and not loops_over_L and all(isinstance(e, ast.Call) and call_name(e) == "Not" and len(e.args) == 1 and norm(e.args[0]) == norm(pos[0]) for e in neg)
        rep.check(ok, rule_b, f"the `not {norm(i.test)}` variant requires the negation of what the `{norm(i.test)}` variant requires", f.loc(i), construct=f"{norm(i.test)}: {norm(pos[0])} / else: {'; '.join(norm(e) for e in neg) if neg else ('one condition per element of ' + L if loops_over_L else 'nothing')}", detail="" if ok else f"the two variants do not cover every state: with two interpreted functions in one expression, a state in which one is known and the other is not satisfies neither And({L}) nor the per-element negations, the action disappears from the compiled problem and the meta-engine reports a solvable problem as unsolvable", function=f.qualname)
    rep.count("variant_splits", nb)
    rep.require_min(rule_b, "variant_splits", 1)

    # (c) the set of fluents whose value may come from an interpreted function is a least fixpoint
    rule_c = "C31.6 fixpoint-loop-measures-the-collection"
    ifr = [fi for fi in idx.all_funcs() if fi.module.name == "unified_planning.engines.compilers.interpreted_functions_remover"]
    nc = size_fixpoint_loops(rep, rule_c, ifr)
    rep.count("size_fixpoint_loops", nc)
    rep.require_min(rule_c, "size_fixpoint_loops", 1)

    # (d) "known in one element, unknown in another" is a contradiction only for the *same application* f(args): the
    # bookkeeping of knowledge_compatible is keyed by the expression it iterates over, never by the bare function
    rule_d = "C31.7 def-use knowledge-conflicts-are-per-application"
    kc = idx.func("engines.compilers.interpreted_functions_remover.knowledge_compatible")
    kcfg = cfg_of(kc)
    kdu = DefUse(kcfg)
    nd_ = 0
    for nd, c in cfg_nodes_with_call(kcfg, "append"):
        if not (c.args and isinstance(c.args[0], ast.Tuple) and len(c.args[0].elts) == 2):
            continue
        nd_ += 1
        src = kdu.sources(c.args[0].elts[1], nd)
        through_fun = any(any(seg.rstrip("()") == "interpreted_function" for seg in ch) for ch in src)
        rep.check(not through_fun, rule_d, "the recorded key is the application, not its function symbol", kc.loc(c), construct=norm(c)[:70] + ("" if not through_fun else " — keyed by .interpreted_function()"), detail="" if not through_fun else "two different applications of one interpreted function (score(a) known, score(b) unknown) are taken for a contradiction: the variant of the action that mixes them is not generated, the compiled problem loses the plans that need it and the meta-engine reports a solvable problem as unsolvable", function=kc.qualname)
    rep.count("knowledge_keys", nd_)
    rep.require_min(rule_d, "knowledge_keys", 2)


# ------------------------------------------------------------------------------------ C33
class _SetInterp:
    """Concrete interpreter for the fragment the upgrade functions are written in: sets of feature names, membership
    tests, copy / update / add / discard / remove / difference_update, if / elif / else, return. Finite: it is run on
    every subset of the feature names the function mentions."""

    class Unsupported(Exception):
        pass

    def __init__(self, fn: ast.FunctionDef):
        self.fn = fn

    def run(self, arg: frozenset) -> frozenset:
        env = {self.fn.args.args[0].arg: set(arg)}
        r = self._block(self.fn.body, env)
        if r is None:
            raise self.Unsupported("no return")
        return frozenset(r)

    def _block(self, stmts, env):
        for s in stmts:
            if isinstance(s, ast.Expr) and isinstance(s.value, ast.Constant):
                continue
            if isinstance(s, ast.Return):
                return self._expr(s.value, env)
            if isinstance(s, (ast.Assign, ast.AnnAssign)):
                tg = s.targets[0] if isinstance(s, ast.Assign) else s.target
                if not isinstance(tg, ast.Name):
                    raise self.Unsupported(norm(s))
                env[tg.id] = self._expr(s.value, env)
            elif isinstance(s, ast.AugAssign) and isinstance(s.target, ast.Name) and isinstance(s.op, (ast.BitOr, ast.Sub, ast.BitAnd)):
                a, b = env[s.target.id], self._expr(s.value, env)
                env[s.target.id] = a | b if isinstance(s.op, ast.BitOr) else (a - b if isinstance(s.op, ast.Sub) else a & b)
            elif isinstance(s, ast.If):
                r = self._block(s.body if self._truth(s.test, env) else s.orelse, env)
                if r is not None:
                    return r
            elif isinstance(s, ast.Expr):
                self._expr(s.value, env)
            elif isinstance(s, (ast.Pass, ast.Assert)):
                continue
            else:
                raise self.Unsupported(type(s).__name__)
        return None

    def _truth(self, t, env) -> bool:
        if isinstance(t, ast.BoolOp):
            vals = [self._truth(v, env) for v in t.values]
            return all(vals) if isinstance(t.op, ast.And) else any(vals)
        if isinstance(t, ast.UnaryOp) and isinstance(t.op, ast.Not):
            return not self._truth(t.operand, env)
        if isinstance(t, ast.Compare) and len(t.ops) == 1 and isinstance(t.ops[0], (ast.In, ast.NotIn)):
            l, r = self._expr(t.left, env), self._expr(t.comparators[0], env)
            return (l in r) == isinstance(t.ops[0], ast.In)
        v = self._expr(t, env)
        return bool(v)

    def _bind(self, target, value, env):
        if isinstance(target, ast.Name):
            env[target.id] = value
        elif isinstance(target, (ast.Tuple, ast.List)):
            vals = list(value)
            if len(vals) != len(target.elts):
                raise _Raised("ValueError: unpacking arity")
            for t, v in zip(target.elts, vals):
                self._bind(t, v, env)
        else:
            raise self.Unsupported("binding target " + type(target).__name__)

    def _expr(self, e, env):
        if isinstance(e, ast.Constant):
            return e.value
        if isinstance(e, ast.Name):
            if e.id in env:
                return env[e.id]
            raise self.Unsupported("name " + e.id)
        if isinstance(e, (ast.Set, ast.List, ast.Tuple)):
            return {self._expr(x, env) for x in e.elts}
        if isinstance(e, ast.BinOp) and isinstance(e.op, (ast.BitOr, ast.Sub, ast.BitAnd)):
            a, b = self._expr(e.left, env), self._expr(e.right, env)
            return a | b if isinstance(e.op, ast.BitOr) else (a - b if isinstance(e.op, ast.Sub) else a & b)
        if isinstance(e, ast.Call) and isinstance(e.func, ast.Name) and e.func.id in ("set", "frozenset") and len(e.args) <= 1:
            return set(self._expr(e.args[0], env)) if e.args else set()
        if isinstance(e, ast.Call) and isinstance(e.func, ast.Attribute):
            base = self._expr(e.func.value, env)
            args = [self._expr(a, env) for a in e.args]
            m = e.func.attr
            if not isinstance(base, set):
                raise self.Unsupported(norm(e)[:50])
            if m == "copy":
                return set(base)
            if m in ("update", "difference_update", "intersection_update"):
                for a in args:
                    if m == "update":
                        base |= set(a)
                    elif m == "difference_update":
                        base -= set(a)
                    else:
                        base &= set(a)
                return None
            if m == "add":
                base.add(args[0])
                return None
            if m in ("discard", "remove"):
                base.discard(args[0])
                return None
            if m in ("union", "difference", "intersection"):
                out = set(base)
                for a in args:
                    out = out | set(a) if m == "union" else (out - set(a) if m == "difference" else out & set(a))
                return out
        raise self.Unsupported(norm(e)[:50])


def c33(idx: Index, rep: Report, tier: str) -> None:
    import itertools

    # (a) upgrading preserves <=: every upgrade function is monotone on feature sets
    rule = "C33.4 T15 upgrade-monotone"
    vm = idx.module("model.problem_kind_versioning")
    ufm = vm.assigns.get("upgrade_functions_map")
    if not isinstance(ufm, ast.Dict):
        raise AnalysisError(f"{rule}: upgrade_functions_map is not a dict display")
    n = 0
    for v in ufm.values:
        name = norm(v)
        uf = vm.functions.get(name)
        if uf is None:
            rep.inconclusive(rule, f"{name}: not a function of the module", "unified_planning/model/problem_kind_versioning.py:1")
            continue
        n += 1
        tested = sorted({x.left.value for x in ast.walk(uf.node) if isinstance(x, ast.Compare) and isinstance(x.left, ast.Constant) and isinstance(x.left.value, str) and isinstance(x.ops[0], (ast.In, ast.NotIn))})
        if len(tested) > 12:
            rep.inconclusive(rule, f"{name}: tests {len(tested)} features, too many to enumerate", uf.loc(), function=uf.qualname)
            continue
        interp = _SetInterp(uf.node)
        subsets = [frozenset(c) for k in range(len(tested) + 1) for c in itertools.combinations(tested, k)]
        try:
            image = {a: interp.run(a) for a in subsets}
        except _SetInterp.Unsupported as u:
            rep.inconclusive(rule, f"{name}: not interpretable ({u})", uf.loc(), function=uf.qualname)
            continue
        witness = None
        for a in subsets:
            for b in subsets:
                if a < b and not image[a] <= image[b]:
                    witness = witness or (a, b)
        rep.check(witness is None, rule, f"{name} is monotone: A <= B implies {name}(A) <= {name}(B)", uf.loc(), construct=f"{name}: {len(subsets)} feature sets over {tested}" if witness is None else f"{name}({sorted(witness[0])}) = {sorted(image[witness[0]])} is not contained in {name}({sorted(witness[1])}) = {sorted(image[witness[1]])}", detail="" if witness is None else "two kinds ordered by <= in the old version are no longer ordered after the upgrade: comparing either of them with a newer kind gives answers that contradict their own order (transitivity across versions is lost)", function=uf.qualname)
    rep.count("upgrade_functions", n)
    rep.require_min(rule, "upgrade_functions", 2)

    # (b) the order, the equality and the hash decide on the same data: the features valid in the version
    from ..dataflow import reaching_defs

    rule_b = "C33.5 decisions-read-valid-features-only"
    pk = idx.cls("model.problem_kind.ProblemKind")
    nb = 0
    for mname in ("__le__", "__eq__", "__hash__"):
        m = pk.methods.get(mname)
        if m is None:
            raise AnalysisError(f"{rule_b}: ProblemKind.{mname} vanished")
        cfg = cfg_of(m)
        rd = reaching_defs(cfg)
        raw_defs = set()
        for nd in cfg.nodes:
            if nd.kind == "stmt" and isinstance(nd.ast, ast.Assign):
                v = nd.ast.value
                if (isinstance(v, ast.Call) and call_name(v) == "equalize_versions") or (isinstance(v, ast.Attribute) and v.attr in ("_features", "features")):
                    raw_defs.add(nd)

        def raw_reads(expr: ast.AST, at) -> List[str]:
            """names / attributes holding unfiltered features that `expr` reads outside a filtering call"""
            out: List[str] = []

            def visit(e, filtered):
                if isinstance(e, ast.Call) and isinstance(e.func, ast.Attribute) and e.func.attr in ("intersection", "__and__"):
                    visit(e.func.value, True)
                    for a in e.args:
                        visit(a, True)
                    return
                if isinstance(e, ast.BinOp) and isinstance(e.op, ast.BitAnd):
                    visit(e.left, True)
                    visit(e.right, True)
                    return
                if isinstance(e, ast.Attribute) and e.attr in ("_features", "features") and not filtered:
                    out.append(norm(e))
                    return
                if isinstance(e, ast.Name) and not filtered and any(d in raw_defs for d in rd[at].get(e.id, ())):
                    # the third component of equalize_versions is the version, not a feature set
                    for d in rd[at].get(e.id, ()):
                        if d in raw_defs and isinstance(d.ast.targets[0], ast.Tuple):
                            names = [norm(x) for x in d.ast.targets[0].elts]
                            if names.index(e.id) >= 2:
                                return
                    out.append(e.id)
                    return
                for ch in ast.iter_child_nodes(e):
                    visit(ch, filtered)

            visit(expr, False)
            return out

        for nd in cfg.nodes:
            if nd.ast is None or nd.kind not in ("test", "return"):
                continue
            expr = nd.ast.value if nd.kind == "return" else nd.ast
            if expr is None:
                continue
            nb += 1
            bad = raw_reads(expr, nd)
            rep.check(not bad, rule_b, f"{mname}: `{norm(expr)[:50]}` depends on the valid features only", m.loc(nd.ast), construct=f"{norm(expr)[:80]}" + ("" if not bad else f" reads unfiltered {sorted(set(bad))}"), detail="" if not bad else "a decision of the order / equality / hash looks at the raw feature set, deprecated features included, while == ignores them: two equal kinds are then ordered differently (a == b, b <= a, not a <= b)", function=m.qualname)
    rep.count("decisions", nb)
    rep.require_min(rule_b, "decisions", 5)

    # (c) the features valid in a version: introduced by then and not yet deprecated — the helper is interpreted on
    # every version with the repository's own tables
    rule_c = "C33.6 T15 valid-features-per-version"
    from ..kinddsl import KindTables

    tables = KindTables(idx)
    pkm = idx.module("model.problem_kind")
    gv = pkm.functions.get("get_valid_features")
    if gv is None:
        raise AnalysisError(f"{rule_c}: get_valid_features vanished")
    interp = _OrderInterp(gv.node)
    all_feats = sorted({f for fs in tables.features.values() for f in fs})
    versions = dict(tables.versions)
    nc = 0
    try:
        for v in range(1, tables.latest + 2):
            env = {gv.node.args.args[0].arg: v, "all_features": list(all_feats), "FEATURES_VERSIONS": dict(versions)}
            try:
                interp._block(gv.node.body, env)
                got = None
            except _Returned as r:
                got = set(r.value)
            want = {f for f in all_feats if versions.get(f, (1, None))[0] <= v and (versions.get(f, (1, None))[1] is None or v < versions.get(f, (1, None))[1])}
            nc += 1
            ok = got == want
            diff = sorted((got or set()) ^ want)[:4]
            rep.check(ok, rule_c, f"get_valid_features({v}) is the set of features introduced by version {v} and not deprecated by then", gv.loc(), construct=f"version {v}: {len(want)} features" + ("" if ok else f"; differs on {diff}"), detail="" if ok else "a deprecated feature counts as valid again in a later version (or a feature is valid before it was introduced): kinds that are equal in one version stop being equal after an upgrade, so upgrading does not preserve <=", function=gv.qualname)
    except _OrderInterp.Unsupported as u:
        rep.inconclusive(rule_c, f"get_valid_features is not interpretable ({u})", gv.loc(), function=gv.qualname)
    rep.count("versions_checked", nc)

    # (d) a value memoised from the feature set is dropped by every method that changes the feature set
    rule_d = "C33.7 derived-caches-invalidated-by-every-mutator"
    def memo_fields(cls_node):
        out = {}
        for m in [x for x in ast.walk(cls_node) if isinstance(x, (ast.FunctionDef, ast.AsyncFunctionDef))]:
            if m.name in ("__init__", "__setstate__"):
                continue
            reads = {x.attr for x in ast.walk(m) if isinstance(x, ast.Attribute) and norm(x.value) == "self" and isinstance(x.ctx, ast.Load)}
            for a in ast.walk(m):
                if isinstance(a, ast.Assign) and isinstance(a.targets[0], ast.Attribute) and norm(a.targets[0].value) == "self" and a.targets[0].attr in reads and not (isinstance(a.value, ast.Constant) and a.value.value is None) and any(isinstance(r, ast.Return) and isinstance(r.value, ast.Attribute) and r.value.attr == a.targets[0].attr for r in ast.walk(m)):
                    out.setdefault(a.targets[0].attr, m.name)
        return out

    def mutators(cls_node, field="_features"):
        return [m for m in ast.walk(cls_node) if isinstance(m, (ast.FunctionDef, ast.AsyncFunctionDef)) and m.name != "__init__" and any(isinstance(c, ast.Call) and isinstance(c.func, ast.Attribute) and c.func.attr in ("add", "discard", "remove", "update", "clear", "difference_update", "intersection_update") and norm(c.func.value) == f"self.{field}" for c in ast.walk(m))]

    nd_ = 0
    for cq in ("model.problem_kind.ProblemKind", "model.problem_kind.ProblemKindMeta"):
        ci = idx.cls(cq)
        memos = memo_fields(idx.cls("model.problem_kind.ProblemKind").node)
        for m in mutators(ci.node):
            nd_ += 1
            for fld, where in memos.items():
                resets = any(isinstance(a, ast.Assign) and isinstance(a.targets[0], ast.Attribute) and a.targets[0].attr == fld and isinstance(a.value, ast.Constant) and a.value.value is None for a in ast.walk(m))
                rep.check(resets, rule_d, f"{m.name} drops the memoised `{fld}`", ci.loc(m), construct=f"{m.name}: mutates self._features" + ("" if resets else f" but keeps self.{fld} (memoised by {where})"), detail="" if resets else f"`{fld}` is computed from the feature set once and kept; this method changes the feature set without forgetting it, so a kind that was inspected before the change reports a stale value (== / <= / hash then disagree with a kind built in one go)", function=ci.qualname)
    fx = ast.parse("class K:\n    def v(self):\n        if self._c is not None:\n            return self._c\n        self._c = len(self._features)\n        return self._c\n    def s(self, f):\n        self._features.add(f)\n").body[0]
    if memo_fields(fx) != {"_c": "v"} or [m.name for m in mutators(fx)] != ["s"]:
        raise AnalysisError(f"{rule_d}: positive fixture no longer matches")
    rep.count("feature_mutators", nd_)
    rep.require_min(rule_d, "feature_mutators", 2)

    # (e) union / intersection are computed on the features brought to a common version; the result is labelled with
    # exactly that version. A result whose version is left to be inferred from its own features can come out lower
    # (an intersection can drop every newer feature), and the deprecated features ignored in the operands count again
    rule_e = "C33.8 def-use lattice-results-carry-the-common-version"
    pk = idx.cls("model.problem_kind.ProblemKind")
    ne = 0
    for mname in ("union", "intersection"):
        m = pk.methods.get(mname)
        if m is None:
            raise AnalysisError(f"{rule_e}: ProblemKind.{mname} vanished")
        unpacked = set()

        def _is_equalize(v) -> bool:
            """equalize_versions(…), or a private method of the class every answer of which is that call"""
            if isinstance(v, ast.Call) and call_name(v) == "equalize_versions":
                return True
            if isinstance(v, ast.Call) and isinstance(v.func, ast.Attribute) and norm(v.func.value) in ("self", "ProblemKind") and v.func.attr in pk.methods and v.func.attr.startswith("_"):
                rets_ = [x for x in walk_no_nested(pk.methods[v.func.attr].node) if isinstance(x, ast.Return)]
                return bool(rets_) and all(isinstance(x.value, ast.Call) and call_name(x.value) == "equalize_versions" for x in rets_)
            return False

        for a in walk_no_nested(m.node):
            if isinstance(a, ast.Assign) and isinstance(a.targets[0], ast.Tuple) and _is_equalize(a.value) and len(a.targets[0].elts) == 3 and isinstance(a.targets[0].elts[2], ast.Name):
                unpacked.add(a.targets[0].elts[2].id)
        for r in walk_no_nested(m.node):
            if not (isinstance(r, ast.Return) and isinstance(r.value, ast.Call) and call_name(r.value) == "ProblemKind"):
                continue
            ne += 1
            ver = [k.value for k in r.value.keywords if k.arg == "version"] + list(r.value.args[1:2])
            ok = bool(ver) and isinstance(ver[0], ast.Name) and ver[0].id in unpacked
            strict = True
            if ver and not ok and isinstance(ver[0], ast.Call) and isinstance(ver[0].func, ast.Attribute) and norm(ver[0].func.value) in ("self", "ProblemKind", "oth") and ver[0].func.attr in pk.methods:
                # the version goes through a helper of the class: every answer of the helper must be the common version
                h = pk.methods[ver[0].func.attr]
                formal = [a.arg for a in h.node.args.args if a.arg not in ("self", "cls")]
                passed = {formal[i]: a for i, a in enumerate(ver[0].args) if i < len(formal)}
                passed.update({k.arg: k.value for k in ver[0].keywords if k.arg})
                common = {p_ for p_, a in passed.items() if isinstance(a, ast.Name) and a.id in unpacked}
                rets = [x for x in walk_no_nested(h.node) if isinstance(x, ast.Return)]
                ok = bool(rets) and all(isinstance(x.value, ast.Name) and x.value.id in common for x in rets)
            elif ver and not ok and not isinstance(ver[0], (ast.Name, ast.Constant)):
                strict = False  # an expression this rule does not read
            rep.check(ok, rule_e, f"{mname}: the result is built with the version equalize_versions returned", m.loc(r), construct=norm(r)[:90], detail="" if ok else "the result's version is not the common version of the operands (it may be None, i.e. inferred from the surviving features): an intersection that keeps only version-1 features is then a version-1 kind whose deprecated features count again, so it is not below its operands and differs from the same intersection taken with declared versions", function=m.qualname, strict=strict)
    rep.count("lattice_results", ne)
    rep.require_min(rule_e, "lattice_results", 2)


# ------------------------------------------------------------------------------------ C32
def c32(idx: Index, rep: Report, tier: str) -> None:
    from .C09 import factory_threads_kind

    factory_threads_kind(idx, rep, "C32.5 def-use pipeline-stage-selected-for-the-running-kind")

    # the kind the candidate engines are tested against is the kind that was asked for: inside the factory the
    # `problem_kind` parameter is only ever replaced by what a selected compiler stage turns it into, and no kind is
    # re-labelled with another version (ProblemKind(k.features, version=v) skips the upgrade of the deprecated features)
    rule_k = "C32.6 def-use requested-kind-not-rewritten"
    fac = idx.cls("engines.factory.Factory")
    nk = 0
    for f in fac.methods.values():
        kparams = [a.arg for a in f.node.args.args + f.node.args.kwonlyargs if a.annotation is not None and norm(a.annotation).split(".")[-1] in ("ProblemKind", "Optional[ProblemKind]")]
        for kp in kparams:
            nk += 1
            for a in walk_no_nested(f.node):
                tg = []
                if isinstance(a, ast.Assign):
                    tg = [t for t in a.targets if isinstance(t, ast.Name) and t.id == kp]
                elif isinstance(a, (ast.AugAssign, ast.AnnAssign)) and isinstance(a.target, ast.Name) and a.target.id == kp:
                    tg = [a.target]
                if not tg:
                    continue
                v = a.value
                ok = isinstance(v, ast.Call) and call_name(v) == "resulting_problem_kind" and v.args and norm(v.args[0]) == kp
                rep.check(ok, rule_k, f"`{kp}` is replaced only by the result of a selected compiler stage", f.loc(a), construct=f"{kp} = {norm(v)[:90] if v is not None else '?'}", detail="" if ok else "the requested kind is rewritten before the candidates are tested: engines are then checked against another kind than the one the caller asked for, and an engine that does not support the request can be returned", function=f.qualname)
    for f in [x for x in idx.all_funcs() if x.module.name == "unified_planning.engines.factory"]:
        for c in walk_no_nested(f.node):
            if isinstance(c, ast.Call) and call_name(c) == "ProblemKind" and c.args:
                srcs = {norm(x.value) for x in ast.walk(c.args[0]) if isinstance(x, ast.Attribute) and x.attr in ("features", "_features")}
                ver = [k.value for k in c.keywords if k.arg == "version"] + list(c.args[1:2])
                if not srcs:
                    continue
                nk += 1
                ok = len(srcs) == 1 and ver and norm(ver[0]) in {f"{x}.version" for x in srcs} | {f"{x}._version" for x in srcs}
                rep.check(bool(ok), rule_k, "a kind rebuilt from another kind's features keeps that kind's version", f.loc(c), construct=norm(c)[:100], detail="" if ok else "features are only meaningful in the version they were written in: re-labelling them with another version skips the upgrade (equalize_versions), deprecated features silently stop counting and the engines are tested against a weaker kind", function=f.qualname)
    rep.count("kind_parameters", nk)
    rep.require_min(rule_k, "kind_parameters", 8)

    # when no engine qualifies the factory raises the no-suitable-engine error: the code that builds the report for
    # the rejected candidates must accept every engine class the selection itself accepts for that requirement
    rule_e = "C32.7 sibling error-report-accepts-what-selection-accepts"
    sel = fac.methods["_engine_satisfies_conditions"]
    get = fac.methods["_get_engine_class"]

    def issub_classes(stmts):
        out = set()
        for st in stmts:
            if isinstance(st, ast.Assert):
                for c in ast.walk(st.test):
                    if isinstance(c, ast.Call) and call_name(c) == "issubclass" and len(c.args) == 2:
                        for e in (c.args[1].elts if isinstance(c.args[1], ast.Tuple) else [c.args[1]]):
                            out.add(norm(e).split(".")[-1])
        return out

    reqs = [a.arg for a in sel.node.args.args if a.arg.endswith("_guarantee") or a.arg.endswith("_kind")]
    m_sel: Dict[str, Set[str]] = {}
    for i in walk_no_nested(sel.node):
        if isinstance(i, ast.If):
            for test, body in _if_chain(i):
                classes = issub_classes(body)
                for c in [c for st in body for c in ast.walk(st) if isinstance(c, ast.Call) and isinstance(c.func, ast.Attribute) and norm(c.func.value) == "EngineClass" and len(c.args) == 1 and isinstance(c.args[0], ast.Name) and c.args[0].id in reqs]:
                    m_sel.setdefault(c.args[0].id, set()).update(classes)
    ne = 0
    # the report is built in _get_engine_class or in a private helper of the factory it calls; a helper is read when
    # it receives the requirement under the selection's own name (otherwise the fallback of Report.require_min holds)
    hosts = [get]
    for c in walk_no_nested(get.node):
        if isinstance(c, ast.Call) and isinstance(c.func, ast.Attribute) and norm(c.func.value) in ("self", "Factory") and c.func.attr.startswith("_") and c.func.attr in fac.methods and fac.methods[c.func.attr] not in hosts and fac.methods[c.func.attr] is not sel:
            h = fac.methods[c.func.attr]
            formal = [a.arg for a in h.node.args.args if a.arg not in ("self", "cls")]
            passed = {formal[i]: norm(a) for i, a in enumerate(c.args) if i < len(formal)}
            passed.update({k.arg: norm(k.value) for k in c.keywords if k.arg})
            if all(passed.get(r, r) == r for r in m_sel if r in formal):
                hosts.append(h)
    for gcfg in [cfg_of(h) for h in hosts]:
      for nd in gcfg.nodes:
        if not isinstance(nd.ast, ast.Assert):
            continue
        have = issub_classes([nd.ast])
        if not have:
            continue
        req = None
        for t, o in guards_dominating(gcfg, nd):
            te = t.ast
            if isinstance(te, ast.Compare) and len(te.ops) == 1 and isinstance(te.left, ast.Name) and te.left.id in m_sel and isinstance(te.comparators[0], ast.Constant) and te.comparators[0].value is None:
                if (isinstance(te.ops[0], ast.IsNot) and o) or (isinstance(te.ops[0], ast.Is) and not o):
                    req = te.left.id
        if req is None:
            continue
        ne += 1
        missing = sorted(m_sel[req] - have)
        rep.check(not missing, rule_e, f"the report for a rejected candidate accepts every engine class that takes `{req}`", get.loc(nd.ast), construct=f"{req} given: assert issubclass(EngineClass, {sorted(have)})" + ("" if not missing else f" — selection also accepts {missing}"), detail="" if not missing else f"a candidate of class {missing} that does not meet the requested {req} is rejected by the selection and then trips this assertion while the error report is built: the caller gets an AssertionError instead of the no-suitable-engine error", function=get.qualname)
    # every name the factory itself puts into the preference list is a registered engine at that moment (the
    # selection loops index self._engines with every entry): an append is dominated by the registration of that name
    # — `self._engines[x] = …`, `self._add_engine(x, …)` (stores or raises) — or by a membership test, or x iterates
    # over the registered names
    rule_p = "C32.8 T3 preference-entries-are-registered-first"
    npf = 0
    for f in fac.methods.values():
        apps = [c for c in walk_no_nested(f.node) if isinstance(c, ast.Call) and isinstance(c.func, ast.Attribute) and c.func.attr in ("append", "insert") and norm(c.func.value) == "self._preference_list" and c.args]
        if not apps:
            continue
        fcfg = cfg_of(f)
        from ..rules2 import path_facts

        for c in apps:
            x = norm(c.args[-1])
            nds = fcfg.node_containing(c)
            if not nds:
                continue
            npf += 1
            facts = path_facts(fcfg, nds[0])
            by_test = any(v and t in (f"{x} in self._engines", f"{x} in self.engines", f"{x} in self._engines.keys()") for t, v in facts)
            regs = {nd for nd in fcfg.nodes if nd.ast is not None and nd.kind == "stmt" and ((isinstance(nd.ast, ast.Assign) and isinstance(nd.ast.targets[0], ast.Subscript) and norm(nd.ast.targets[0].value) == "self._engines" and norm(nd.ast.targets[0].slice) == x) or any(isinstance(k, ast.Call) and call_name(k) == "_add_engine" and k.args and norm(k.args[0]) == x for k in ast.walk(nd.ast)))}
            by_reg = bool(regs) and fcfg.path_avoiding(fcfg.entry, nds[0], regs) is None
            by_iter = any(l.kind == "for" and norm(l.owner.target) == x and norm(l.owner.iter) in ("self._engines", "self._engines.keys()", "self.engines") and any(y is c for st in l.owner.body for y in ast.walk(st)) for l in fcfg.nodes)
            ok = by_test or by_reg or by_iter
            rep.check(ok, rule_p, f"{f.name}: `{x}` is registered before it enters the preference list", f.loc(c), construct=norm(c)[:60] + (" after its registration" if by_reg else " under a membership test" if by_test else " for a registered name" if by_iter else " — not known to be registered"), detail="" if ok else "the name enters the preference list before (or without) its engine class being registered: when the registration fails (optional dependency missing) the list keeps a name that self._engines does not know, and every later automatic selection that reaches it raises KeyError instead of the no-suitable-engine error", function=f.qualname)
    rep.count("preference_appends", npf)
    rep.require_min(rule_p, "preference_appends", 4)
    rep.count("report_assertions", ne)
    if not m_sel:
        # what the selection accepts per requirement is read from its if-chain over the operation modes; a selection
        # written another way (table-driven) leaves nothing to compare the report's assertions with
        rep.inconclusive(rule_e, "the report for a rejected candidate accepts every engine class the selection accepts", sel.loc(), construct="the selection's accepted classes per requirement could not be read", detail="not decided: _engine_satisfies_conditions is not an if-chain with issubclass assertions", function=sel.qualname)
    else:
        rep.require_min(rule_e, "report_assertions", 2, get.qualname)


# ------------------------------------------------------------------------------------ C34
def c34(idx: Index, rep: Report, tier: str) -> None:
    """The order a network reports is always what the analysis of *all* its temporal constraints gives: every answer
    other than None that total_order / partial_order return is derived from the value of self._ordering()."""
    rule = "C34.5 def-use answers-derive-from-the-constraint-analysis"
    base = idx.cls("model.htn.task_network.AbstractTaskNetwork")
    n = 0
    for ci in [base] + idx.subclasses(base):
        for m in ("total_order", "partial_order"):
            f = ci.methods.get(m)
            if f is None:
                continue
            cfg = cfg_of(f)
            du = DefUse(cfg)
            for nd in cfg.nodes:
                if nd.kind != "return" or nd.ast.value is None or (isinstance(nd.ast.value, ast.Constant) and nd.ast.value.value is None):
                    continue
                n += 1
                src = du.sources(nd.ast.value, nd)
                ok = any(len(c) >= 2 and c[0] == "self" and c[1].rstrip("()") == "_ordering" for c in src) or (ci is not base and any(c[:1] == ("super()",) or "super" in c[0] for c in src))
                rep.check(ok, rule, f"{m} answers with what the analysis of the temporal constraints found", f.loc(nd.ast), construct=norm(nd.ast)[:90] + ("" if ok else " — not derived from self._ordering()"), detail="" if ok else "an order is reported without looking at the temporal constraints: a network with a release date, a minimal duration or a self precedence on its only subtask reports a total order although `any other kind of temporal constraint reports neither`", function=f.qualname)
    rep.count("order_answers", n)
    rep.require_min(rule, "order_answers", 2)


# ------------------------------------------------------------------------------------ C36
def c36(idx: Index, rep: Report, tier: str) -> None:
    """Condensation = merge the whole chain (youngest value wins), *then* drop default-valued entries. A value merged
    after the filter (or a walk that stops before the root) lets an older non-default value resurface behind a
    descendant's reset to the default."""
    from ..rules import attr_mutations

    rule = "C36.5 T2 filter-after-complete-merge"
    cs = idx.func("model.state.UPState._condense_state")
    stores = [a for a in walk_no_nested(cs.node) if isinstance(a, ast.Assign) and any(norm(t) == "self._values" for t in a.targets)]
    filtered = [a for a in stores if any(isinstance(c, ast.Call) and call_name(c) == "_is_nondefault" for c in ast.walk(a.value))]
    uses_filter = any(isinstance(c, ast.Call) and call_name(c) == "_is_nondefault" for c in walk_no_nested(cs.node))
    rep.check(uses_filter, rule, "_condense_state drops the default-valued entries of the merged chain", cs.loc(filtered[0]) if filtered else cs.loc(), construct="filter by _is_nondefault" if uses_filter else "no _is_nondefault filter", detail="" if uses_filter else "a condensed state keeps default-valued entries: it is unequal to the same valuation reached another way", function=cs.qualname)
    if not filtered:
        rep.inconclusive(rule, "_condense_state: the filtered assignment of self._values is not in the recognised form", cs.loc(), function=cs.qualname)
        return
    cfg = cfg_of(cs)
    fnodes = [nd for nd in cfg.nodes if nd.ast is filtered[0]]
    def _after(x):
        nds = cfg.node_containing(x)
        return bool(nds) and bool(fnodes) and any(cfg.path_avoiding(fn, nd, set()) is not None for fn in fnodes for nd in nds)
    later = [c for c in walk_no_nested(cs.node) if c is not filtered[0] and _after(c) and ( (isinstance(c, ast.Call) and isinstance(c.func, ast.Attribute) and c.func.attr in ("setdefault", "update", "pop", "__setitem__") and norm(c.func.value) == "self._values") or (isinstance(c, ast.Assign) and any(isinstance(t, ast.Subscript) and norm(t.value) == "self._values" for t in c.targets)))]
    rep.check(not later, rule, "nothing is merged into self._values after the default-valued entries were dropped", cs.loc(later[0]) if later else cs.loc(), construct=norm(later[0])[:80] if later else "no insertion besides the filtered assignment", detail="" if not later else "an ancestor's entries are added after the filter: a fluent that a descendant set back to its default (dropped by the filter) gets the ancestor's older value again; hash, equality and get_value change with the history", function=cs.qualname)

    # equality is decided on condensed maps only: the raw `_values` of a state that still has a father is a delta
    # (it may re-state inherited values), so any answer other than False must come after both operands were hashed
    rule6 = "C36.6 T2 equality-only-after-condensation"
    eq = idx.func("model.state.UPState.__eq__")
    ecfg = cfg_of(eq)
    n6 = 0
    for nd in ecfg.nodes:
        if nd.kind != "return" or nd.ast.value is None:
            continue
        v = nd.ast.value
        if isinstance(v, ast.Constant) and v.value in (False, NotImplemented):
            continue
        if isinstance(v, ast.Name) and v.id == "NotImplemented":
            continue
        n6 += 1
        gs = [(t.ast, o) for t, o in guards_dominating(ecfg, nd)]
        def hashes(t, outcome=True):
            """The test, taken with this outcome, establishes hash(self) == hash(other)."""
            if isinstance(t, ast.UnaryOp) and isinstance(t.op, ast.Not):
                return hashes(t.operand, not outcome)
            if isinstance(t, ast.BoolOp):
                return isinstance(t.op, ast.And if outcome else ast.Or) and any(hashes(x, outcome) for x in t.values)
            if isinstance(t, ast.Compare) and len(t.ops) == 1 and isinstance(t.ops[0], ast.Eq if outcome else ast.NotEq):
                hs_ = {norm(c.args[0]) for c in (t.left, t.comparators[0]) if isinstance(c, ast.Call) and call_name(c) == "hash" and len(c.args) == 1}
                return len(hs_) == 2 and "self" in hs_
            return False
        same = any(o and isinstance(t, ast.Compare) and isinstance(t.ops[0], ast.Is) and "self" in (norm(t.left), norm(t.comparators[0])) for t, o in gs)
        inline = isinstance(v, ast.BoolOp) and isinstance(v.op, ast.And) and any(hashes(x) for x in v.values[:-1])
        ok = same or inline or any(hashes(t, bool(o)) for t, o in gs)
        rep.check(ok, rule6, "a state is declared equal to another only after both were condensed (hashed)", eq.loc(nd.ast), construct=norm(nd.ast)[:90] + ("" if ok else " — reachable without hash(self) == hash(oth)"), detail="" if ok else "the un-condensed `_values` of a child is only its own updates: two children that agree on every fluent but re-state an inherited value differently compare unequal (and the answer changes once they are hashed)", function=eq.qualname)
    rep.count("equality_answers", n6)
    rep.require_min(rule6, "equality_answers", 1)

    # the constructor decides "root or child" once: `self._father` is bound to the parameter and to nothing else, so
    # the filter on default-valued entries (a root stores none, a child stores all) and the ancestor count speak
    # about the same father
    rule7 = "C36.7 T11 father-bound-once-in-the-constructor"
    init = idx.func("model.state.UPState.__init__")
    fstores = [a for a in walk_no_nested(init.node) if isinstance(a, (ast.Assign, ast.AugAssign)) and any(isinstance(t, ast.Attribute) and norm(t.value) == "self" and t.attr == "_father" for t in (a.targets if isinstance(a, ast.Assign) else [a.target]))]
    iparams = set(init.params())
    ok = len(fstores) == 1 and isinstance(fstores[0], ast.Assign) and isinstance(fstores[0].value, ast.Name) and fstores[0].value.id in iparams
    rep.check(ok, rule7, "UPState.__init__ binds self._father once, to the father it was given", init.loc(fstores[0]) if fstores else init.loc(), construct=f"{len(fstores)} store(s) of self._father: " + "; ".join(norm(a)[:40] for a in fstores[:3]), detail="" if ok else "the father is replaced after the decision whether default-valued entries are kept was (or will be) taken on the constructor's argument: a state can end up without a father while holding default-valued entries, which breaks the normal form that __eq__ and __hash__ rely on (equal valuations compare unequal)", function=init.qualname)
    rep.count("father_stores", len(fstores))
    rep.require_min(rule7, "father_stores", 1)


# ------------------------------------------------------------------------------------ C38
def c38(idx: Index, rep: Report, tier: str) -> None:
    """Names that are kept verbatim (`names_mapping[x] = x.name` for valid names) must all be reserved before the
    first fresh name is drawn (`_get_anml_name`), otherwise a mangled name can coincide with a valid name that is
    reserved only later and two elements are written under one name."""
    rule = "C38.4 T2 verbatim-names-reserved-before-fresh-names"
    n = 0
    for f in idx.all_funcs():
        if f.module.name != "unified_planning.io.anml_writer":
            continue
        cfg = cfg_of(f)
        draws = [nd for nd, c in cfg_nodes_with_call(cfg, "_get_anml_name")]
        if not draws:
            continue
        table_args = {norm(c.args[1]) for _, c in cfg_nodes_with_call(cfg, "_get_anml_name") if len(c.args) > 1}
        keeps = []
        for nd in cfg.nodes:
            a = nd.ast
            if nd.kind == "stmt" and isinstance(a, ast.Assign) and isinstance(a.targets[0], ast.Subscript) and norm(a.targets[0].value) in table_args and isinstance(a.value, ast.Attribute) and a.value.attr == "name":
                keeps.append(nd)
        if not keeps:
            continue
        for k in keeps:
            n += 1
            w = None
            for d in draws:
                w = w or cfg.path_avoiding(d, k, set())
            rep.check(w is None, rule, f"{f.short}: `{norm(k.ast)[:50]}` happens before any fresh name is drawn", f.loc(k.ast), construct=f"{norm(k.ast)} {'after ' + norm(w[0].ast)[:50] if w else 'before every _get_anml_name'}", detail="" if w is None else "a valid name is reserved only after fresh names were already handed out: an earlier element with an invalid name can be mangled to exactly this name, and both elements are then written under it", function=f.qualname, path=path_text(w) if w else None)
    rep.count("verbatim_reservations", n)
    rep.require_min(rule, "verbatim_reservations", 3)

    # a validity test must look at the whole name: the pattern is anchored at both ends (or fullmatch is used)
    import re as _re

    rule5 = "C38.5 validity-pattern-covers-the-whole-name"
    k = 0
    for q in ("io.anml_writer._is_valid_anml_name",):
        f = idx.func(q)
        pats = [c for c in walk_no_nested(f.node) if isinstance(c, ast.Call) and norm(c.func) in ("re.compile", "re.match", "re.fullmatch", "re.search") and c.args and isinstance(c.args[0], ast.Constant) and isinstance(c.args[0].value, str)]
        full = any(isinstance(c, ast.Call) and norm(c.func).endswith("fullmatch") for c in walk_no_nested(f.node))
        searches = any(isinstance(c, ast.Call) and norm(c.func).endswith(".search") for c in walk_no_nested(f.node))
        for c in pats:
            k += 1
            try:
                parsed = list(_re._parser.parse(c.args[0].value))
            except Exception as ex:  # pragma: no cover
                rep.inconclusive(rule5, f"{f.short}: pattern not parsable ({ex})", f.loc(c), function=f.qualname)
                continue
            AT = _re._constants.AT
            ends = bool(parsed) and parsed[-1][0] is AT and parsed[-1][1] in (_re._constants.AT_END, _re._constants.AT_END_STRING)
            begins = bool(parsed) and parsed[0][0] is AT and parsed[0][1] in (_re._constants.AT_BEGINNING, _re._constants.AT_BEGINNING_STRING)
            ok = full or (ends and (begins or not searches))
            rep.check(ok, rule5, f"{f.short}: the pattern has to match the whole name", f.loc(c), construct=f"{c.args[0].value!r}: " + ("anchored" if ok else "matches a prefix only"), detail="" if ok else "a name that only *starts* like an identifier (`at-home`, `x y`) is accepted as valid and written verbatim: the output contains an invalid identifier", function=f.qualname)
    rep.count("validity_patterns", k)
    rep.require_min(rule5, "validity_patterns", 1)

    # (c) a conditional keyword set is reserved whenever the writer can emit that syntax: the condition of the
    # reservation talks about the same model elements as the conditions under which the syntax is written
    rule6 = "C38.6 sibling keyword-reservation-agrees-with-emission"
    wm = idx.module("io.pddl_writer")
    W = idx.cls("io.pddl_writer.PDDLWriter")
    ksets = {}
    for name, val in wm.assigns.items():
        if name.endswith("_KEYWORDS"):
            try:
                ksets[name] = set(ast.literal_eval(val))
            except ValueError:
                pass

    def vocab(exprs):
        v = set()
        for e in exprs:
            for x in ast.walk(e):
                if isinstance(x, ast.Call) and call_name(x) == "isinstance" and len(x.args) == 2:
                    for cnode in (x.args[1].elts if isinstance(x.args[1], ast.Tuple) else [x.args[1]]):
                        v.add(norm(cnode).split(".")[-1])
                if isinstance(x, ast.Attribute) and norm(x.value) in ("self.problem", "self._problem", "problem"):
                    v.add("." + x.attr)
        return v

    def enclosing_conditions(fn, target):
        out = []

        def rec(stmts, acc):
            for st in stmts:
                if any(y is target for y in ast.walk(st)):
                    if isinstance(st, ast.If):
                        if any(y is target for b in st.body for y in ast.walk(b)):
                            rec(st.body, acc + [st.test])
                        else:
                            rec(st.orelse, acc)
                    elif isinstance(st, (ast.For, ast.While)):
                        rec(st.body + st.orelse, acc + [st.iter if isinstance(st, ast.For) else st.test])
                    elif isinstance(st, (ast.With, ast.Try)):
                        rec([y for y in ast.iter_child_nodes(st) if isinstance(y, ast.stmt)] + [z for h in getattr(st, "handlers", []) for z in h.body], acc)
                    else:
                        out.append(acc)
                    return
        rec(fn.body, [])
        return out[0] if out else []

    init = W.methods["__init__"]
    reservations = {}
    for i in walk_no_nested(init.node):
        if isinstance(i, ast.If):
            for a in i.body:
                if isinstance(a, ast.AugAssign) and isinstance(a.op, ast.BitOr) and isinstance(a.value, ast.Name) and a.value.id in ksets and "keywords" in norm(a.target):
                    reservations[a.value.id] = i
    n6 = 0
    for kname, guard in sorted(reservations.items()):
        vt = vocab([guard.test])
        for f in W.methods.values():
            for c in walk_no_nested(f.node):
                if not (isinstance(c, ast.Call) and call_name(c) == "write" and c.args):
                    continue
                text = " ".join(str_consts(c.args[0]))
                kws = sorted(k for k in ksets[kname] if f":{k} " in text + " " or f"({k} " in text + " " or f"(:{k} " in text + " ")
                if not kws:
                    continue
                ve = vocab(enclosing_conditions(f.node, c))
                if not ve:
                    continue
                n6 += 1
                ok = bool(vt & ve)
                rep.check(ok, rule6, f"`{kws[0]}` is reserved under a condition on what makes the writer emit it", init.loc(guard), construct=f"{kname} reserved if {norm(guard.test)[:70]}; `{kws[0]}` written in {f.name} under {sorted(ve)}", detail="" if ok else f"the writer emits `{kws[0]}` for {sorted(ve)} but decides to reserve the word from something else: there are problems for which the syntax is written and the word is not reserved, so a fluent, object or action with that name is written verbatim and collides with the keyword", function=init.qualname)
    rep.count("keyword_emissions", n6)
    rep.require_min(rule6, "keyword_emissions", 4)

    # (d) the two renaming tables live as long as the writer: a name handed out once (domain, problem or plan, in any
    # order) is the name of that element for good
    rule7 = "C38.7 who-may-write renaming-tables-bound-once"
    n7 = 0
    for cq, fields in (("io.pddl_writer.PDDLWriter", ("otn_renamings", "nto_renamings")), ("io.ma_pddl_writer.MAPDDLWriter", ("otn_renamings", "nto_renamings")), ("io.anml_writer.ANMLWriter", ())):
        ci = idx.cls(cq)
        for f in ci.methods.values():
            for a in walk_no_nested(f.node):
                hit = None
                if isinstance(a, (ast.Assign, ast.AnnAssign)):
                    tgs = a.targets if isinstance(a, ast.Assign) else [a.target]
                    for t in tgs:
                        if isinstance(t, ast.Attribute) and norm(t.value) == "self" and t.attr in fields:
                            hit = t.attr
                elif isinstance(a, ast.Call) and isinstance(a.func, ast.Attribute) and a.func.attr in ("clear", "pop", "popitem") and isinstance(a.func.value, ast.Attribute) and norm(a.func.value.value) == "self" and a.func.value.attr in fields:
                    hit = a.func.value.attr
                elif isinstance(a, ast.Delete) and any(isinstance(t, ast.Subscript) and isinstance(t.value, ast.Attribute) and t.value.attr in fields for t in a.targets):
                    hit = "del"
                if hit is None:
                    continue
                n7 += 1
                ok = f.name == "__init__"
                rep.check(ok, rule7, f"self.{hit} is created in the constructor and only ever extended", f.loc(a), construct=f"{f.name}: {norm(a)[:70]}", detail="" if ok else "the renaming tables are emptied or replaced after names may already have been handed out: a problem file or plan written earlier uses names the writer no longer knows (get_item_named raises or returns another element) and get_pddl_name / get_item_named stop being inverses over the writer's history", function=f.qualname)
    rep.count("renaming_table_bindings", n7)
    rep.require_min(rule7, "renaming_table_bindings", 2)


# ------------------------------------------------------------------------------------ C35
def c35(idx: Index, rep: Report, tier: str) -> None:
    """Every hidden fluent of the drawn model is written to the deterministic problem, with the drawn value: an
    iteration over the model that writes nothing (a value skipped as "redundant") leaves the fluent at its declared
    default, which need not agree with the model."""
    rule = "C35.4 T2 every-drawn-value-is-written"
    g = idx.func("model.contingent.execution_environment.SimulatedExecutionEnvironment._randomly_set_full_initial_state")
    cfg = cfg_of(g)
    writes = {nd: c for nd, c in cfg_nodes_with_call(cfg, "set_initial_value")}
    if not writes:
        raise AnalysisError(f"{rule}: no set_initial_value in _randomly_set_full_initial_state")
    n = 0
    for l in cfg.nodes:
        if l.kind != "for" or not any(nd.ast is not None and any(x is nd.ast for st in l.owner.body for x in ast.walk(st)) for nd in writes):
            continue
        n += 1
        first = [s for s in cfg.g.successors(l) if cfg.g[l][s].get("label") is True or (isinstance(cfg.g[l][s].get("label"), tuple) and True in cfg.g[l][s].get("label"))]
        w = None
        for s_ in first:
            if s_ not in writes:
                w = w or cfg.path_avoiding(s_, l, set(writes))
        rep.check(w is None, rule, "each entry of the drawn model is written to the deterministic problem", g.loc(l.owner), construct=f"for {norm(l.owner.target)} in {norm(l.owner.iter)[:40]}: " + ("always writes" if w is None else "an iteration can write nothing"), detail="" if w is None else "a hidden fluent whose drawn value is skipped keeps its declared default (which may be true): the initial state of the environment violates the oneof / or constraints", function=g.qualname, path=path_text(w) if w else None)
        targets = {x.id for x in ast.walk(l.owner.target) if isinstance(x, ast.Name)}
        for nd, c in writes.items():
            if len(c.args) >= 2:
                dep = any(isinstance(x, ast.Name) and x.id in targets for x in ast.walk(c.args[1]))
                rep.check(dep, rule, "the written value is the drawn one", g.loc(c), construct=norm(c)[:90], detail="" if dep else "a constant is written instead of the value of the model", function=g.qualname)
    rep.count("model_loops", n)
    rep.require_min(rule, "model_loops", 1)

    # every initial constraint of the problem (oneof / or) is asserted to the solver that draws the hidden state
    rule6 = "C35.6 T2 every-initial-constraint-is-asserted"
    asserts = {nd for nd, c in cfg_nodes_with_call(cfg, "append") if isinstance(c.func, ast.Attribute) and isinstance(c.func.value, ast.Name) and c.args and isinstance(c.args[0], ast.Call) and call_name(c.args[0]) in ("Or", "ExactlyOne", "And", "Not")}
    n6 = 0
    for l in cfg.nodes:
        if l.kind != "for" or not any(k in norm(l.owner.iter) for k in ("or_constraints", "oneof_constraints")):
            continue
        n6 += 1
        body = {nd for nd in cfg.nodes if nd.ast is not None and any(x is nd.ast for st in l.owner.body for x in ast.walk(st))}
        first = [s_ for s_ in cfg.g.successors(l) if s_ in body]
        inside = {a for a in asserts if a in body}
        w = None
        for s_ in first:
            if s_ not in inside:
                w = w or cfg.path_avoiding(s_, l, inside)
        ok = bool(inside) and w is None
        rep.check(ok, rule6, f"each element of {norm(l.owner.iter).split('.')[-1]} becomes a solver constraint", g.loc(l.owner), construct=f"for {norm(l.owner.target)} in {norm(l.owner.iter)[:40]}: " + ("always asserted" if ok else "an iteration can end without asserting it"), detail="" if ok else "a constraint is skipped on the strength of its shape: the drawn hidden state can violate it (e.g. `(or (not a) b)` with a true and b false), so the environment starts in a state that is not an initial state of the problem", function=g.qualname, path=path_text(w) if w else None)
    rep.count("initial_constraint_loops", n6)
    rep.require_min(rule6, "initial_constraint_loops", 2)

    rule_g = "C35.5 def-use state-lookups-take-ground-expressions"
    envf = [fi for fi in idx.all_funcs() if fi.module.name == "unified_planning.model.contingent.execution_environment"]
    ng = state_lookups_ground(rep, rule_g, envf)
    rep.count("state_lookups", ng)


# ------------------------------------------------------------------------------------ C08
def c08(idx: Index, rep: Report, tier: str) -> None:
    """updated_minimize_action_costs(metric, new_to_old, …) reads the new-to-old map when it is called: the map must
    be complete by then. A store into the map that can execute after the call means the metric was re-keyed from a
    partial (or empty) map and the later actions have no cost."""
    rule = "C08.6 T2 action-map-complete-before-the-metric-is-rekeyed"
    n = 0
    for f in idx.all_funcs():
        if not f.module.name.startswith("unified_planning.engines.compilers."):
            continue
        cfg = cfg_of(f)
        for node, c in cfg_nodes_with_call(cfg, "updated_minimize_action_costs"):
            if len(c.args) < 2 or not isinstance(c.args[1], ast.Name):
                continue
            m = c.args[1].id
            n += 1
            stores = [nd for nd in cfg.nodes if nd.kind == "stmt" and nd.ast is not None and any((isinstance(a, ast.Assign) and any(isinstance(t, ast.Subscript) and norm(t.value) == m for t in a.targets)) or (isinstance(a, ast.Call) and isinstance(a.func, ast.Attribute) and a.func.attr in ("update", "setdefault") and norm(a.func.value) == m) for a in ast.walk(nd.ast))]
            w = None
            for st in stores:
                if st is node:
                    continue
                w = w or cfg.path_avoiding(node, st, set())
            rep.check(w is None, rule, f"{f.short}: `{m}` is not filled any more after the metric was re-keyed from it", f.loc(c), construct=f"{norm(c)[:70]}" + ("" if w is None else f" … then {norm(w[-1].ast)[:50]}"), detail="" if w is None else f"`{m}` still receives entries after updated_minimize_action_costs read it: the re-keyed MinimizeActionCosts misses the actions added later (with an empty map: every cost is lost)", function=f.qualname, path=path_text(w) if w else None)
    rep.count("rekeying_calls", n)
    rep.require_min(rule, "rekeying_calls", 5)
    from ..rules2 import one_shot_local_consumed_twice, one_shot_stored_for_reuse

    comp_funcs = [f for f in idx.all_funcs() if f.module.name.startswith("unified_planning.engines.compilers.") or f.module.name == "unified_planning.engines.results"]
    k = one_shot_stored_for_reuse(rep, "C08.7 T19 back-conversion-reusable", comp_funcs)
    rep.count("partials_and_fields", k)
    rep.require_min("C08.7 T19 back-conversion-reusable", "partials_and_fields", 15)
    one_shot_local_consumed_twice(rep, "C08.7 T19 one-shot-iterators-consumed-once", comp_funcs)
    # the re-keyed cost table ranges over the actions that exist in the compiled problem: its keys come from the
    # new-to-old map or from the compiled problem's own actions, never from a by-name lookup of an *original* action
    # (a compiler may have dropped it, and the lookup raises)
    rule8 = "C08.8 rekeyed-costs-range-over-compiled-actions"
    k8 = 0
    for f in comp_funcs:
        tables = {norm(c.args[0]) for c in walk_no_nested(f.node) if isinstance(c, ast.Call) and call_name(c) == "MinimizeActionCosts" and c.args and isinstance(c.args[0], ast.Name)}
        if not tables:
            continue
        cfg = cfg_of(f)
        for nd in cfg.nodes:
            a = nd.ast
            if not (nd.kind == "stmt" and isinstance(a, ast.Assign) and isinstance(a.targets[0], ast.Subscript) and norm(a.targets[0].value) in tables):
                continue
            k8 += 1
            key = a.targets[0].slice
            lookups = [c for c in ast.walk(key) if isinstance(c, ast.Call) and call_name(c) == "action" and isinstance(c.func, ast.Attribute)]
            guarded = any("has_action" in norm(t.ast) and o for t, o in guards_dominating(cfg, nd))
            ok = not lookups or guarded
            rep.check(ok, rule8, f"{f.short}: a key of the re-keyed cost table is an action known to be in the compiled problem", f.loc(a), construct=norm(a)[:90], detail="" if ok else f"`{norm(lookups[0])[:50]}` looks an original action up by name in the compiled problem: for an action the compilation dropped (its precondition became false) the lookup raises and compile() fails on a supported problem", function=f.qualname)
    rep.count("cost_table_stores", k8)
    rep.require_min(rule8, "cost_table_stores", 2)


# ------------------------------------------------------------------------------------ C01 / C02 / C03 (simulator)
SIM3 = "engines.sequential_simulator.UPSequentialSimulator"


def sim_effects_recorded(idx: Index, rep: Report, prefix: str) -> None:
    """Conflict detection and the accumulation of several increases on one fluent read the pending-updates map, so
    every effect that fires must be entered into it: (i) where apply_unsafe / get_unsatisfied_conditions store the
    result of _evaluate_effect, the store is conditioned on that result alone (`fluent is not None`), never on the
    state or on the value; (ii) _evaluate_effect answers (None, None) for a firing effect only in the Boolean
    add-after-delete case."""
    rule = f"{prefix} T2 every-firing-effect-is-recorded"
    n = 0
    for meth in ("apply_unsafe", "get_unsatisfied_conditions"):
        f = idx.func(f"{SIM3}.{meth}")
        cfg = cfg_of(f)
        for node, c in cfg_nodes_with_call(cfg, "_evaluate_effect"):
            if not (isinstance(node.ast, ast.Assign) and isinstance(node.ast.targets[0], ast.Tuple)):
                continue
            results = {x.id for x in ast.walk(node.ast.targets[0]) if isinstance(x, ast.Name)}
            maps = {a.id for a in c.args if isinstance(a, ast.Name)}
            for st in cfg.nodes:
                a = st.ast
                if not (st.kind == "stmt" and isinstance(a, ast.Assign) and isinstance(a.targets[0], ast.Subscript) and norm(a.targets[0].value) in maps and norm(a.targets[0].slice) in results):
                    continue
                if cfg.path_avoiding(node, st, set()) is None:
                    continue
                n += 1
                gs_call = {id(t) for t, _ in guards_dominating(cfg, node)}
                extra = [t for t, _ in guards_dominating(cfg, st) if id(t) not in gs_call and t.kind == "test" and not ({x.id for x in ast.walk(t.ast) if isinstance(x, ast.Name)} <= results)]
                rep.check(not extra, rule, f"{meth}: the result of _evaluate_effect is stored whenever there is one", f.loc(a), construct=f"{norm(a)} " + ("under the result's own None test only" if not extra else f"also under `{norm(extra[0].ast)[:60]}`"), detail="" if not extra else "an effect that fired is not entered into the pending updates (e.g. because its value equals the current one): a later assignment to the same fluent is no longer seen as conflicting and a second increase starts from the old value, so apply and is_applicable disagree", function=f.qualname)
    ee = idx.func(f"{SIM3}._evaluate_effect")
    ecfg = cfg_of(ee)
    for nd in ecfg.nodes:
        if nd.kind != "return" or not (isinstance(nd.ast.value, ast.Tuple) and len(nd.ast.value.elts) == 2 and all(isinstance(e, ast.Constant) and e.value is None for e in nd.ast.value.elts)):
            continue
        gs = guards_dominating(ecfg, nd)
        from ..rules2 import path_facts

        facts = path_facts(ecfg, nd)
        fires = ("evaluated_condition", True) in facts
        if not fires:
            continue
        n += 1
        boolean_case = any(a.endswith(".is_bool_type()") and v for a, v in facts)
        rep.check(boolean_case, rule, "_evaluate_effect: a firing effect yields no update only in the Boolean add-after-delete case", ee.loc(nd.ast), construct="return (None, None) under " + "; ".join(norm(t.ast)[:40] + ("" if o else " [false]") for t, o in gs)[:160], detail="" if boolean_case else "a firing non-Boolean effect is dropped (treated as a no-op): it is missing from the pending updates, so a conflicting second assignment in the same step is accepted", function=ee.qualname, strict=any(a.endswith(".is_bool_type()") and v is False for a, v in facts))
    rep.count("recording_sites", n)
    rep.require_min(rule, "recording_sites", 3)


def inner_bindings_shadow_outer(idx: Index, rep: Report, rule: str) -> None:
    """A quantifier body is evaluated under the bindings of the enclosing quantifiers *overridden* by the bindings of
    the quantifier itself: in the merged map the new bindings (the method's parameter) come last. The reverse order
    makes a re-bound variable keep the enclosing value."""
    n = 0
    for q in ("model.walkers.state_evaluator.StateEvaluator._deep_subs_simplify", "model.walkers.quantifier_simplifier.QuantifierSimplifier._deep_subs_simplify"):
        f = idx.func(q)
        params = [p for p in f.params() if p != "self"]
        if len(params) < 2:
            raise AnalysisError(f"{rule}: {q} no longer takes (expression, bindings)")
        new_b = params[1]

        def role(e: ast.AST) -> str:
            t = norm(e)
            if t == new_b:
                return "new"
            if isinstance(e, ast.Attribute) and norm(e.value) == "self":
                return "outer"
            return "?"

        verdict = None
        where = f.node
        for a in walk_no_nested(f.node):
            if isinstance(a, ast.Assign) and isinstance(a.targets[0], ast.Name):
                v, x = a.value, a.targets[0].id
                if isinstance(v, ast.Dict) and len(v.keys) == 2 and all(k is None for k in v.keys):
                    order = [role(e) for e in v.values]
                    verdict, where = (order == ["outer", "new"]), a
                elif isinstance(v, ast.Call) and call_name(v) in ("copy", "dict") and (v.args or isinstance(v.func, ast.Attribute)):
                    base = role(v.func.value) if call_name(v) == "copy" else role(v.args[0])
                    ups = [c for c in walk_no_nested(f.node) if isinstance(c, ast.Call) and call_name(c) == "update" and norm(c.func.value) == x and c.args]
                    if base in ("outer", "new") and len(ups) == 1 and role(ups[0].args[0]) in ("outer", "new"):
                        verdict, where = (base == "outer" and role(ups[0].args[0]) == "new"), ups[0]
                elif isinstance(v, ast.BinOp) and isinstance(v.op, ast.BitOr):
                    order = [role(v.left), role(v.right)]
                    if "?" not in order:
                        verdict, where = (order == ["outer", "new"]), a
        n += 1
        if verdict is None:
            rep.inconclusive(rule, f"{f.short}: the merge of enclosing and new bindings is not in a recognised form", f.loc(), function=f.qualname)
        else:
            rep.check(verdict, rule, f"{f.short}: the quantifier's own bindings override the enclosing ones", f.loc(where), construct=norm(where)[:90], detail="" if verdict else "the enclosing bindings are applied last: when a nested quantifier re-binds a variable of an enclosing one, its body is evaluated for the enclosing object only (Forall x. (… Exists x. p(x)) reads p of the outer x)", function=f.qualname)
    rep.count("binding_merges", n)


def c01(idx: Index, rep: Report, tier: str) -> None:
    rule_pc = "C01.6 T2 every-grounded-effect-is-added"
    cas = idx.func("engines.compilers.utils.create_action_with_given_subs")
    npc = produced_then_consumed(rep, rule_pc, cas, "create_effect_with_given_subs", ("_add_effect_instance",), "every effect of the lifted action that survives the substitution is added to the grounded action", "a grounded effect is skipped for a reason other than being impossible (e.g. because an equal one was already added): increase / decrease effects are not idempotent, so two parameters bound to the same object make the grounded action change the fluent once instead of twice — the simulator's successor and every compiler built on the grounder drift from the lifted semantics")
    rep.count("grounded_effect_sites", npc)
    rep.require_min(rule_pc, "grounded_effect_sites", 2)
    from .generic import delegate

    if delegate(idx, rep, tier, "C36", ("C36.3", "C36.5", "C36.6"), "the simulator's states are UPState chains") < 3:
        raise AnalysisError("C01: the delegated UPState clauses vanished")
    sim_effects_recorded(idx, rep, "C01.4")
    inner_bindings_shadow_outer(idx, rep, "C01.5 inner-bindings-shadow-outer")


def c02(idx: Index, rep: Report, tier: str) -> None:
    from .generic import delegate

    if delegate(idx, rep, tier, "C14", ("C14.1",), "applicability is evaluated by a DagWalker; its answers must not depend on earlier failed walks") < 1:
        raise AnalysisError("C02: the delegated walker clauses vanished")
    if delegate(idx, rep, tier, "C36", ("C36.1", "C36.3", "C36.5", "C36.6"), "apply and the applicability queries both build the successor with UPState.make_child on the state they are given") < 4:
        raise AnalysisError("C02: the delegated UPState clauses vanished")
    sim_effects_recorded(idx, rep, "C02.5")


def c03(idx: Index, rep: Report, tier: str) -> None:
    from .generic import delegate

    if delegate(idx, rep, tier, "C01", ("C01.1", "C36.1", "C36.3", "C36.5", "C36.6"), "sequential validation replays the plan on the simulator") < 2:
        raise AnalysisError("C03: the delegated simulator clauses vanished")
    sim_effects_recorded(idx, rep, "C03.5")

    # validate() never raises for an undefined fluent: every call in _validate that evaluates something in a state
    # (a simulator method or a function of the simulator module that takes a state) sits inside a try whose handlers
    # catch UPStateMissingFluentError — the goals *and* the metric of the final state included
    from ..rules import enclosing_trys, exception_caught_by, handler_type_names

    rule6 = "C03.6 T2 state-reading-calls-are-guarded"
    val = idx.func("engines.plan_validator.SequentialPlanValidator._validate")
    simmod = idx.module("engines.sequential_simulator")
    readers = {}
    for fname, fi in simmod.functions.items():
        if any("state" in a.arg for a in fi.node.args.args):
            readers[fname] = fi
    for mname, fi in idx.cls(SIM3).methods.items():
        if any("state" in a.arg for a in fi.node.args.args) and not mname.startswith("__"):
            readers[mname] = fi
    n6 = 0
    for c in walk_no_nested(val.node):
        if not (isinstance(c, ast.Call) and call_name(c) in readers):
            continue
        if not any("state" in norm(a) or "trace" in norm(a) for a in list(c.args) + [k.value for k in c.keywords]):
            continue
        n6 += 1
        names = [n for t in enclosing_trys(val.node, c) for h in t.handlers for n in handler_type_names(h)]
        # the `else:` / `finally:` part of a try is not protected by its handlers
        protected = [t for t in enclosing_trys(val.node, c) if any(x is c for st in t.body for x in ast.walk(st))]
        names = [n for t in protected for h in t.handlers for n in handler_type_names(h)]
        ok = exception_caught_by(idx, "UPStateMissingFluentError", names)
        rep.check(ok, rule6, f"_validate: {call_name(c)}(…) evaluates in a state under a handler for UPStateMissingFluentError", val.loc(c), construct=f"{call_name(c)}(…); protecting handlers: {sorted(set(names))}", detail="" if ok else "an expression over a fluent that has no value in that state makes this call raise UPStateMissingFluentError, and nothing around it turns that into an INVALID result: validate() raises instead of deciding", function=val.qualname)
    rep.count("state_reading_calls", n6)
    rep.require_min(rule6, "state_reading_calls", 4)


# ------------------------------------------------------------------------------------ C04 / C05: interval helper
class _Yielded(Exception):
    pass


class _Raised(Exception):
    pass


class _LoopContinue(Exception):
    pass


class _LoopBreak(Exception):
    pass


class _Prop:
    """a computed attribute of a stub"""

    def __init__(self, fn):
        self.fn = fn

    def __call__(self):
        return self.fn()


class _Returned(Exception):
    def __init__(self, value):
        self.value = value


class _Stub:
    """An abstract value: attributes and zero-argument methods are looked up in a table (never in repository code)."""

    def __init__(self, name, **table):
        self._name, self._table = name, table

    def __repr__(self):
        return self._name

    def __eq__(self, o):
        if isinstance(o, _Stub) and "_key" in self._table and "_key" in o._table:
            return self._table["_key"] == o._table["_key"]
        return self is o

    def __hash__(self):
        return hash(self._table.get("_key", id(self)))


class _OrderInterp:
    """Concrete interpreter for TimeTriggeredPlanValidator._states_in_interval. The function touches time values
    only through comparisons, so its behaviour is determined by the order type of (trace keys, start, end): running it
    on every subset of a grid with two points per open region and one per boundary is an exhaustive case analysis."""

    class Unsupported(Exception):
        pass

    def __init__(self, fn: ast.FunctionDef):
        self.fn = fn

    def run(self, env):
        self.out = []
        try:
            self._block(self.fn.body, env)
        except (ValueError, TypeError, IndexError, AttributeError, ZeroDivisionError, RecursionError) as ex:
            # an error of the interpreter's own Python operations on the abstract values: outside the modelled fragment
            raise self.Unsupported(f"{type(ex).__name__}: {ex}"[:80])
        return self.out

    def _block(self, stmts, env):
        for s in stmts:
            if isinstance(s, ast.Expr) and isinstance(s.value, ast.Constant):
                continue
            if isinstance(s, ast.Assign) and len(s.targets) == 1 and isinstance(s.targets[0], ast.Name):
                env[s.targets[0].id] = self._expr(s.value, env)
            elif isinstance(s, ast.Assign) and len(s.targets) == 1 and isinstance(s.targets[0], ast.Tuple) and all(isinstance(x, ast.Name) for x in s.targets[0].elts):
                vals = list(self._expr(s.value, env))
                if len(vals) != len(s.targets[0].elts):
                    raise self.Unsupported("unpacking arity")
                for x, v in zip(s.targets[0].elts, vals):
                    env[x.id] = v
            elif isinstance(s, ast.AnnAssign) and isinstance(s.target, ast.Name):
                if s.value is not None:
                    env[s.target.id] = self._expr(s.value, env)
            elif isinstance(s, ast.AugAssign) and isinstance(s.target, ast.Subscript) and isinstance(s.op, (ast.Add, ast.Sub)):
                base, key, v = self._expr(s.target.value, env), self._expr(s.target.slice, env), self._expr(s.value, env)
                if isinstance(base, dict) and key not in base:
                    raise _Raised(f"KeyError: {key}")
                base[key] = base[key] + v if isinstance(s.op, ast.Add) else base[key] - v
            elif isinstance(s, ast.Delete) and all(isinstance(t, ast.Subscript) and not isinstance(t.slice, ast.Slice) for t in s.targets):
                for t in s.targets:
                    base, key = self._expr(t.value, env), self._expr(t.slice, env)
                    if isinstance(base, dict) and key not in base:
                        raise _Raised(f"KeyError: {key}")
                    del base[key]
            elif isinstance(s, ast.AugAssign) and isinstance(s.target, ast.Name) and isinstance(s.op, (ast.BitOr, ast.BitAnd, ast.Add, ast.Sub)):
                if s.target.id not in env:
                    raise self.Unsupported("name " + s.target.id)
                cur, v = env[s.target.id], self._expr(s.value, env)
                try:
                    # in-place on containers, as in Python (aliases see the update)
                    if isinstance(cur, set) and isinstance(s.op, ast.BitOr):
                        cur |= v
                    elif isinstance(cur, list) and isinstance(s.op, ast.Add):
                        cur.extend(v)
                    elif isinstance(cur, set) and isinstance(s.op, ast.BitAnd):
                        cur &= v
                    elif isinstance(cur, set) and isinstance(s.op, ast.Sub):
                        cur -= v
                    else:
                        env[s.target.id] = {ast.BitOr: lambda: cur | v, ast.BitAnd: lambda: cur & v, ast.Add: lambda: cur + v, ast.Sub: lambda: cur - v}[type(s.op)]()
                except TypeError:
                    raise self.Unsupported("augmented assignment on " + type(cur).__name__)
            elif isinstance(s, ast.If):
                self._block(s.body if self._expr(s.test, env) else s.orelse, env)
            elif isinstance(s, ast.While) and not s.orelse:
                fuel = 10000
                while self._expr(s.test, env):
                    fuel -= 1
                    if fuel < 0:
                        raise _Raised("does not terminate")
                    try:
                        self._block(s.body, env)
                    except _LoopContinue:
                        continue
                    except _LoopBreak:
                        break
            elif isinstance(s, ast.Assert) and getattr(self, "check_asserts", False):
                if not self._expr(s.test, env):
                    raise _Raised("AssertionError: " + norm(s.test)[:60])
            elif isinstance(s, ast.For) and isinstance(s.target, (ast.Name, ast.Tuple)) and not s.orelse:
                for x in list(self._expr(s.iter, env)):
                    self._bind(s.target, x, env)
                    try:
                        self._block(s.body, env)
                    except _LoopContinue:
                        continue
                    except _LoopBreak:
                        break
            elif isinstance(s, ast.Continue):
                raise _LoopContinue()
            elif isinstance(s, ast.Break):
                raise _LoopBreak()
            elif isinstance(s, ast.Expr) and isinstance(s.value, ast.Yield):
                v = self._expr(s.value.value, env)
                self.out.append(v[0] if isinstance(v, tuple) else v)
            elif isinstance(s, ast.Expr):
                self._expr(s.value, env)
            elif isinstance(s, (ast.Pass, ast.Assert)):
                continue
            elif isinstance(s, ast.Return) and s.value is None:
                raise _Yielded()
            elif isinstance(s, ast.Return):
                raise _Returned(self._expr(s.value, env))
            elif isinstance(s, ast.Assign) and len(s.targets) == 1 and isinstance(s.targets[0], ast.Subscript):
                self._expr(s.targets[0].value, env)[self._expr(s.targets[0].slice, env)] = self._expr(s.value, env)
            elif isinstance(s, ast.Raise):
                raise _Raised(norm(s.exc)[:60] if s.exc is not None else "")
            else:
                raise self.Unsupported(type(s).__name__)

    def _bind(self, target, value, env):
        if isinstance(target, ast.Name):
            env[target.id] = value
        elif isinstance(target, (ast.Tuple, ast.List)):
            vals = list(value)
            if len(vals) != len(target.elts):
                raise _Raised("ValueError: unpacking arity")
            for t, v in zip(target.elts, vals):
                self._bind(t, v, env)
        else:
            raise self.Unsupported("binding target " + type(target).__name__)

    def _expr(self, e, env):
        if isinstance(e, ast.Constant):
            return e.value
        if isinstance(e, ast.Name):
            if e.id in env:
                return env[e.id]
            raise self.Unsupported("name " + e.id)
        if isinstance(e, ast.Tuple):
            return tuple(self._expr(x, env) for x in e.elts)
        if isinstance(e, ast.List):
            return [self._expr(x, env) for x in e.elts]
        if isinstance(e, ast.UnaryOp) and isinstance(e.op, ast.Not):
            return not self._expr(e.operand, env)
        if isinstance(e, ast.UnaryOp) and isinstance(e.op, ast.USub):
            return -self._expr(e.operand, env)
        if isinstance(e, ast.BoolOp):
            if isinstance(e.op, ast.And):
                r = True
                for v in e.values:
                    r = self._expr(v, env)
                    if not r:
                        return r
                return r
            r = False
            for v in e.values:
                r = self._expr(v, env)
                if r:
                    return r
            return r
        if isinstance(e, ast.IfExp):
            return self._expr(e.body if self._expr(e.test, env) else e.orelse, env)
        if isinstance(e, ast.Compare):
            left = self._expr(e.left, env)
            for op, c in zip(e.ops, e.comparators):
                right = self._expr(c, env)
                if isinstance(op, (ast.Is, ast.IsNot)):
                    r = (left is right) == isinstance(op, ast.Is)
                elif isinstance(op, (ast.Eq, ast.NotEq)):
                    r = (left == right) == isinstance(op, ast.Eq)
                elif isinstance(op, (ast.In, ast.NotIn)):
                    r = (left in right) == isinstance(op, ast.In)
                elif left is None or right is None:
                    raise self.Unsupported("ordering comparison with None")
                elif isinstance(op, ast.Lt):
                    r = left < right
                elif isinstance(op, ast.LtE):
                    r = left <= right
                elif isinstance(op, ast.Gt):
                    r = left > right
                elif isinstance(op, ast.GtE):
                    r = left >= right
                else:
                    raise self.Unsupported(norm(e))
                if not r:
                    return False
                left = right
            return True
        if isinstance(e, ast.Subscript):
            base = self._expr(e.value, env)
            k = self._expr(e.slice, env)
            if isinstance(base, dict):
                if k not in base:
                    raise self.Unsupported(f"key {k} not in trace")
                return base[k]
            return base[k]
        if isinstance(e, ast.Attribute):
            base = self._expr(e.value, env)
            if isinstance(base, _Stub) and e.attr in base._table:
                tv = base._table[e.attr]
                return tv() if isinstance(tv, _Prop) else tv
            raise self.Unsupported(f"attribute {e.attr}")
        if isinstance(e, (ast.GeneratorExp, ast.ListComp, ast.SetComp)) and len(e.generators) == 1 and isinstance(e.generators[0].target, (ast.Name, ast.Tuple)):
            g = e.generators[0]
            out = []
            for x in list(self._expr(g.iter, env)):
                env2 = dict(env)
                self._bind(g.target, x, env2)
                if all(self._expr(c, env2) for c in g.ifs):
                    out.append(self._expr(e.elt, env2))
            return set(out) if isinstance(e, ast.SetComp) else out
        if isinstance(e, ast.Call) and isinstance(e.func, ast.Name) and e.func.id in ("all", "any", "set", "len", "list", "tuple") and len(e.args) == 1:
            v = list(self._expr(e.args[0], env))
            return {"all": all, "any": any, "set": set, "len": len, "list": list, "tuple": tuple}[e.func.id](v)
        if isinstance(e, ast.Call) and isinstance(e.func, ast.Name) and e.func.id == "set" and not e.args:
            return set()
        if isinstance(e, ast.Call) and isinstance(e.func, ast.Name) and e.func.id == "range" and 1 <= len(e.args) <= 3 and not e.keywords:
            return range(*[self._expr(a, env) for a in e.args])
        if isinstance(e, ast.Call) and isinstance(e.func, ast.Name) and e.func.id == "zip" and e.args and not e.keywords:
            return list(zip(*[list(self._expr(a, env)) for a in e.args]))
        if isinstance(e, ast.BinOp) and isinstance(e.op, (ast.Sub, ast.Add, ast.BitOr, ast.BitAnd)):
            l, r = self._expr(e.left, env), self._expr(e.right, env)
            try:
                return {ast.Sub: lambda: l - r, ast.Add: lambda: l + r, ast.BitOr: lambda: l | r, ast.BitAnd: lambda: l & r}[type(e.op)]()
            except TypeError:
                raise self.Unsupported(norm(e)[:60])
        if isinstance(e, ast.Set):
            return {self._expr(x, env) for x in e.elts}
        if isinstance(e, ast.Dict) and all(k is not None for k in e.keys):
            return {self._expr(k, env): self._expr(v, env) for k, v in zip(e.keys, e.values)}
        if isinstance(e, ast.DictComp) and len(e.generators) == 1 and isinstance(e.generators[0].target, (ast.Name, ast.Tuple)):
            g = e.generators[0]
            outd = {}
            for x in list(self._expr(g.iter, env)):
                env2 = dict(env)
                self._bind(g.target, x, env2)
                if all(self._expr(c, env2) for c in g.ifs):
                    outd[self._expr(e.key, env2)] = self._expr(e.value, env2)
            return outd
        if isinstance(e, ast.Call) and isinstance(e.func, ast.Attribute) and not e.keywords:
            try:
                base = self._expr(e.func.value, env)
            except self.Unsupported:
                base = None
            if isinstance(base, dict) and e.func.attr == "get":
                a = [self._expr(x, env) for x in e.args]
                return base.get(a[0], a[1] if len(a) > 1 else None)
            if isinstance(base, dict) and e.func.attr == "setdefault" and len(e.args) == 2:
                a = [self._expr(x, env) for x in e.args]
                return base.setdefault(a[0], a[1])
            if isinstance(base, dict) and e.func.attr == "pop" and 1 <= len(e.args) <= 2:
                a = [self._expr(x, env) for x in e.args]
                if len(a) == 1 and a[0] not in base:
                    raise _Raised(f"KeyError: {a[0]}")
                return base.pop(*a)
            if isinstance(base, dict) and e.func.attr == "values" and not e.args:
                return list(base.values())
            if isinstance(base, set) and e.func.attr in ("add", "discard"):
                getattr(base, e.func.attr)(self._expr(e.args[0], env))
                return None
            if isinstance(base, (set, list, dict)) and e.func.attr == "copy" and not e.args:
                return base.copy()
            if isinstance(base, (set, list)) and e.func.attr == "remove" and len(e.args) == 1:
                x = self._expr(e.args[0], env)
                if x not in base:
                    raise _Raised("KeyError/ValueError: remove of an absent element")
                base.remove(x)
                return None
            if isinstance(base, list) and e.func.attr == "pop" and len(e.args) <= 1:
                a = [self._expr(x, env) for x in e.args]
                if not base:
                    raise _Raised("IndexError: pop from empty list")
                return base.pop(*a)
            if isinstance(base, set) and e.func.attr in ("difference_update", "update") and len(e.args) == 1:
                getattr(base, e.func.attr)(self._expr(e.args[0], env))
                return None
            if isinstance(base, _Stub):
                if e.func.attr in base._table:
                    tv = base._table[e.func.attr]
                    if callable(tv):
                        return tv(*[self._expr(a, env) for a in e.args])
                    if not e.args:
                        return tv
                raise self.Unsupported(f"method {e.func.attr}")
        if isinstance(e, ast.Call) and isinstance(e.func, ast.Name) and e.func.id in env and callable(env[e.func.id]) and not e.keywords:
            # a local bound to a callable of a stub (`rebuild = self.manager.And if … else self.manager.Or`)
            return env[e.func.id](*[self._expr(a, env) for a in e.args])
        if isinstance(e, ast.Call) and isinstance(e.func, ast.Name) and e.func.id in getattr(self, "helpers", {}):
            h = self.helpers[e.func.id]
            hp = [a.arg for a in h.args.args]
            henv = dict(zip(hp, [self._expr(a, env) for a in e.args]))
            try:
                self._block(h.body, henv)
            except _Returned as r:
                return r.value
            return None
        if isinstance(e, ast.Call) and isinstance(e.func, ast.Name) and e.func.id == "cast" and len(e.args) == 2:
            return self._expr(e.args[1], env)
        if isinstance(e, ast.Call):
            fn = norm(e.func)
            if fn == "Fraction" and len(e.args) == 1:
                return self._expr(e.args[0], env)
            if isinstance(e.func, ast.Attribute) and e.func.attr == "append":
                self._expr(e.func.value, env).append(self._expr(e.args[0], env))
                return None
            if fn in ("sorted", "list") and len(e.args) == 1:
                v = list(self._expr(e.args[0], env))
                return sorted(v) if fn == "sorted" else v
            if isinstance(e.func, ast.Attribute) and e.func.attr in ("keys", "items") and not e.args:
                b = self._expr(e.func.value, env)
                return list(b.keys()) if e.func.attr == "keys" else list(b.items())
            if fn in ("max", "min") and e.args and all(k.arg == "default" for k in e.keywords):
                vals = [self._expr(a, env) for a in e.args]
                if len(vals) == 1:
                    vals = list(vals[0])
                if not vals and e.keywords:
                    return self._expr(e.keywords[0].value, env)
                if not vals:
                    raise _Raised("ValueError: max()/min() of an empty sequence")
                return max(vals) if fn == "max" else min(vals)
        raise self.Unsupported(norm(e)[:60])


def interval_states_reference(keys, start, end, open_interval):
    """The states a condition over the interval has to hold in: the state in force at an instant t is the one produced
    by the last happening strictly before t (conditions at an instant are judged before that instant's effects)."""
    before = max(k for k in keys if k < start)
    upto = max(k for k in keys if k <= start)
    want = set()
    if not open_interval:
        want.add(before)  # the instant `start` itself
    if end is None or start < end:
        want.add(upto)  # the instants right after `start`
        want |= {k for k in keys if start < k and (end is None or k < end)}
    return want


def interval_helper_exhaustive(idx: Index, rep: Report, rule: str) -> None:
    import itertools

    f = idx.func("engines.plan_validator.TimeTriggeredPlanValidator._states_in_interval")
    params = [p for p in f.params() if p != "self"]
    if params != ["trace", "start", "end", "open_interval"]:
        raise AnalysisError(f"{rule}: signature of _states_in_interval changed to {params}")
    interp = _OrderInterp(f.node)
    # grid: -1 is the initial state (always present, before every interval); start = 4, end in {4 (point), 8, None}
    grid = [1, 2, 4, 5, 6, 8, 9, 10]
    n = 0
    bad = None
    try:
        for end in (8, None, 4):
            for open_interval in (False, True):
                if end == 4 and open_interval:
                    continue  # a left-open point interval is empty
                for k in range(len(grid) + 1):
                    for extra in itertools.combinations(grid, k):
                        keys = (-1,) + extra
                        trace = {t: ("state", t) for t in keys}
                        got = interp.run({"self": None, "trace": trace, "start": 4, "end": end, "open_interval": open_interval})
                        want = interval_states_reference(keys, 4, end, open_interval)
                        n += 1
                        if set(got) != want and bad is None:
                            bad = (keys, end, open_interval, sorted(set(got)), sorted(want))
    except _OrderInterp.Unsupported as u:
        rep.inconclusive(rule, f"_states_in_interval is not interpretable ({u})", f.loc(), function=f.qualname)
        return
    rep.count("interval_configurations", n)
    if bad is None:
        rep.ok(rule, "_states_in_interval yields exactly the states in force at the instants of the interval", f.loc(), construct=f"{n} order types (happenings before / at / inside / at the end of / after the interval, closed and left-open, bounded, unbounded and point intervals)", function=f.qualname)
    else:
        keys, end, op, got, want = bad
        miss, extra = sorted(set(want) - set(got)), sorted(set(got) - set(want))
        rep.bad(rule, "_states_in_interval yields exactly the states in force at the instants of the interval", f.loc(), construct=f"{'left-open' if op else 'closed'} interval from 4 to {end}, happenings at {list(keys)}: states of {got} are checked, the reference semantics needs {want}", detail=(f"the state produced at {miss} is in force inside the interval but is never checked: a condition that is false there is accepted" if miss else f"the state produced at {extra} is checked although it is not in force at any instant of the interval: a valid plan is rejected"), function=f.qualname)
    rep.require_min(rule, "interval_configurations", 1000)



def same_instant_merge_order_independent(idx: Index, rep: Report, rule: str) -> None:
    """The effects of one instant are merged by the loop `for f, v in changes.items(): …` of _apply_effects. Whether
    two effects on one fluent conflict, and the value that results, must not depend on the order in which they are
    collected; and two Boolean assignments of one action instance resolve to true (add after delete), as in the
    sequential simulator. Decided by interpreting that loop body on all ordered pairs of abstract effects."""
    import itertools

    f = idx.func("engines.plan_validator.TimeTriggeredPlanValidator._apply_effects")
    loops = [l for l in ast.walk(f.node) if isinstance(l, ast.For) and isinstance(l.iter, ast.Call) and call_name(l.iter) == "items" and isinstance(l.target, ast.Tuple) and len(l.target.elts) == 2 and any(isinstance(a, ast.Assign) and isinstance(a.value, ast.Call) and call_name(a.value) == "_apply_effect" and norm(a.targets[0]) == norm(l.iter.func.value) for a in ast.walk(f.node))]
    if not loops:
        raise AnalysisError(f"{rule}: the merge loop over the result of _apply_effect was not found in _apply_effects")
    loop = loops[0]
    fv, vv = (x.id for x in loop.target.elts)
    outer = [l for l in ast.walk(f.node) if isinstance(l, ast.For) and any(x is loop for x in ast.walk(l)) and l is not loop]
    # names of the enclosing loops: (effects of a source, simulated effect, action instance) and the effect
    eff_names = [l.target.id for l in outer if isinstance(l.target, ast.Name)]
    inst_names = [l.target.elts[2].id for l in outer if isinstance(l.target, ast.Tuple) and len(l.target.elts) == 3 and isinstance(l.target.elts[2], ast.Name)]
    dicts = [a for a in f.node.body if isinstance(a, ast.Assign) and isinstance(a.targets[0], ast.Name) and isinstance(a.value, ast.Dict) and not a.value.keys]
    if len(eff_names) != 1 or len(inst_names) != 1 or len(dicts) < 2:
        rep.inconclusive(rule, "_apply_effects: roles of the merge loop not recognised", f.loc(loop), function=f.qualname)
        return
    interp = _OrderInterp(f.node)
    TRUE = _Stub("true", bool_constant_value=True)
    FALSE = _Stub("false", bool_constant_value=False)
    A, B = _Stub("a", bool_constant_value=None), _Stub("b", bool_constant_value=None)
    assign = _Stub("assign", is_assignment=True, is_increase=False, is_decrease=False)
    incr = _Stub("increase", is_assignment=False, is_increase=True, is_decrease=False)
    i1, i2 = _Stub("instance1"), _Stub("instance2")

    def run(seq, boolean):
        fl = _Stub("fluent", type=_Stub("type", is_bool_type=boolean))
        env = {d.targets[0].id: {} for d in dicts}
        env["self"] = None
        try:
            for eff, val, inst in seq:
                env.update({fv: fl, vv: val, eff_names[0]: eff, inst_names[0]: inst})
                interp._block(loop.body, env)
        except _Raised:
            return "conflict"
        vals = [d[fl] for d in env.values() if isinstance(d, dict) and fl in d and isinstance(d[fl], _Stub) and d[fl]._name in ("a", "b", "true", "false")]
        return vals[0]._name if vals else "no update"

    n = 0
    try:
        for boolean in (False, True):
            values = (TRUE, FALSE) if boolean else (A, B)
            items = [(assign, v, i) for v in values for i in (i1, i2)] + ([] if boolean else [(incr, A, i1), (incr, A, i2)])
            for x in items:
                if x[0] is assign:
                    r = run([x, x], boolean)
                    n += 1
                    rep.check(r == x[1]._name, rule, f"[{x[0]} {x[1]} by {x[2]}] twice on one fluent is that value, not a conflict", f.loc(loop), construct=f"{x[0]} {x[1]} ; {x[0]} {x[1]} -> {r}", detail="" if r == x[1]._name else "an action that assigns the same value twice to one ground fluent (aliased parameters) is accepted by the sequential simulator and rejected here", function=f.qualname)
            for x, y in itertools.combinations(items, 2):
                r1, r2 = run([x, y], boolean), run([y, x], boolean)
                n += 1
                lx = f"{x[0]} {x[1]} by {x[2]}"
                ly = f"{y[0]} {y[1]} by {y[2]}"
                both_incr = x[0] is incr and y[0] is incr
                ok = r1 == r2 or both_incr  # two increases: the stub cannot add, the later one is stored in either order
                rep.check(ok, rule, f"[{lx}] and [{ly}] on one {'Boolean' if boolean else 'numeric'} fluent at one instant: same outcome in both orders", f.loc(loop), construct=f"{lx} ; {ly} -> {r1} / reversed -> {r2}", detail="" if ok else "whether two simultaneous effects conflict (or which value survives) depends on the order in which they were collected: the verdict of the validator depends on the order of the plan's entries / of the action's effects, and differs from the sequential simulator's", function=f.qualname)
                if boolean and x[0] is assign and y[0] is assign and x[2] is y[2] and x[1] is not y[1]:
                    ok2 = r1 == "true" and r2 == "true"
                    rep.check(ok2, rule, f"[{lx}] and [{ly}] by one action instance resolve to true (add after delete)", f.loc(loop), construct=f"{r1} / reversed -> {r2}", detail="" if ok2 else "a Boolean fluent that one action both adds and deletes does not end up true: the time-triggered and the sequential validator compute different successor states", function=f.qualname)
    except _OrderInterp.Unsupported as u:
        rep.inconclusive(rule, f"the merge loop of _apply_effects is not interpretable ({u})", f.loc(loop), function=f.qualname)
        return
    rep.count("effect_pairs", n)
    rep.require_min(rule, "effect_pairs", 15)


def quantified_effects_accumulate(idx: Index, rep: Report, rule: str) -> None:
    """_apply_effect expands a quantified effect into instances and collects their results in a local map; an
    increase / decrease must start from the value an earlier instance already produced (read that map), otherwise
    only the last instance counts."""
    f = idx.func("engines.plan_validator.TimeTriggeredPlanValidator._apply_effect")
    n = 0
    for l in walk_no_nested(f.node):
        if not (isinstance(l, ast.For) and any(isinstance(c, ast.Call) and call_name(c) == "expand_effect" for c in ast.walk(l.iter))):
            continue
        stored = {norm(a.targets[0].value) for st in l.body for a in ast.walk(st) if isinstance(a, ast.Assign) and isinstance(a.targets[0], ast.Subscript) and isinstance(a.targets[0].value, ast.Name)}
        for r in sorted(stored):
            n += 1
            reads = [x for st in l.body for x in ast.walk(st) if (isinstance(x, ast.Subscript) and isinstance(x.ctx, ast.Load) and norm(x.value) == r) or (isinstance(x, ast.Compare) and any(norm(c) == r for c in x.comparators) and isinstance(x.ops[0], (ast.In, ast.NotIn))) or (isinstance(x, ast.Call) and call_name(x) == "get" and norm(x.func.value) == r)]
            rep.check(bool(reads), rule, f"_apply_effect: an instance of a quantified increase starts from what earlier instances stored in `{r}`", f.loc(l), construct=f"`{r}` is " + ("read back inside the expansion loop" if reads else "only written inside the expansion loop"), detail="" if reads else "every instance of `increase x by w(v) forall v` is computed from the value before the effect: only the last one counts, the sequential simulator adds them all", function=f.qualname)
    rep.count("expansion_loops", n)
    rep.require_min(rule, "expansion_loops", 1)


def running_value_lookup_order(idx: Index, rep: Report, rule: str) -> None:
    """The value an increase / decrease starts from: what an earlier instance of the *same* (quantified) effect
    produced, else what an earlier effect of the same happening produced, else the state. The statements of
    _apply_effect that bind the running value are interpreted on the four cases (in the instance map or not) x (in the
    happening's updates or not) with distinguishable values."""
    f = idx.func("engines.plan_validator.TimeTriggeredPlanValidator._apply_effect")
    params = f.params()
    # the local map the instances' results are stored in, and the map of earlier effects (a parameter)
    stores = [a for a in walk_no_nested(f.node) if isinstance(a, ast.Assign) and isinstance(a.targets[0], ast.Subscript) and isinstance(a.targets[0].value, ast.Name)]
    local_maps = sorted({a.targets[0].value.id for a in stores if a.targets[0].value.id not in params})
    if not local_maps:
        raise AnalysisError(f"{rule}: _apply_effect no longer collects the instances' results in a local map")
    res_map = local_maps[0]
    # the running value: the name the Minus/Plus of the decrease / increase is built from
    run = None
    for c in walk_no_nested(f.node):
        if isinstance(c, ast.Call) and call_name(c) in ("Minus", "Plus") and c.args and isinstance(c.args[0], ast.Name):
            run = c.args[0].id
    if run is None:
        raise AnalysisError(f"{rule}: the increase / decrease of _apply_effect is no longer Plus/Minus(<running value>, …)")

    def block_of(stmts):
        for i, st in enumerate(stmts):
            if any(isinstance(a, ast.Assign) and any(isinstance(t, ast.Name) and t.id == run for t in a.targets) for a in ast.walk(st)):
                inner = None
                for fld in ("body", "orelse"):
                    sub = getattr(st, fld, None)
                    if isinstance(st, (ast.For, ast.While, ast.With, ast.Try)) or (isinstance(st, ast.If) and not any(isinstance(t, ast.Name) and t.id == run for a in [st] for t in [])):
                        pass
                # descend while exactly one compound statement contains every binding and it is not an `if` that
                # itself decides the binding (an if/elif chain over the maps is part of the fragment)
                holders = [s2 for s2 in stmts if any(isinstance(a, ast.Assign) and any(isinstance(t, ast.Name) and t.id == run for t in a.targets) for a in ast.walk(s2))]
                if len(holders) == 1 and isinstance(holders[0], (ast.For, ast.While, ast.With, ast.Try)):
                    return block_of(holders[0].body)
                if len(holders) == 1 and isinstance(holders[0], ast.If):
                    h = holders[0]
                    in_test = {x.id for x in ast.walk(h.test) if isinstance(x, ast.Name)}
                    if not ({res_map} | set(params)) & in_test or not any(n_ in in_test for n_ in (res_map, "updates")):
                        for fld in ("body", "orelse"):
                            sub = getattr(h, fld)
                            if any(isinstance(a, ast.Assign) and any(isinstance(t, ast.Name) and t.id == run for t in a.targets) for s3 in sub for a in ast.walk(s3)):
                                other = h.orelse if fld == "body" else h.body
                                if not any(isinstance(a, ast.Assign) and any(isinstance(t, ast.Name) and t.id == run for t in a.targets) for s3 in other for a in ast.walk(s3)):
                                    return block_of(sub)
                first = stmts.index(holders[0])
                last = stmts.index(holders[-1])
                return stmts[first : last + 1]
        return None

    frag = block_of(f.node.body)
    if not frag:
        raise AnalysisError(f"{rule}: the statements binding `{run}` were not found")
    upd_param = next((p_ for p_ in params if p_ == "updates"), None) or next((p_ for p_ in params if "update" in p_), None)
    if upd_param is None:
        raise AnalysisError(f"{rule}: _apply_effect no longer receives the happening's updates")
    fn = ast.FunctionDef(name="_frag", args=ast.arguments(posonlyargs=[], args=[], kwonlyargs=[], kw_defaults=[], defaults=[]), body=list(frag), decorator_list=[])
    interp = _OrderInterp(fn)
    n = 0
    key_names = sorted({norm(a.targets[0].slice) for a in stores if a.targets[0].value.id == res_map and isinstance(a.targets[0].slice, ast.Name)})
    key = key_names[0] if key_names else "g_fluent"
    for in_res in (True, False):
        for in_upd in (True, False):
            n += 1
            env = {key: "g", res_map: ({"g": "FROM-INSTANCES"} if in_res else {}), upd_param: ({"g": "FROM-HAPPENING"} if in_upd else {}), "state": _Stub("state", get_value=lambda k: "FROM-STATE")}
            want = "FROM-INSTANCES" if in_res else "FROM-HAPPENING" if in_upd else "FROM-STATE"
            try:
                interp._block(list(frag), env)
                got = env.get(run)
            except (_OrderInterp.Unsupported, _Returned, _Raised, KeyError) as ex:
                rep.inconclusive(rule, f"the lookup of `{run}` is not interpretable ({type(ex).__name__}: {ex})", f.loc(frag[0]), function=f.qualname)
                continue
            rep.check(got == want, rule, f"running value when the fluent is {'in' if in_res else 'not in'} the instance map and {'in' if in_upd else 'not in'} the happening's updates", f.loc(frag[0]), construct=f"{run} <- {got} (expected {want})", detail="" if got == want else "an instance of a quantified increase / decrease restarts from the value of an earlier *effect* although an earlier *instance* of the same effect already changed the fluent: only the last instance counts, and the time-triggered validator reaches another numeric state than the sequential one for the same action", function=f.qualname)
    rep.count("lookup_cases", n)
    rep.require_min(rule, "lookup_cases", 4)


def c04(idx: Index, rep: Report, tier: str) -> None:
    running_value_lookup_order(idx, rep, "C04.6 T15 running-value-lookup-order")
    from .generic import delegate

    if delegate(idx, rep, tier, "C01", ("C01.1",), "the sequential side of the comparison is the simulator's successor function") < 1:
        raise AnalysisError("C04: the delegated simulator clause vanished")
    interval_helper_exhaustive(idx, rep, "C04.3 T15 interval-states-exhaustive")
    quantified_effects_accumulate(idx, rep, "C04.5 T1 quantified-effects-accumulate")
    same_instant_merge_order_independent(idx, rep, "C04.4 T15 same-instant-merge-order-independent")


def c05(idx: Index, rep: Report, tier: str) -> None:
    interval_helper_exhaustive(idx, rep, "C05.7 T15 interval-states-exhaustive")
    same_instant_merge_order_independent(idx, rep, "C05.8 T15 same-instant-merge-order-independent")

    # the instantiated interval of a condition: lower bound from interval.lower, upper bound from interval.upper (both
    # through _instantiate_timing, i.e. timepoint *and* delay), openness from the interval — on every return
    rule9 = "C05.9 def-use interval-bounds-instantiated-from-their-own-timing"
    ii = idx.func("engines.plan_validator.TimeTriggeredPlanValidator._instantiate_interval")
    ip = ii.params()
    ivar = next((p_ for p_ in ip if p_ != "self"), None)
    icfg = cfg_of(ii)
    idu = DefUse(icfg)
    n9 = 0
    for nd in icfg.nodes:
        if nd.kind != "return" or not isinstance(nd.ast.value, ast.Tuple) or len(nd.ast.value.elts) < 3:
            if nd.kind == "return":
                n9 += 1
                rep.bad(rule9, "_instantiate_interval returns (start, end, left-open)", ii.loc(nd.ast), construct=norm(nd.ast)[:80], detail="the result is not the triple the callers unpack", function=ii.qualname)
            continue
        n9 += 1
        e0, e1, e2 = nd.ast.value.elts[:3]
        def from_(e, attr):
            src = idu.sources(e, nd)
            return any(len(c) >= 2 and c[0] == ivar and c[1].rstrip("()") == attr for c in src)
        def through_timing(e):
            return any(c and c[-1].rstrip("()") == "_instantiate_timing" or (len(c) >= 2 and c[1].rstrip("()") == "_instantiate_timing") for c in idu.sources(e, nd))
        problems = []
        if not (from_(e0, "lower") and through_timing(e0)):
            problems.append("the start is not _instantiate_timing(interval.lower, …)")
        if not (from_(e1, "upper") and through_timing(e1)):
            problems.append("the end is not _instantiate_timing(interval.upper, …)")
        if not from_(e2, "is_left_open"):
            problems.append("the openness is not interval.is_left_open()")
        rep.check(not problems, rule9, "each bound of the instantiated interval comes from its own timing (timepoint and delay)", ii.loc(nd.ast), construct=norm(nd.ast)[:90] + ("" if not problems else " — " + "; ".join(problems)), detail="" if not problems else "a bound is taken from somewhere else than its own timing: two bounds relative to the same timepoint with different delays ([start+1, start+3]) collapse, the condition is checked at one instant (or in no state) and a plan violating it inside the window is accepted", function=ii.qualname)
    rep.count("interval_returns", n9)
    rep.require_min(rule9, "interval_returns", 1)


# ------------------------------------------------------------------------------------ C06
def c06(idx: Index, rep: Report, tier: str) -> None:
    """NegativeConditionsRemover keeps a fluent `not_f` opposite to `f`: every effect `f := v` is mirrored by
    `not_f := Not(v)` (simplified). The mirrored value has to be the negation of the *expression* v — choosing a
    constant from `v.is_true()` is right for constant values only (`f := g` would set not_f := true whatever g is)."""
    rule_pc = "C06.vii T2 every-grounded-effect-is-added"
    cas = idx.func("engines.compilers.utils.create_action_with_given_subs")
    npc = produced_then_consumed(rep, rule_pc, cas, "create_effect_with_given_subs", ("_add_effect_instance",), "every effect of the lifted action that survives the substitution is added to the grounded action", "a grounded effect is skipped for a reason other than being impossible (e.g. because an equal one was already added): increase / decrease effects are not idempotent, so two parameters bound to the same object make the grounded action change the fluent once instead of twice — the simulator's successor and every compiler built on the grounder drift from the lifted semantics")
    rep.count("grounded_effect_sites", npc)
    rep.require_min(rule_pc, "grounded_effect_sites", 2)
    from ..dataflow import reaching_defs, def_value

    rule = "C06.vi T1 mirrored-effect-negates-the-value"
    f = idx.func("engines.compilers.negative_conditions_remover.NegativeConditionsRemover._compile")
    cfg = cfg_of(f)
    rd = reaching_defs(cfg)
    negs = {norm(a.targets[0]) for a in walk_no_nested(f.node) if isinstance(a, ast.Assign) and isinstance(a.targets[0], ast.Name) and isinstance(a.value, ast.Call) and call_name(a.value) == "get" and "mapping" in norm(a.value.func.value)}
    if not negs:
        raise AnalysisError(f"{rule}: the lookup of the negation fluent was not found in NegativeConditionsRemover._compile")
    n = 0
    for node in cfg.nodes:
        if node.ast is None or node.kind != "stmt":
            continue
        for c in ast.walk(node.ast):
            if not (isinstance(c, ast.Call) and call_name(c) == "Effect" and len(c.args) >= 2 and any(isinstance(x, ast.Name) and x.id in negs for x in ast.walk(c.args[0]))):
                continue
            n += 1
            val = c.args[1]
            exprs = [val]
            if isinstance(val, ast.Name):
                exprs = [v for d in rd[node].get(val.id, ()) for v in [def_value(d, val.id)] if v is not None]
            # the original value: the second name of `fl, v = e.fluent, e.value`
            origs = {norm(a.targets[0].elts[1]) for a in ast.walk(f.node) if isinstance(a, ast.Assign) and isinstance(a.targets[0], ast.Tuple) and len(a.targets[0].elts) == 2 and isinstance(a.value, ast.Tuple) and len(a.value.elts) == 2 and isinstance(a.value.elts[1], ast.Attribute) and a.value.elts[1].attr == "value"}
            ok = bool(exprs) and all(any(isinstance(x, ast.Call) and call_name(x) == "Not" and x.args and norm(x.args[0]) in origs for x in ast.walk(e)) for e in exprs)
            rep.check(ok, rule, "the effect on the negation fluent assigns Not(<value of the original effect>)", f.loc(c), construct=f"{norm(c.args[0])[:50]} := {norm(exprs[0])[:70] if exprs else norm(val)}", detail="" if ok else "the mirrored value is not the negation of the effect's value expression: for a non-constant value (`f := g`) the fluent and its negation fluent can both be true after the action, and the compiled problem accepts plans whose `not f` conditions are false in the original", function=f.qualname)
    rep.count("mirrored_effects", n)
    rep.require_min(rule, "mirrored_effects", 2)


# ------------------------------------------------------------------------------------ C10
def c10(idx: Index, rep: Report, tier: str) -> None:
    from ..rules2 import one_shot_local_consumed_twice

    rule = "C10.5 T19 one-shot-iterators-consumed-once"
    mods = ("unified_planning.model.problem", "unified_planning.model.multi_agent.ma_problem", "unified_planning.model.htn.hierarchical_problem", "unified_planning.model.scheduling.scheduling_problem", "unified_planning.model.contingent.contingent_problem", "unified_planning.model.mixins.metrics")
    n = one_shot_local_consumed_twice(rep, rule, [f for f in idx.all_funcs() if f.module.name in mods])
    rep.count("one_shot_locals", n)
    rep.require_min(rule, "one_shot_locals", 1)

    # independent attributes of one element (an effect can be conditional *and* universally quantified) are examined
    # independently: no feature is set on a path that needs one such attribute to hold and another one not to hold
    from ..rules2 import path_facts

    rule7 = "C10.7 T2 independent-attributes-examined-independently"
    FLAGS = ("is_conditional()", "is_forall()")
    n7 = 0
    for f in [x for x in idx.all_funcs() if x.module.name in mods and "kind" in x.node.name]:
        sets = [c for c in walk_no_nested(f.node) if isinstance(c, ast.Call) and isinstance(c.func, ast.Attribute) and c.func.attr.startswith(("set_", "unset_")) and c.args and isinstance(c.args[0], ast.Constant) and isinstance(c.args[0].value, str)]
        if not sets:
            continue
        cfg = cfg_of(f)
        for c in sets:
            nds = cfg.node_containing(c)
            if not nds:
                continue
            facts = path_facts(cfg, nds[0])
            pos = {t for t, v in facts if v and t.endswith(FLAGS)}
            neg = {t for t, v in facts if not v and t.endswith(FLAGS)}
            if not pos and not neg:
                continue
            n7 += 1
            clash = [(p_, q) for p_ in pos for q in neg if p_.rsplit(".", 1)[0] == q.rsplit(".", 1)[0]]
            rep.check(not clash, rule7, f"{c.func.attr}({c.args[0].value!r}) does not depend on an unrelated attribute being absent", f.loc(c), construct=f"{c.func.attr}({c.args[0].value!r}) under {sorted(pos)}" + ("" if not clash else f" and not {clash[0][1]}"), detail="" if not clash else f"`{clash[0][1]}` and `{clash[0][0]}` are independent attributes of the same element, but this feature is recorded only when the first is false (an `elif` where an `if` was meant): an element that has both is classified by one of them only and the kind misses the other feature", function=f.qualname)
    rep.count("flag_guarded_feature_sites", n7)
    rep.require_min(rule7, "flag_guarded_feature_sites", 3)
    # a visit of the kind computation may be skipped for an element already visited, never for one that merely
    # shares an attribute (its name) with a visited element
    rule2 = "C10.6 T24 visits-not-skipped-by-attribute"
    k = 0
    for f in [f for f in idx.all_funcs() if f.module.name in mods]:
        cfg = None
        for c in walk_no_nested(f.node):
            if not (isinstance(c, ast.Call) and (call_name(c) or "").startswith(("update_problem_kind", "_update_problem_kind", "_update_kind")) and c.args and isinstance(c.args[0], ast.Name)):
                continue
            cfg = cfg or cfg_of(f)
            nds = cfg.node_containing(c)
            if not nds:
                continue
            k += 1
            x = c.args[0].id
            bad = None
            for t, o in guards_dominating(cfg, nds[0]):
                for cmp_ in ast.walk(t.ast):
                    if isinstance(cmp_, ast.Compare) and len(cmp_.ops) == 1 and isinstance(cmp_.ops[0], (ast.In, ast.NotIn)) and isinstance(cmp_.left, ast.Attribute) and norm(cmp_.left.value) == x and isinstance(cmp_.comparators[0], ast.Name):
                        bad = cmp_
            rep.check(bad is None, rule2, f"{f.short}: the visit of `{x}` is not skipped on the strength of one of its attributes", f.loc(c), construct=norm(c)[:60] + ("" if bad is None else f" guarded by `{norm(bad)}`"), detail="" if bad is None else f"two different elements with the same `{norm(bad.left).split('.')[-1]}` (the same fluent name declared with another type by another agent) count as one: the features of the later one never reach the kind", function=f.qualname)
    rep.count("kind_visits", k)


# ------------------------------------------------------------------------------------ C11
REFLEXIVE_FOLD = {"walk_lt": "FALSE", "walk_le": "TRUE", "walk_equals": "TRUE", "walk_iff": "TRUE", "walk_implies": "TRUE"}


def c11(idx: Index, rep: Report, tier: str) -> None:
    # a handler of the simplifier is given the node and the *simplified* children: whatever depends on the children
    # (a rebuilt node, a lookup key, a comparison) is built from `args`. The un-simplified node itself may be asked for
    # what simplification cannot change (its fluent, variables, payload, type), never used as a whole or for its
    # children — `expression` as a key, `expression.args`, `expression.arg(i)` denote the node before simplification
    rule7 = "C11.7 T1 results-are-built-from-the-simplified-children"
    simp = idx.cls("model.walkers.simplifier.Simplifier")
    n7 = 0
    for hname, h in sorted(simp.methods.items()):
        if not hname.startswith("walk_") or hname == "walk_identity":
            continue
        params = h.params()
        if len(params) < 3:
            continue
        node_param = params[1]
        n7 += 1
        parents = {}
        for nn in ast.walk(h.node):
            for ch in ast.iter_child_nodes(nn):
                parents[ch] = nn
        offending = []
        for nn in ast.walk(h.node):
            if isinstance(nn, ast.Name) and nn.id == node_param and isinstance(nn.ctx, ast.Load):
                par = parents.get(nn)
                if isinstance(par, ast.Attribute) and par.value is nn:
                    if par.attr in ("args", "arg"):
                        offending.append(par)
                    continue
                if isinstance(par, ast.Call) and call_name(par) in ("isinstance", "str", "repr", "type") :
                    continue
                if isinstance(par, (ast.JoinedStr, ast.FormattedValue)):
                    continue
                offending.append(nn)
        ok = not offending
        st = offending[0] if offending else None
        while st is not None and not isinstance(st, ast.stmt):
            st = parents.get(st)
        rep.check(ok, rule7, f"{hname} does not use the un-simplified node for what its children decide", h.loc(st) if st is not None else h.loc(), construct=f"{hname}: " + ("only attributes of the node that simplification keeps" if ok else f"`{norm(st)[:70]}`"), detail="" if ok else "the handler uses the node as it was before its children were simplified (as a lookup key, or through .args / .arg): when a child only becomes a constant by simplification the old node is not what the tables know, the lookup falls back to a default and the expression is rewritten to another value", function=h.qualname)
    rep.count("simplifier_handlers", n7)
    rep.require_min(rule7, "simplifier_handlers", 20)
    from .extra2 import guard_atoms

    sim = idx.cls("model.walkers.simplifier.Simplifier")
    # (a) identical operands: t < t is false, t <= t / t == t / t <-> t / t -> t are true
    rule = "C11.5 T7 identical-operands-fold"
    n = 0
    for name, want in REFLEXIVE_FOLD.items():
        m = sim.methods.get(name)
        if m is None:
            raise AnalysisError(f"{rule}: Simplifier.{name} vanished")
        cfg = cfg_of(m)
        for nd in cfg.nodes:
            if nd.kind != "return" or not (isinstance(nd.ast.value, ast.Call) and call_name(nd.ast.value) in ("TRUE", "FALSE")):
                continue
            same = False
            for t, o in guards_dominating(cfg, nd):
                for a in guard_atoms(t.ast, o):
                    parts = a.split(" == ")
                    if len(parts) == 2 and all(p.isidentifier() or p.startswith("args[") for p in parts) and parts[0] != parts[1] and not any(p in ("None", "True", "False") for p in parts):
                        same = True
            if not same:
                continue
            n += 1
            got = call_name(nd.ast.value)
            rep.check(got == want, rule, f"{name}: identical operands fold to {want}", m.loc(nd.ast), construct=f"{name}: operands equal -> {got}", detail="" if got == want else f"`t {'<' if name == 'walk_lt' else '?'} t` is folded to {got}: a strict comparison of a term with itself is false (the fold was copied from a reflexive operator)", function=m.qualname)
    rep.count("identical_operand_folds", n)
    # (b) an equality eliminates a variable only if this quantifier binds it
    rule_b = "C11.6 T2 elimination-only-of-bound-variables"
    we = sim.methods.get("walk_exists")
    if we is None:
        raise AnalysisError(f"{rule_b}: Simplifier.walk_exists vanished")
    cfg = cfg_of(we)
    bound_sets = {norm(a.targets[0]) for a in walk_no_nested(we.node) if isinstance(a, ast.Assign) and isinstance(a.targets[0], ast.Name) and any(isinstance(c, ast.Call) and call_name(c) == "variables" for c in ast.walk(a.value))}
    k = 0
    for nd, c in cfg_nodes_with_call(cfg, "substitute"):
        k += 1
        def membership_facts(t, o):
            """`x in S` facts implied by test t having outcome o"""
            if isinstance(t, ast.UnaryOp) and isinstance(t.op, ast.Not):
                return membership_facts(t.operand, not o)
            if isinstance(t, ast.BoolOp) and ((isinstance(t.op, ast.And) and o) or (isinstance(t.op, ast.Or) and not o)):
                out = set()
                for v in t.values:
                    out |= membership_facts(v, o)
                return out
            if isinstance(t, ast.Compare) and len(t.ops) == 1 and isinstance(t.ops[0], (ast.In, ast.NotIn)) and (isinstance(t.ops[0], ast.In) == o):
                return {(norm(t.left), norm(t.comparators[0]))}
            return set()

        facts = set()
        for t, o in guards_dominating(cfg, nd):
            facts |= membership_facts(t.ast, o)
        ok = any(".variable()" in l and r in bound_sets for l, r in facts)
        if not ok and c.args and isinstance(c.args[0], ast.Dict) and len(c.args[0].keys) == 1 and isinstance(c.args[0].keys[0], ast.Name):
            # the search for the equality may have been extracted into a private helper that returns (…, variable,
            # value): the test is then looked for on the paths to the helper's tuple-returning statements
            from ..rules2 import through_helper

            th = through_helper(sim, we, c.args[0].keys[0].id)
            if th is not None:
                h, hname, pmap, rets = th
                hcfg = cfg_of(h)
                good = []
                for r in rets:
                    rn = [x for x in hcfg.nodes if x.ast is r]
                    hf = set()
                    for t, o in (guards_dominating(hcfg, rn[0]) if rn else []):
                        hf |= membership_facts(t.ast, o)
                    good.append(any(l.startswith(hname + ".variable()") and pmap.get(r_, r_) in bound_sets for l, r_ in hf))
                ok = bool(good) and all(good)
        rep.check(ok, rule_b, "walk_exists substitutes a variable away only if this Exists binds it", we.loc(c), construct=norm(c)[:70] + (" under `… .variable() in <bound variables>`" if ok else " without a test that the variable is bound here"), detail="" if ok else "an equality between terms of the enclosing scope is used to eliminate a variable this quantifier does not bind: the equality disappears and a free variable is replaced in the body (Exists x. (y == z and p(x, z)) becomes Exists x. p(x, y))", function=we.qualname)
    rep.count("eliminations", k)
    rep.require_min(rule_b, "eliminations", 1)


# ------------------------------------------------------------------------------------ C12
def dnf_conjunctions_kept(idx: Index, rep: Report, rule: str) -> None:
    """a candidate conjunction is dropped only when the simplifier says it is false"""
    wa = idx.func("model.walkers.dnf.Dnf.walk_and")
    cfg = cfg_of(wa)
    appends = {nd for nd, c in cfg_nodes_with_call(cfg, "append")}
    n = 0
    for l in cfg.nodes:
        if l.kind != "for":
            continue
        if not any(nd.ast is not None and any(x is nd.ast for st in l.owner.body for x in ast.walk(st)) for nd in appends):
            continue
        n += 1

        def skip(x, y, label):
            # the only licensed way past the appends: the True edge of an `.is_false()` test
            return x.kind == "test" and isinstance(x.ast, ast.Call) and call_name(x.ast) == "is_false" and (label is True or (isinstance(label, tuple) and True in label))

        first = [s for s in cfg.g.successors(l) if cfg.g[l][s].get("label") is True or (isinstance(cfg.g[l][s].get("label"), tuple) and True in cfg.g[l][s].get("label"))]
        w = None
        for s_ in first:
            if s_ not in appends:
                w = w or cfg.path_avoiding(s_, l, appends, skip_edge=skip)
        rep.check(w is None, rule, "Dnf.walk_and: every candidate conjunction is kept unless it simplifies to false", wa.loc(l.owner), construct=f"for {norm(l.owner.target)} in {norm(l.owner.iter)}: " + ("appended or proven false" if w is None else "an iteration can end without either"), detail="" if w is None else "a conjunction is discarded by a test of its own (not by the simplifier's verdict): a satisfiable disjunct disappears and the DNF can be false where the input is true", function=wa.qualname, path=path_text(w) if w else None)
    rep.count("conjunction_loops", n)
    rep.require_min(rule, "conjunction_loops", 1)


def c12(idx: Index, rep: Report, tier: str) -> None:
    dnf_conjunctions_kept(idx, rep, "C12.4 T2 conjunction-dropped-only-if-false")
    # (b) every result of get_dnf_expression is the disjunction of the conjunctions (Or() of nothing is false)
    rule_b = "C12.5 result-is-the-disjunction"
    gd = idx.func("model.walkers.dnf.Dnf.get_dnf_expression")
    rets = [r for r in walk_no_nested(gd.node) if isinstance(r, ast.Return) and r.value is not None]
    for r in rets:
        v = r.value
        ok = isinstance(v, ast.Call) and call_name(v) == "Or" and len(v.args) == 1 and isinstance(v.args[0], (ast.GeneratorExp, ast.ListComp)) and isinstance(v.args[0].elt, ast.Call) and call_name(v.args[0].elt) == "And"
        rep.check(ok, rule_b, "get_dnf_expression returns Or(And(c) for c in conjunctions) on every path", gd.loc(r), construct=norm(v)[:80], detail="" if ok else "a special case returns something else: for an unsatisfiable input there is no conjunction, And() of nothing is true where Or() of nothing is false", function=gd.qualname)


# ------------------------------------------------------------------------------------ C07
def sticky_flags(idx: Index, rep: Report, rule: str, funcs) -> int:
    """A flag that is raised inside a loop and tested inside the same loop to skip the rest of an iteration describes
    *that* iteration: it has to be lowered again inside the loop. If its only `= False` is outside, the first
    iteration that raises it makes every later iteration skip as well."""
    n = 0
    for f in funcs:
        for l in [x for x in ast.walk(f.node) if isinstance(x, (ast.For, ast.While))]:
            body_nodes = [x for st in l.body for x in ast.walk(st)]
            raised = {norm(a.targets[0]) for a in body_nodes if isinstance(a, ast.Assign) and isinstance(a.targets[0], ast.Name) and isinstance(a.value, ast.Constant) and a.value.value is True}
            for x in sorted(raised):
                tested = [t for t in body_nodes if isinstance(t, ast.If) and ((isinstance(t.test, ast.Name) and t.test.id == x) or (isinstance(t.test, ast.UnaryOp) and isinstance(t.test.operand, ast.Name) and t.test.operand.id == x))]
                skipping = [t for t in tested if any(isinstance(y, (ast.Continue, ast.Break)) for st in (t.body if isinstance(t.test, ast.Name) else t.orelse) for y in ast.walk(st)) or isinstance(t.test, ast.UnaryOp)]
                if not skipping:
                    continue
                # innermost loop that contains both the raising and the test
                inner = [m for m in body_nodes if isinstance(m, (ast.For, ast.While)) and any(t is y for t in skipping for st in m.body for y in ast.walk(st)) and any(isinstance(a, ast.Assign) and norm(a.targets[0]) == x and isinstance(a.value, ast.Constant) and a.value.value is True for st in m.body for a in ast.walk(st))]
                if inner:
                    continue  # judged at the inner loop
                n += 1
                lowered_inside = any(isinstance(a, ast.Assign) and isinstance(a.targets[0], ast.Name) and a.targets[0].id == x and isinstance(a.value, ast.Constant) and a.value.value is False for a in body_nodes)
                rep.check(lowered_inside, rule, f"{f.short}: the per-iteration flag `{x}` is lowered inside the loop that tests it", f.loc(l), construct=f"for/while at line {l.lineno}: `{x}` raised and tested in the loop, " + ("reset in the loop" if lowered_inside else "initialised only outside"), detail="" if lowered_inside else f"once one iteration raises `{x}` every later iteration is skipped as well: the variants / elements that come after the first rejected one are lost", function=f.qualname)
    return n


def c07(idx: Index, rep: Report, tier: str) -> None:
    rule = "C07.6 per-iteration-flags-reset"
    n = sticky_flags(idx, rep, rule, [f for f in idx.all_funcs() if f.module.name.startswith("unified_planning.engines.compilers.")])
    rep.count("per_iteration_flags", n)
    # how many such flags the compilers have is incidental (a `for … else` needs none): the detector is kept honest by
    # a fixture that must match on every run, not by a minimum on the tree
    class _Fx:
        short = qualname = "fixture"

        def __init__(self, src):
            self.node = ast.parse(src).body[0]

        def loc(self, n=None):
            return "fixture:1"

    probe = Report(rep.prop, rep.tier, 0)
    got = sticky_flags(idx, probe, rule, [_Fx("def f(xs):\n    bad = False\n    for x in xs:\n        if x < 0:\n            bad = True\n        if bad:\n            continue\n        yield x\n"), _Fx("def g(xs):\n    for x in xs:\n        bad = False\n        if x < 0:\n            bad = True\n        if bad:\n            continue\n        yield x\n")])
    if got != 2 or [o.ok for o in probe.obligations] != [False, True]:
        raise AnalysisError(f"{rule}: the sticky-flag fixture no longer matches (positive must fire, negative must pass)")
    dnf_conjunctions_kept(idx, rep, "C07.7 T2 conjunction-dropped-only-if-false")

    # UndefinedInitialNumericRemover asks a fluent to be defined before an action *reads* it. Which effects read their
    # own target is fixed by the effect semantics: increase and decrease do (read-modify-write), an assignment —
    # conditional or not — does not. The target fluents added to the read expressions are filtered by exactly these
    # two predicates; anything more makes the action that first defines the fluent wait for the fluent to be defined.
    rule8 = "C07.8 T7 only-read-modify-write-effects-read-their-target"
    uinr = [x for x in idx.all_funcs() if x.module.name == "unified_planning.engines.compilers.undefined_initial_numeric_remover"]
    n8 = 0
    for f in uinr:
        for lc in walk_no_nested(f.node):
            if not isinstance(lc, (ast.ListComp, ast.GeneratorExp, ast.SetComp)) or len(lc.generators) != 1:
                continue
            g = lc.generators[0]
            if not (isinstance(g.target, ast.Name) and isinstance(lc.elt, ast.Attribute) and lc.elt.attr == "fluent" and norm(lc.elt.value) == g.target.id and g.ifs):
                continue
            preds = {c.func.attr for t in g.ifs for c in ast.walk(t) if isinstance(c, ast.Call) and isinstance(c.func, ast.Attribute) and norm(c.func.value) == g.target.id and c.func.attr.startswith("is_")}
            if not preds:
                continue  # not a selection by effect kind (e.g. the fluents an action *writes*)
            n8 += 1
            ok = preds == {"is_increase", "is_decrease"}
            rep.check(ok, rule8, "the targets counted as read are those of increase / decrease effects", f.loc(lc), construct=f"[{norm(lc.elt)} for … if {' / '.join(sorted(preds))}]", detail="" if ok else "an effect kind that does not read its target (an assignment, also a conditional one) is counted as reading it, or a kind that does is not: the compiled action either requires the fluent to be defined before the very action that defines it (no plan of the original problem survives), or reads an undefined fluent", function=f.qualname)
        # statement form: `if eff.is_increase() or eff.is_decrease(): <list>.append(eff.fluent)`
        import re as _re
        from ..rules2 import path_facts

        cfg8 = None
        for c in walk_no_nested(f.node):
            if not (isinstance(c, ast.Call) and call_name(c) in ("append", "add") and len(c.args) == 1 and isinstance(c.args[0], ast.Attribute) and c.args[0].attr == "fluent" and isinstance(c.args[0].value, ast.Name)):
                continue
            cfg8 = cfg8 or cfg_of(f)
            nds = cfg8.node_containing(c)
            if not nds:
                continue
            recv = c.args[0].value.id
            preds = set()
            for txt, val in path_facts(cfg8, nds[0]):
                preds |= set(_re.findall(r"\b" + _re.escape(recv) + r"\.(is_\w+)\(\)", txt))
            if not preds:
                continue
            n8 += 1
            ok = preds == {"is_increase", "is_decrease"}
            rep.check(ok, rule8, "the targets counted as read are those of increase / decrease effects", f.loc(c), construct=f"{norm(c)[:50]} under {' / '.join(sorted(preds))}", detail="" if ok else "an effect kind that does not read its target is counted as reading it, or one that does is not (see the comprehension form of this clause)", function=f.qualname)
    rep.count("target_read_filters", n8)
    rep.require_min(rule8, "target_read_filters", 2)


# ------------------------------------------------------------------------------------ C13

# ------------------------------------------------------------------------------------ C13 (more)
def manager_constructors(idx: Index) -> Dict[str, Set[str]]:
    """OperatorKind member -> names of the ExpressionManager methods that build a node of that kind (read off the
    `create_node(node_type=OperatorKind.X, …)` calls)."""
    em = idx.cls("model.expression.ExpressionManager")
    out: Dict[str, Set[str]] = {}
    for m in em.methods.values():
        for c in walk_no_nested(m.node):
            if isinstance(c, ast.Call) and call_name(c) == "create_node":
                for a in list(c.args) + [k.value for k in c.keywords]:
                    if isinstance(a, ast.Attribute) and norm(a.value).endswith("OperatorKind"):
                        out.setdefault(a.attr, set()).add(m.name)
    return out


def identity_rebuild_agrees(idx: Index, rep: Report, rule: str) -> None:
    """IdentityDagWalker rebuilds every node with the constructor of the node's own operator: the handler registered
    for OperatorKind.X returns self.manager.<a constructor that builds X nodes>."""
    from ..walkersdb import WalkerDB

    db = WalkerDB(idx)
    ci = idx.cls("model.walkers.identitydag.IdentityDagWalker")
    ctors = manager_constructors(idx)
    h = db.handlers(ci)
    n = 0
    for member in db.ops.members:
        m = h.get(member)
        if m is None or m.cls is not ci:
            continue
        rets = [r for r in walk_no_nested(m.node) if isinstance(r, ast.Return) and isinstance(r.value, ast.Call) and isinstance(r.value.func, ast.Attribute) and norm(r.value.func.value).endswith("manager")]
        for r in rets:
            n += 1
            got = r.value.func.attr
            want = ctors.get(member, set())
            if want <= {"__init__"}:
                continue  # the two Boolean constants are built once, in the manager's constructor
            ok = got in want
            rep.check(ok, rule, f"the handler of {member} rebuilds the node with a constructor of {member} nodes", m.loc(r), construct=f"{m.name}: self.manager.{got}(…)" + ("" if ok else f", constructors of {member}: {sorted(want)}"), detail="" if ok else f"every substitution (and every other identity walk) that passes through a {member} node turns it into a node of another operator, even when no key occurs in it", function=m.qualname)
    rep.count("identity_handlers", n)
    rep.require_min(rule, "identity_handlers", 25)


def lookup_sentinel(idx: Index, rep: Report, rule: str) -> None:
    """walk_replace_or_identity decides "is this node a key?" by a lookup whose not-found value cannot be a value of
    the map: None / a membership test, never the node itself (a key mapped to itself would look absent)."""
    wr = idx.func("model.walkers.substituter.Substituter.walk_replace_or_identity")
    gets = [c for c in walk_no_nested(wr.node) if isinstance(c, ast.Call) and call_name(c) == "get" and c.args]
    members = [c for c in walk_no_nested(wr.node) if isinstance(c, ast.Compare) and isinstance(c.ops[0], (ast.In, ast.NotIn))]
    if not gets and not members:
        raise AnalysisError(f"{rule}: no lookup of the node in the map in walk_replace_or_identity")
    for c in gets:
        default = c.args[1] if len(c.args) > 1 else None
        ok = default is None or (isinstance(default, ast.Constant) and default.value is None)
        rep.check(ok, rule, "the not-found value of the key lookup is None", wr.loc(c), construct=norm(c), detail="" if ok else f"`{norm(default)}` is used as the not-found value: a key that the map sends to that very value (an identity pair k -> k) is treated as absent, the node is rebuilt from its substituted children and keys nested inside it are replaced", function=wr.qualname)


def quantifier_result_goes_through_the_handler(idx: Index, rep: Report, rule: str) -> None:
    """Substituter handles quantifiers itself (the body is substituted with a reduced map), but what it memoises for
    the quantifier node must still be what the registered handler returns for it (`self.functions[node_type]`, i.e.
    walk_replace_or_identity: the one place where the node itself is looked up in the map). Every definition of the
    memoised value that reaches the store is a call of that handler."""
    from ..dataflow import reaching_defs

    f = idx.func("model.walkers.substituter.Substituter._push_with_children_to_stack")
    cfg = cfg_of(f)
    rd = reaching_defs(cfg)
    handlers = {a.targets[0].id for a in walk_no_nested(f.node) if isinstance(a, ast.Assign) and len(a.targets) == 1 and isinstance(a.targets[0], ast.Name) and isinstance(a.value, ast.Subscript) and norm(a.value.value) == "self.functions"}
    n = 0
    for nd in cfg.nodes:
        a = nd.ast
        if not (isinstance(a, ast.Assign) and isinstance(a.targets[0], ast.Subscript) and norm(a.targets[0].value) == "self.memoization" and isinstance(a.value, ast.Name)):
            continue
        n += 1
        defs = rd[nd].get(a.value.id, set())
        bad = []
        for d in defs:
            v = getattr(d.ast, "value", None)
            ok_d = isinstance(d.ast, ast.Assign) and isinstance(v, ast.Call) and ((isinstance(v.func, ast.Name) and v.func.id in handlers) or (isinstance(v.func, ast.Subscript) and norm(v.func.value) == "self.functions"))
            if not ok_d:
                bad.append(d)
        ok = bool(defs) and not bad
        rep.check(ok, rule, "the value memoised for a quantifier node is the handler's result", f.loc(a), construct=f"{norm(a)[:60]} — " + ("every reaching definition calls self.functions[node_type]" if ok else f"`{norm(bad[0].ast)[:60]}` also reaches it" if bad else "no definition found"), detail="" if ok else "on some path the quantifier node is memoised without having been passed to its handler: the handler is where the node itself is matched against the substitution map, so a key that is a quantified expression is left unreplaced on that path (and replaced on the others)", function=f.qualname)
    rep.count("quantifier_memo_stores", n)
    rep.require_min(rule, "quantifier_memo_stores", 1)


def c13(idx: Index, rep: Report, tier: str) -> None:
    identity_rebuild_agrees(idx, rep, "C13.6 T7 identity-rebuild-agrees")
    lookup_sentinel(idx, rep, "C13.7 lookup-sentinel")
    quantifier_result_goes_through_the_handler(idx, rep, "C13.8 def-use quantifier-result-goes-through-the-handler")
    """Inside a quantifier a pair (k -> v) may be applied only if that cannot capture: besides the variables of the
    key k, the variables of the inserted value v must be compared with the bound variables (and the bound variable
    renamed, or the pair set aside). Substituter consults get_free_variables(k) only."""
    rule = "C13.5 T1 capture-avoidance-consults-the-inserted-values"
    pw = idx.func("model.walkers.substituter.Substituter._push_with_children_to_stack")
    entry_q = pw.qualname
    class _CompLoop:
        """a `{k: v for k, v in m.items() if …}` clause seen as the loop it stands for"""

        def __init__(self, comp, gen):
            self.target, self.iter, self.body = gen.target, gen.iter, [ast.Expr(value=t) for t in gen.ifs]
            self.lineno, self.col_offset = comp.lineno, comp.col_offset
            self.end_lineno, self.end_col_offset = getattr(comp, "end_lineno", comp.lineno), getattr(comp, "end_col_offset", 0)

    def _map_loops(fn):
        out = [l for l in walk_no_nested(fn.node) if isinstance(l, ast.For) and isinstance(l.target, ast.Tuple) and len(l.target.elts) == 2 and isinstance(l.iter, ast.Call) and call_name(l.iter) == "items"]
        for c in walk_no_nested(fn.node):
            if isinstance(c, (ast.DictComp, ast.ListComp, ast.GeneratorExp)):
                for g in c.generators:
                    if isinstance(g.target, ast.Tuple) and len(g.target.elts) == 2 and isinstance(g.iter, ast.Call) and call_name(g.iter) == "items" and g.ifs:
                        out.append(_CompLoop(c, g))
        return out

    loops = _map_loops(pw)
    if not loops:
        # the filtering of the map may have been extracted into a private helper of the class
        sc = idx.cls("model.walkers.substituter.Substituter")
        for c in walk_no_nested(pw.node):
            if isinstance(c, ast.Call) and isinstance(c.func, ast.Attribute) and norm(c.func.value) == "self" and c.func.attr.startswith("_") and c.func.attr in sc.methods and _map_loops(sc.methods[c.func.attr]):
                pw = sc.methods[c.func.attr]
                loops = _map_loops(pw)
                break
    if not loops:
        raise AnalysisError(f"{rule}: the loop over the substitution map was not found in _push_with_children_to_stack (or a helper it calls)")
    for l in loops:
        kname, vname = (norm(x) for x in l.target.elts)
        consulted = {norm(c.args[0]) for st in l.body for c in ast.walk(st) if isinstance(c, ast.Call) and call_name(c) == "get_free_variables" and c.args}
        rep.check(kname in consulted, rule, "the free variables of each key are compared with the bound variables", pw.loc(l), construct=f"get_free_variables({kname})" if kname in consulted else f"consults {sorted(consulted)}", function=entry_q)
        ok = vname in consulted
        rep.check(ok, rule, "the free variables of each inserted value are compared with the bound variables", pw.loc(l), construct="get_free_variables(<value>)" if ok else "free variables are computed for what gets replaced only — never for what gets inserted", detail="" if ok else "a value that mentions a variable with the name of a variable bound inside the expression is inserted under that quantifier and captured: substituting x := y in `Forall y. q(x, y)` gives `Forall y. q(y, y)`; Simplifier.walk_exists relies on this substitution, so `Exists x. (x == y and Forall y. q(x, y))` simplifies to `Forall y. q(y, y)`", function=entry_q)



def bounded_type_selection(idx: Index, rep: Report, rule: str) -> None:
    """BoundedTypesRemover rewrites a numeric fluent exactly when its type has a lower *or* an upper bound. The guard
    of the rewriting branch is evaluated on the four combinations (bound present / absent) x (int / real)."""
    f = idx.func("engines.compilers.bounded_types_remover.BoundedTypesRemover._compile")
    mod = f.module
    branches = [i for i in ast.walk(f.node) if isinstance(i, ast.If) and any(isinstance(a, ast.Assign) and isinstance(a.value, ast.Call) and call_name(a.value) == "Fluent" for st in i.body for a in ast.walk(st))]
    if not branches:
        raise AnalysisError(f"{rule}: the branch that rebuilds a bounded fluent was not found in BoundedTypesRemover._compile")
    top = branches[0]
    chain = []
    cur = top
    while isinstance(cur, ast.If):
        chain.append(cur)
        cur = cur.orelse[0] if len(cur.orelse) == 1 and isinstance(cur.orelse[0], ast.If) else None
    loop = [l for l in ast.walk(f.node) if isinstance(l, ast.For) and any(x is top for x in ast.walk(l))]
    if not loop or not isinstance(loop[0].target, ast.Name):
        rep.inconclusive(rule, "BoundedTypesRemover._compile: loop over the fluents not recognised", f.loc(top), function=f.qualname)
        return
    fl = loop[0].target.id
    interp = _OrderInterp(f.node)
    interp.helpers = {name: fi.node for name, fi in mod.functions.items()}

    def ty(kind, lo, hi):
        return _Stub(f"{kind}[{lo},{hi}]", is_int_type=(kind == "int"), is_real_type=(kind == "real"), lower_bound=lo, upper_bound=hi, _key=(kind, lo, hi))

    consts = {}
    for a in walk_no_nested(f.node):
        if isinstance(a, ast.Assign) and isinstance(a.targets[0], ast.Name) and isinstance(a.value, ast.Call) and call_name(a.value) in ("IntType", "RealType") and not a.value.args and not a.value.keywords:
            consts[a.targets[0].id] = ty("int" if call_name(a.value) == "IntType" else "real", None, None)
    n = 0
    try:
        for kind in ("int", "real"):
            for lo in (None, 0):
                for hi in (None, 5):
                    env = dict(consts)
                    env["self"] = None
                    env[fl] = _Stub("fluent", type=ty(kind, lo, hi))
                    taken = any(bool(interp._expr(c.test, dict(env))) for c in chain)
                    want = lo is not None or hi is not None
                    n += 1
                    rep.check(taken == want, rule, f"a fluent of type {kind}[{lo}, {hi}] is " + ("rewritten to the unbounded type" if want else "left as it is"), f.loc(top), construct=f"{kind}[{lo}, {hi}]: rewritten={taken}", detail="" if taken == want else "a fluent whose type is bounded on one side only keeps its bounded type: the compiled problem still has BOUNDED_TYPES (undeclared) and the bound is not turned into a condition", function=f.qualname, strict=True)
    except _OrderInterp.Unsupported as u:
        rep.inconclusive(rule, f"the guard of the rewriting branch is not interpretable ({u})", f.loc(top), function=f.qualname)
        return
    rep.count("bound_combinations", n)


def undefined_fluents_all_handled(idx: Index, rep: Report, rule: str) -> None:
    """UndefinedInitialNumericRemover gives a value and a tracker to *every* fluent with undefined values: the
    collection it works on is the result of _fluents_with_undefined_values(), not a filtered part of it."""
    f = idx.func("engines.compilers.undefined_initial_numeric_remover.UndefinedInitialNumericRemover._compile")
    uses = [a for a in walk_no_nested(f.node) if isinstance(a, ast.Assign) and any(isinstance(c, ast.Call) and call_name(c) == "_fluents_with_undefined_values" for c in ast.walk(a.value))]
    if not uses:
        raise AnalysisError(f"{rule}: _fluents_with_undefined_values() is no longer consulted")
    for a in uses:
        v = a.value
        while isinstance(v, ast.Call) and call_name(v) in ("list", "set", "sorted", "tuple", "frozenset") and len(v.args) == 1:
            v = v.args[0]
        ok = isinstance(v, ast.Call) and call_name(v) == "_fluents_with_undefined_values"
        rep.check(ok, rule, "every fluent with undefined values is handled", f.loc(a), construct=norm(a)[:100], detail="" if ok else "only a filtered part of the fluents with undefined initial values gets a value: the others stay undefined and the compiled problem still has UNDEFINED_INITIAL_NUMERIC, which resulting_problem_kind declares removed", function=f.qualname)


READD_ITEM = {"add_precondition": "preconditions", "add_condition": "conditions", "add_effect": "effects", "_add_effect_instance": "effects", "add_increase_effect": "effects", "add_decrease_effect": "effects"}
READD = {"add_goal": "goals", "add_timed_goal": "timed_goals", "add_trajectory_constraint": "trajectory_constraints", "add_quality_metric": "quality_metrics", "add_timed_effect": "timed_effects", "_add_effect_instance": "timed_effects"}


def rebuilt_collections_cleared(idx: Index, rep: Report, rule: str) -> None:
    """A compiler that starts from `problem.clone()` and re-adds the rewritten goals / timed goals / trajectory
    constraints / metrics / timed effects of the original (a loop over `<original>.<collection>` that calls
    `<clone>.add_…`) must have emptied that collection of the clone first: otherwise the un-rewritten originals stay in
    the result next to their rewriting, with the very features the compiler declares to have removed."""
    n = 0
    for f in idx.all_funcs():
        if not f.module.name.startswith("unified_planning.engines.compilers."):
            continue
        clones = {a.targets[0].id for a in walk_no_nested(f.node) if isinstance(a, ast.Assign) and len(a.targets) == 1 and isinstance(a.targets[0], ast.Name) and isinstance(a.value, ast.Call) and call_name(a.value) == "clone"}
        if not clones:
            continue
        # elements of a clone (its actions, looked up or iterated) are copies too
        parts = set()
        for a in walk_no_nested(f.node):
            if isinstance(a, ast.For) and isinstance(a.target, ast.Name) and any(isinstance(x, ast.Name) and x.id in clones for x in ast.walk(a.iter)):
                parts.add(a.target.id)
            if isinstance(a, ast.Assign) and len(a.targets) == 1 and isinstance(a.targets[0], ast.Name) and isinstance(a.value, ast.Call) and isinstance(a.value.func, ast.Attribute) and isinstance(a.value.func.value, ast.Name) and a.value.func.value.id in clones and a.value.func.attr != "clone":
                parts.add(a.targets[0].id)
        cfg = None
        for l in walk_no_nested(f.node):
            if not isinstance(l, ast.For):
                continue
            colls = {x.attr for x in ast.walk(l.iter) if isinstance(x, ast.Attribute)}
            adds = {}
            for c in ast.walk(l):
                if isinstance(c, ast.Call) and isinstance(c.func, ast.Attribute) and isinstance(c.func.value, ast.Name):
                    r = c.func.value.id
                    if c.func.attr in READD and r in clones and READD[c.func.attr] in colls and f.node.name == "_compile":
                        adds.setdefault((r, READD[c.func.attr]), c)
                    elif c.func.attr in READD_ITEM and r in (clones | parts) and READD_ITEM[c.func.attr] in colls:
                        adds.setdefault((r, READD_ITEM[c.func.attr]), c)
            for (np_, coll), c in sorted(adds.items()):
                if any(isinstance(x, ast.Name) and x.id == np_ for x in ast.walk(l.iter)):
                    continue  # iterating the clone's own collection is another idiom
                n += 1
                cfg = cfg or cfg_of(f)
                clears = {nd for nd, cc in cfg_nodes_with_call(cfg, "clear_" + coll) if isinstance(cc.func, ast.Attribute) and norm(cc.func.value) == np_}
                heads = [nd for nd in cfg.nodes if nd.kind == "for" and nd.owner is l]
                w = cfg.path_avoiding(cfg.entry, heads[0], clears) if heads else None
                ok = bool(clears) and w is None
                rep.check(ok, rule, f"{np_}.{coll} is emptied before the rewritten {coll} are added", f.loc(l), construct=f"for … in {norm(l.iter)[:50]}: {np_}.{c.func.attr}(…) " + (f"after {np_}.clear_{coll}()" if ok else f"without {np_}.clear_{coll}() on every path"), detail="" if ok else f"{np_} is a clone of the input: its {coll} are still the original ones when the rewritten ones are added, so the result contains both — the features the compiler is declared to remove are still there (the declared resulting kind under-approximates) and the following pipeline stage can reject the problem", function=f.qualname)
    rep.count("rebuilt_collections", n)
    rep.require_min(rule, "rebuilt_collections", 10)


def c09(idx: Index, rep: Report, tier: str) -> None:
    bounded_type_selection(idx, rep, "C09.6 T15 bounded-type-selection")
    undefined_fluents_all_handled(idx, rep, "C09.7 T1 undefined-fluents-all-handled")
    rebuilt_collections_cleared(idx, rep, "C09.8 T2 rebuilt-collections-are-cleared-first")



# ------------------------------------------------------------------------------------ C15
def user_type_equality_symmetric(idx: Index, rep: Report, rule: str) -> None:
    """walk_equals on two user types is interpreted on every ordered pair of types of a small universe of hierarchies
    (a root with a chain of depth 2 and a branch of depth 1, and an unrelated root with one child): the verdict for
    (t, x) and for (x, t) must agree. Bounded: hierarchies deeper than the universe are not covered."""
    we = idx.func("model.walkers.type_checker.TypeChecker.walk_equals")
    interp = _OrderInterp(we.node)
    fathers = {"Thing": None, "Vehicle": "Thing", "Truck": "Vehicle", "Place": "Thing", "Other": None, "Sub": "Other"}
    types: Dict[str, _Stub] = {}

    def chain(n):
        out = []
        while n is not None:
            out.append(types[n])
            n = fathers[n]
        return out

    for name in fathers:
        types[name] = _Stub(name, _key=name)
    for name, st in types.items():
        st._table.update(
            is_user_type=True, is_bool_type=False, is_int_type=False, is_real_type=False, is_time_type=False,
            father=(types[fathers[name]] if fathers[name] else None),
            ancestors=_Prop(lambda n=name: chain(n)),
            is_subtype=(lambda o, n=name: o in chain(n)),
            is_compatible=(lambda o, n=name: types[n] in chain(o._name)),
        )
    n = 0
    try:
        names = sorted(fathers)
        verdicts = {}
        for a in names:
            for b in names:
                env = {"self": None, "expression": "e", "args": [types[a], types[b]], "BOOL": "BOOL"}
                try:
                    interp._block(we.node.body, env)
                    v = "fell through"
                except _Returned as r:
                    v = "accepted" if r.value == "BOOL" else "rejected"
                except _Raised:
                    v = "rejected"
                verdicts[(a, b)] = v
        for i, a in enumerate(names):
            for b in names[i + 1 :]:
                n += 1
                v1, v2 = verdicts[(a, b)], verdicts[(b, a)]
                rep.check(v1 == v2, rule, f"Equals of a {a} and a {b} term is accepted in both orders or in neither", we.loc(), construct=f"({a}, {b}) -> {v1}; ({b}, {a}) -> {v2}", detail="" if v1 == v2 else "whether an equality between terms of two user types is well-formed depends on which operand is written first (the common-ancestor test is not symmetric)", function=we.qualname)
    except _OrderInterp.Unsupported as u:
        rep.inconclusive(rule, f"walk_equals is not interpretable on user types ({u})", we.loc(), function=we.qualname)
        return
    rep.count("user_type_pairs", n)


def c15(idx: Index, rep: Report, tier: str) -> None:
    user_type_equality_symmetric(idx, rep, "C15.4 T15 user-type-equality-symmetric")
    # exact bounds: no rounding where inferred bounds are turned into types
    rule = "C15.5 T10 no-rounding-of-bounds"
    n = 0
    for f in [x for x in idx.all_funcs() if x.module.name in ("unified_planning.model.type_manager", "unified_planning.model.walkers.type_checker", "unified_planning.model.types")]:
        for c in walk_no_nested(f.node):
            if isinstance(c, ast.Call) and (call_name(c) in ("limit_denominator", "round", "floor", "ceil", "trunc") or (isinstance(c.func, ast.Attribute) and norm(c.func.value) == "math" and c.func.attr not in ("isnan", "isinf", "inf"))):
                n += 1
                rep.bad(rule, f"{f.short}: bounds are kept exact", f.loc(c), construct=norm(c)[:80], detail="a bound is replaced by an approximation (limit_denominator caps the denominator at 10**6): the inferred interval no longer contains every value the expression can take", function=f.qualname)
    rep.ok(rule, "type_manager.py / type_checker.py / types.py: no rounding call", "unified_planning/model/type_manager.py:1", construct=f"{n} offending calls")

    # the inferred type of an arithmetic node is a function of its operands' types alone: the handlers compute the
    # bounds by interval arithmetic over `args` and never look at the node itself (its shape, the identity of its
    # children) — a refinement read off the syntax is sound only for the shapes its author thought of
    rule6 = "C15.6 T1 arithmetic-types-are-compositional"
    tc = idx.cls("model.walkers.type_checker.TypeChecker")
    n6 = 0
    for hname in ("walk_plus", "walk_minus", "walk_times", "walk_div"):
        h = tc.methods.get(hname)
        if h is None:
            raise AnalysisError(f"{rule6}: TypeChecker.{hname} vanished")
        params = h.params()
        node_param = params[1] if len(params) > 1 else None
        n6 += 1
        uses = []
        for st in ast.walk(h.node):
            if isinstance(st, ast.stmt) and not isinstance(st, (ast.Raise, ast.FunctionDef)):
                own = [st.test] if isinstance(st, (ast.If, ast.While)) else ([] if isinstance(st, (ast.For, ast.With, ast.Try)) else [st])
                if isinstance(st, ast.Assert):
                    own = [st.test]
                if isinstance(st, ast.For):
                    own = [st.iter]
                for part in own:
                    for x in ast.walk(part):
                        if isinstance(x, ast.Name) and x.id == node_param and isinstance(x.ctx, ast.Load) and not any(isinstance(y, ast.stmt) and y is not st and any(z is x for z in ast.walk(y)) for y in ast.walk(part) if isinstance(y, ast.stmt) and y is not st):
                            uses.append((st, x))
        ok = not uses
        rep.check(ok, rule6, f"{hname} computes the bounds from the operand types only", h.loc(uses[0][0]) if uses else h.loc(), construct=f"{hname}: " + ("reads only args" if ok else f"reads `{node_param}` in `{norm(uses[0][0])[:70]}`"), detail="" if ok else "the inferred interval depends on the syntax of the node, not only on the intervals of its operands: a special case keyed on the shape (all factors identical, a literal operand, …) holds for the shapes it was written for and excludes reachable values for the others (x*x*x with a negative x)", function=h.qualname)
    rep.count("arithmetic_handlers", n6)


# ------------------------------------------------------------------------------------ C14
def c14(idx: Index, rep: Report, tier: str) -> None:
    # (a) what a failed walk leaves on the stack: the handler empties it, or cuts it back to a depth read *before*
    # this walk pushed anything
    rule = "C14.6 T2 stack-restored-to-entry-depth"
    iw = idx.func("model.walkers.dag.DagWalker.iter_walk")
    cfg = cfg_of(iw)
    pushes = [nd for nd, c in cfg_nodes_with_call(cfg, "append") if norm(c.func.value) == "self.stack"]
    n = 0
    handlers = [(x, False) for x in ast.walk(iw.node) if isinstance(x, ast.ExceptHandler)]
    dagc_ = idx.cls("model.walkers.dag.DagWalker")
    for c in walk_no_nested(iw.node):  # the try/except may sit in a private helper that iter_walk calls
        if isinstance(c, ast.Call) and isinstance(c.func, ast.Attribute) and norm(c.func.value) == "self" and c.func.attr.startswith("_") and c.func.attr in dagc_.methods:
            handlers += [(x, True) for x in ast.walk(dagc_.methods[c.func.attr].node) if isinstance(x, ast.ExceptHandler)]
    for h, in_helper in handlers:
        for st in h.body:
            for d in ast.walk(st):
                if isinstance(d, ast.Delete) and in_helper:
                    n += 1
                    rep.inconclusive(rule, "the stack is cut back inside a helper: the depth it is given is not tracked across the call", iw.loc(), construct=norm(d), function=iw.qualname)
                    continue
                if isinstance(d, ast.Delete):
                    for t in d.targets:
                        if isinstance(t, ast.Subscript) and norm(t.value) == "self.stack" and isinstance(t.slice, ast.Slice):
                            n += 1
                            lo = t.slice.lower
                            if lo is None:
                                rep.ok(rule, "the handler empties the stack", iw.loc(d), construct=norm(d), function=iw.qualname)
                                continue
                            ok = False
                            if isinstance(lo, ast.Name):
                                defs = [nd for nd in cfg.nodes if nd.kind == "stmt" and isinstance(nd.ast, ast.Assign) and norm(nd.ast.targets[0]) == lo.id]
                                ok = bool(defs) and all(all(cfg.path_avoiding(p, dn, set()) is None for p in pushes) for dn in defs)
                            rep.check(ok, rule, "the depth the stack is cut back to was read before this walk pushed anything", iw.loc(d), construct=norm(d), detail="" if ok else "the depth is read after the top-level entry was pushed: a walk that fails below its root leaves that entry on the shared walker's stack and the next walk pops it (spurious KeyError)", function=iw.qualname)
                if isinstance(d, ast.Call) and call_name(d) == "clear" and norm(d.func.value) == "self.stack":
                    n += 1
                    rep.ok(rule, "the handler empties the stack", iw.loc(d), construct=norm(d), function=iw.qualname)
    rep.count("stack_restores", n)
    rep.require_min(rule, "stack_restores", 1)
    # (b) a walker whose memoization persists between walks must not let a result depend on what the memo
    # happens to contain (only DagWalker itself reads it, by key)
    rule_b = "C14.7 T11 persistent-memo-read-only-by-the-walker-core"
    k = 0
    for q in ("model.walkers.simplifier.Simplifier",):
        ci = idx.cls(q)
        for m in ci.methods.values():
            k += 1
            reads = [x for x in walk_no_nested(m.node) if isinstance(x, ast.Attribute) and x.attr == "memoization" and norm(x.value) == "self"]
            rep.check(not reads, rule_b, f"{ci.name}.{m.name} does not consult self.memoization", m.loc(reads[0]) if reads else m.loc(), construct=norm(reads[0]) if reads else m.name, detail="" if not reads else "the simplifier's memoization outlives a walk: a method that branches on its content returns different results (or fails / does not fail) depending on which expressions were simplified before", function=m.qualname, strict=True)
    rep.count("simplifier_methods", k)
    class_level_mutables(idx, rep, "C14.8 T11 no-class-level-cache", ("unified_planning.model.walkers", "unified_planning.model.expression", "unified_planning.model.fnode", "unified_planning.environment"))


# ------------------------------------------------------------------------------------ C16
def c16(idx: Index, rep: Report, tier: str) -> None:
    """Nodes are created through the normalising constructors of ExpressionManager: create_node is called by the
    manager's own methods only (a direct call elsewhere skips flattening / double-negation / constant rules)."""
    from .generic import delegate

    if delegate(idx, rep, tier, "C14", ("C14.3",), "a node enters the hash-consing table only after it was validated") < 1:
        raise AnalysisError("C16: the delegated create_node clause vanished")
    # canonical numeric literals: whatever the spelling of the literal (int, float, Fraction, str), an integral value is
    # returned as an int. Every return of the helper is an int(…) conversion, a `.numerator`, or a value for which
    # `denominator == 1` is known to be false on that path
    from ..rules2 import path_facts

    rule4 = "C16.4 T2 integral-literals-become-ints"
    unc = idx.func("model.expression.uniform_numeric_constant")
    ucfg = cfg_of(unc)
    n4 = 0
    for nd in ucfg.nodes:
        if nd.kind != "return" or nd.ast.value is None:
            continue
        n4 += 1
        v = nd.ast.value
        if isinstance(v, ast.Call) and call_name(v) == "int":
            ok, how = True, "int(…)"
        elif isinstance(v, ast.Attribute) and v.attr == "numerator":
            ok, how = True, ".numerator"
        else:
            facts = path_facts(ucfg, nd)
            ok = isinstance(v, ast.Name) and (f"{v.id}.denominator == 1", False) in facts
            how = "denominator == 1 excluded" if ok else "may be a Fraction with denominator 1"
        rep.check(ok, rule4, "an integral value is never returned as a Fraction", unc.loc(nd.ast), construct=f"{norm(nd.ast)[:50]}: {how}", detail="" if ok else "a literal whose value is integral but whose spelling int() rejects ('2.0', '6/3', 2.0 on some paths) is returned as Fraction(2, 1): Int(2) and Real(2/1) are different nodes, so `x + 2` and `x + '2.0'` are no longer the same expression and GE/LE mirroring, constant folding and equality of expressions diverge", function=unc.qualname)
    rep.count("literal_returns", n4)
    rep.require_min(rule4, "literal_returns", 3)
    rule = "C16.3 T11 create_node-called-by-the-manager-only"
    em = idx.cls("model.expression.ExpressionManager")
    n = 0
    for f in idx.all_funcs():
        for c in walk_no_nested(f.node):
            if isinstance(c, ast.Call) and call_name(c) == "create_node":
                n += 1
                ok = f.cls is not None and (f.cls is em or em in f.cls.mro)
                if not ok:
                    from ..report import is_excepted

                    reason = is_excepted(rep.prop, rule, f.qualname, "create_node")
                    if reason:
                        rep.ok(rule, f"{f.short}: create_node called outside the manager", f.loc(c), construct=norm(c)[:80], detail="triaged exception: " + reason, function=f.qualname)
                        rep.count("triaged_exceptions")
                        continue
                rep.check(ok, rule, f"{f.short}: create_node is called from an ExpressionManager method", f.loc(c), construct=norm(c)[:80], detail="" if ok else "a node is built without going through the constructor that normalises it: `~~e` / an n-ary node with one child / a nested And is hash-consed as a structurally different node", function=f.qualname)
    rep.count("create_node_calls", n)
    rep.require_min(rule, "create_node_calls", 20)


# ------------------------------------------------------------------------------------ leftover loop variables
def leftover_loop_variables(idx: Index, rep: Report, rule: str, prefixes) -> None:
    from ..rules2 import loop_variable_used_after_loop

    n = loop_variable_used_after_loop(rep, rule, [f for f in idx.all_funcs() if f.module.name.startswith(tuple(prefixes))], report_ok=False)
    rep.count("nested_loops", n)
    rep.ok(rule, f"{n} nested loops: no statement reads the target of an inner loop after it", "unified_planning:1", construct=f"{n} nested loops")
    rep.require_min(rule, "nested_loops", 5)


# ------------------------------------------------------------------------------------ C24
def c24(idx: Index, rep: Report, tier: str) -> None:
    """check_conflicting_effects records what it accepts in the two containers it is given. They must be the containers
    registered in the owner's tables (the field itself, or `table.setdefault(timing, …)`): a copy or a throw-away
    container (`table.get(timing) or {}`) makes the recorded assignment disappear, and later conflicts with it are
    accepted or rejected depending on the insertion order."""
    from .generic import delegate

    if delegate(idx, rep, tier, "C22", ("C22.4",), "the conflict bookkeeping of a copy must be its own: sets shared with the original record the other object's effects") < 1:
        raise AnalysisError("C24: the delegated clone clause vanished")
    from ..dataflow import reaching_defs, def_value

    rule = "C24.5 T11 bookkeeping-is-the-registered-container"
    callee = idx.func("model.effect.check_conflicting_effects")
    pnames = callee.params()
    n = 0
    for f in idx.all_funcs():
        if not f.module.name.startswith("unified_planning.model"):
            continue
        cfg = None
        for c in walk_no_nested(f.node):
            if not (isinstance(c, ast.Call) and call_name(c) == "check_conflicting_effects"):
                continue
            cfg = cfg or cfg_of(f)
            rd = reaching_defs(cfg)
            nodes = cfg.node_containing(c)
            bound = {pnames[i]: a for i, a in enumerate(c.args) if i < len(pnames)}
            bound.update({k.arg: k.value for k in c.keywords if k.arg})
            for pn in ("fluents_assigned", "fluents_inc_dec"):
                a = bound.get(pn)
                if a is None:
                    continue
                n += 1
                exprs = [a]
                if isinstance(a, ast.Name) and nodes:
                    exprs = [v for d in rd[nodes[0]].get(a.id, ()) for v in [def_value(d, a.id)] if v is not None] or [a]

                def registered(e):
                    if isinstance(e, ast.Attribute) and norm(e.value) == "self":
                        return True
                    if isinstance(e, ast.Call) and call_name(e) == "setdefault" and isinstance(e.func.value, ast.Attribute) and norm(e.func.value.value) == "self":
                        return True
                    # `self._table[key]`: the entry of the owner's table itself (created beforehand when missing)
                    if isinstance(e, ast.Subscript) and isinstance(e.value, ast.Attribute) and norm(e.value.value) == "self":
                        return True
                    # a private helper of the owner that returns such entries
                    if isinstance(e, ast.Call) and isinstance(e.func, ast.Attribute) and norm(e.func.value) == "self" and e.func.attr.startswith("_"):
                        return True
                    return False

                ok = all(registered(e) for e in exprs)
                rep.check(ok, rule, f"{f.short}: `{pn}` handed to check_conflicting_effects is the registered container", f.loc(c), construct=f"{pn} = {norm(exprs[0])[:70]}", detail="" if ok else "the conflict check writes into a container that is not (always) the one kept in the owner's table: an accepted assignment can be forgotten, and whether a later conflicting effect is rejected depends on the order of insertion", function=f.qualname)
    rep.count("bookkeeping_arguments", n)
    rep.require_min(rule, "bookkeeping_arguments", 6)


# ------------------------------------------------------------------------------------ C22 / C23 (round 5)
def clone_copies_unconditional(idx: Index, rep: Report, rule: str) -> None:
    """A field is copied to the clone whatever the *other* fields of the original contain: an assignment
    `new.f = …self.f…` in a clone method may be guarded by a test on `self.f` itself (None / emptiness of the very
    thing copied — the constructor's default is then right), never by a test that reads only other state."""
    n = 0
    for f in idx.all_funcs():
        if not f.module.name.startswith("unified_planning.model") or f.name not in ("clone", "_clone_to"):
            continue
        stores = [a for a in walk_no_nested(f.node) if isinstance(a, ast.Assign) and len(a.targets) == 1 and isinstance(a.targets[0], ast.Attribute) and isinstance(a.targets[0].value, ast.Name) and a.targets[0].value.id != "self" and any(isinstance(x, ast.Attribute) and norm(x.value) == "self" for x in ast.walk(a.value))]
        if not stores:
            continue
        cfg = cfg_of(f)
        for a in stores:
            nds = cfg.node_containing(a)
            if not nds:
                continue
            n += 1
            fld = a.targets[0].attr
            src_fields = {x.attr for x in ast.walk(a.value) if isinstance(x, ast.Attribute) and norm(x.value) == "self"} | {fld}
            foreign = []
            for t, o in guards_dominating(cfg, nds[0]):
                attrs = {x.attr for x in ast.walk(t.ast) if isinstance(x, ast.Attribute) and norm(x.value) == "self"}
                loop_or_type = any(isinstance(c, ast.Call) and call_name(c) in ("isinstance", "hasattr") for c in ast.walk(t.ast))
                if attrs and not (attrs & src_fields) and not loop_or_type:
                    foreign.append(t)
            rep.check(not foreign, rule, f"{f.short}: `{fld}` is copied whatever the other fields contain", f.loc(a), construct=f"{norm(a)[:60]}" + ("" if not foreign else f" only if `{norm(foreign[0].ast)[:50]}`"), detail="" if not foreign else f"the copy of `{fld}` is skipped depending on another field: an original whose `{fld}` is set while that other field is empty yields a clone without it — equal at first, different after the same later operation on both", function=f.qualname)
    rep.count("clone_field_copies", n)
    rep.require_min(rule, "clone_field_copies", 40)


def stored_keys_have_stable_hashes(idx: Index, rep: Report, rule: str) -> None:
    """A model object that is stored as a dictionary key inside another model object (the actions of
    MinimizeActionCosts.costs) must hash the same for as long as it is stored: its `__hash__` may not read a field
    that one of its own public methods changes. Otherwise changing the key object after it was stored leaves the
    table with an entry nobody can look up: `costs == clone.costs` is false and `get_action_cost` answers with the
    default."""
    from ..rules2 import _field_writes

    n = 0
    for holder_q, field in (("model.metrics.MinimizeActionCosts", "_costs"),):
        holder = idx.cls(holder_q)
        init = holder.methods["__init__"]
        ann = [a for a in ast.walk(init.node) if isinstance(a, ast.AnnAssign) and norm(a.target) == f"self.{field}"]
        key_txt = norm(ann[0].annotation) if ann else ""
        if "Action" not in key_txt:
            raise AnalysisError(f"{rule}: {holder_q}.{field} is no longer declared as a table keyed by Action")
        base = idx.cls("model.action.Action")
        for ci in [base] + idx.subclasses(base):
            h = ci.methods.get("__hash__")
            if h is None:
                continue
            n += 1
            hashed = {x.attr for x in ast.walk(h.node) if isinstance(x, ast.Attribute) and norm(x.value) == "self"}
            # hashes delegated to a mixin: `Mixin.__hash__(self)`
            for c in ast.walk(h.node):
                if isinstance(c, ast.Call) and isinstance(c.func, ast.Attribute) and c.func.attr == "__hash__" and c.args and norm(c.args[0]) == "self":
                    mix = idx.resolve_dotted(h.module, norm(c.func.value))
                    mh = getattr(mix, "methods", {}).get("__hash__") if mix is not None else None
                    if mh is not None:
                        hashed |= {x.attr for x in ast.walk(mh.node) if isinstance(x, ast.Attribute) and norm(x.value) == "self"}
            mutated = {}
            for cj in ci.mro:
                for mname, mf in cj.methods.items():
                    if mname.startswith("_") or mname in ("clone",):
                        continue
                    for fld in _field_writes(mf.node, "self"):
                        mutated.setdefault(fld, mname)
            unstable = sorted(hashed & set(mutated))
            ok = not unstable
            rep.check(ok, rule, f"{ci.name}.__hash__ reads nothing its own methods change", h.loc(), construct=f"{ci.name}: key class for {holder.name}.{field}; __hash__ reads " + ("only fields fixed at construction" if ok else f"{unstable[:4]} (changed by {sorted({mutated[u] for u in unstable})[:3]})"), detail="" if ok else f"an action that is modified after it became a key of {holder.name}.{field} hashes differently from the entry that holds it: the table compares unequal to any faithful copy (the clone of such a problem is not equal to the original) and the cost lookup misses", function=h.qualname)
    rep.count("stored_key_classes", n)
    rep.require_min(rule, "stored_key_classes", 2)


def c22(idx: Index, rep: Report, tier: str) -> None:
    clone_copies_unconditional(idx, rep, "C22.8 T2 clone-copies-are-unconditional")
    stored_keys_have_stable_hashes(idx, rep, "C22.9 T9 stored-keys-have-stable-hashes")
    # (a) a field of the copy is taken from the same field of the original
    rule = "C22.6 T21 clone-copies-field-to-same-field"
    n = 0
    for f in idx.all_funcs():
        if not f.module.name.startswith("unified_planning.model") or f.name not in ("clone", "_clone_to"):
            continue
        for a in walk_no_nested(f.node):
            if not (isinstance(a, ast.Assign) and len(a.targets) == 1 and isinstance(a.targets[0], ast.Attribute) and isinstance(a.targets[0].value, ast.Name) and a.targets[0].value.id != "self"):
                continue
            v = a.value
            while (isinstance(v, ast.Call) and call_name(v) in ("copy", "list", "dict", "set", "tuple") and (v.args or isinstance(v.func, ast.Attribute))) or (isinstance(v, ast.Subscript) and isinstance(v.slice, ast.Slice)):
                v = (v.func.value if isinstance(v.func, ast.Attribute) and not v.args else v.args[0]) if isinstance(v, ast.Call) else v.value
            if not (isinstance(v, ast.Attribute) and norm(v.value) == "self"):
                continue
            n += 1
            tf, sf = a.targets[0].attr, v.attr
            ok = tf.lstrip("_") == sf.lstrip("_")
            rep.check(ok, rule, f"{f.short}: `{tf}` of the copy comes from `{tf}` of the original", f.loc(a), construct=norm(a)[:80], detail="" if ok else f"the copy's `{tf}` is filled from the original's `{sf}`: the two problems differ in a field that equality does not compare directly (it shows up in the kind once a temporal feature is added)", function=f.qualname)
    rep.count("plain_field_copies", n)
    rep.require_min(rule, "plain_field_copies", 40)
    # (b) the parts of the copy are bound to the copy
    rule_b = "C22.7 parts-of-the-copy-are-bound-to-the-copy"
    k = 0
    for f in idx.all_funcs():
        if not f.module.name.startswith("unified_planning.model") or f.name != "clone":
            continue
        for c in walk_no_nested(f.node):
            if isinstance(c, ast.Call) and call_name(c) == "clone" and isinstance(c.func, ast.Attribute) and norm(c.func.value) != "self":
                k += 1
                bad = [x for x in list(c.args) + [kw.value for kw in c.keywords] if isinstance(x, ast.Name) and x.id == "self"]
                rep.check(not bad, rule_b, f"{f.short}: a cloned part is not handed the original as its owner", f.loc(c), construct=norm(c)[:70], detail="" if not bad else "the part of the copy keeps callbacks / back-references to the original problem: a later edit made through the copy's part registers types and checks names in the original", function=f.qualname)
    rep.count("part_clones", k)
    rep.require_min(rule_b, "part_clones", 10)


def c23(idx: Index, rep: Report, tier: str) -> None:
    """The parameters of an action instance are checked by ActionInstance.__init__ only; nothing outside the class
    may write its private fields (building an instance by copy + field assignment skips the check)."""
    # the tables of stored values (explicit initial values, per-fluent and per-type defaults) are the model's own
    # objects: created empty in the constructor and filled entry by entry with checked values — never bound to a
    # container the caller handed in (and still owns, or that is a shared default argument)
    rule6 = "C23.6 T11 stored-value-tables-are-owned"
    n6 = 0
    for cq in ("model.mixins.fluents_set.FluentsSetMixin", "model.mixins.initial_state.InitialStateMixin"):
        ci = idx.cls(cq)
        for mname, mf in ci.methods.items():
            params = set(mf.params()) - {"self"}
            for a in walk_no_nested(mf.node):
                tgs = a.targets if isinstance(a, ast.Assign) else [a.target] if isinstance(a, ast.AnnAssign) and a.value is not None else []
                if not any(isinstance(t, ast.Attribute) and norm(t.value) == "self" and t.attr.startswith("_") for t in tgs):
                    continue
                fld = [t.attr for t in tgs if isinstance(t, ast.Attribute)][0]
                if not any(k in fld for k in ("default", "initial_value")):
                    continue
                n6 += 1
                v = a.value
                fresh = isinstance(v, (ast.Dict, ast.List, ast.Set, ast.DictComp, ast.ListComp, ast.SetComp, ast.Constant)) or (isinstance(v, ast.Call) and call_name(v) in ("dict", "list", "set", "OrderedDict", "copy", "deepcopy"))
                borrowed = sorted({x.id for x in ast.walk(v) if isinstance(x, ast.Name) and x.id in params}) if not fresh else []
                ok = fresh or not borrowed
                rep.check(ok, rule6, f"{ci.name}.{mname}: self.{fld} is the model's own container", mf.loc(a), construct=f"self.{fld} = {norm(v)[:50]}" + ("" if ok else f" — the caller's `{borrowed[0]}`"), detail="" if ok else f"the table is the very object the caller passed (or the shared default argument): entries the caller adds to it later are never checked or promoted and are read by add_fluent / initial_value as stored defaults, and two problems built from one mapping share their defaults", function=mf.qualname)
    rep.count("stored_table_bindings", n6)
    rep.require_min(rule6, "stored_table_bindings", 3)
    rule = "C23.5 T11 action-instance-fields-written-by-the-class-only"
    ai = idx.cls("plans.plan.ActionInstance")
    fields = {t.attr for m in ai.methods.values() for a in walk_no_nested(m.node) if isinstance(a, (ast.Assign, ast.AnnAssign)) for t in (a.targets if isinstance(a, ast.Assign) else [a.target]) if isinstance(t, ast.Attribute) and norm(t.value) == "self" and t.attr.startswith("_")}
    if not {"_params", "_action"} <= fields:
        raise AnalysisError(f"{rule}: ActionInstance no longer stores _action / _params")
    n = 0
    bad_all = []
    for f in idx.all_funcs():
        if f.cls is ai:
            continue
        for a in walk_no_nested(f.node):
            tgs = a.targets if isinstance(a, ast.Assign) else ([a.target] if isinstance(a, (ast.AugAssign, ast.AnnAssign)) else [])
            for t in tgs:
                if isinstance(t, ast.Attribute) and t.attr in ("_params", "_action") and norm(t.value) != "self":
                    bad_all.append((f, a))
            if isinstance(a, ast.Call) and call_name(a) == "setattr" and len(a.args) >= 2 and isinstance(a.args[1], ast.Constant) and a.args[1].value in ("_params", "_action"):
                bad_all.append((f, a))
        n += 1
    for f, a in bad_all:
        rep.bad(rule, f"{f.short}: the fields of an ActionInstance are not written from outside the class", f.loc(a), construct=norm(a)[:80], detail="an action instance is assembled by assigning its private fields: the type / constant-ness check of ActionInstance.__init__ never runs, so a plan can hold a parameter that is not compatible with the action's parameter", function=f.qualname)
    rep.ok(rule, f"{n} functions outside ActionInstance: none assigns ._params / ._action of another object", "unified_planning/plans/plan.py:1", construct=f"{n} functions")
    fx = ast.parse("def g(ai, a, p):\n    new = copy(ai)\n    new._action = a\n    new._params = p\n    return new").body[0]
    if not any(isinstance(t, ast.Attribute) and t.attr in ("_params", "_action") and norm(t.value) != "self" for a in ast.walk(fx) if isinstance(a, ast.Assign) for t in a.targets):
        raise AnalysisError(f"{rule}: positive fixture no longer matches")


EXTRA3 = {"C34": c34, "C22": c22, "C23": c23, "C24": c24, "C14": c14, "C16": c16, "C15": c15, "C09": c09, "C13": c13, "C07": c07, "C12": c12, "C11": c11, "C10": c10, "C06": c06, "C04": c04, "C05": c05, "C01": c01, "C02": c02, "C03": c03, "C08": c08, "C35": c35, "C38": c38, "C36": c36, "C32": c32, "C33": c33, "C31": c31, "C17": c17, "C25": c25, "C20": c20, "C27": c27, "C28": c28}


def run_extra3(prop: str, idx: Index, rep: Report, tier: str) -> None:
    fn = EXTRA3.get(prop)
    if fn is not None:
        fn(idx, rep, tier)
