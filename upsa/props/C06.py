"""C06 — plans of compiled problems map back to valid plans: the necessary bookkeeping (structural clauses).

Decides, for the problem-to-problem compilers named by the property:
 (i)  every action that reaches <compiled problem>.add_action(...) (or stays in the cloned problem) is a key of
      the map handed to replace_action / lift_action_instance, on every path (T2 pairing; the idioms
      add-and-map, collect-then-add, map-all-actions-of-the-clone are recognised);
 (ii) every CompilerResult(...) with a problem passes a map-back callable;
 (iii) conflict => discard: an action under construction whose effect insertion was rejected with
      UPConflictingEffectsException is never published (yield / return / add_action) in that iteration.
Does not decide: that mapped plans are valid.
"""
from __future__ import annotations

import ast
from typing import Dict, List, Optional, Set, Tuple

from ..cfg import CFG, CFGNode
from ..dataflow import feasible_path, node_defs
from ..index import AnalysisError, ClassInfo, FuncInfo, Index, call_name, norm, walk_no_nested
from ..report import Report
from ..rules import cfg_nodes_with_call, cfg_of, handler_type_names, path_text

COMPILERS = {
    "grounder.Grounder": "add-and-map",
    "conditional_effects_remover.ConditionalEffectsRemover": "add-and-map",
    "disjunctive_conditions_remover.DisjunctiveConditionsRemover": "add-and-map",
    "negative_conditions_remover.NegativeConditionsRemover": "add-and-map",
    "quantifiers_remover.QuantifiersRemover": "map-all",
    "usertype_fluents_remover.UsertypeFluentsRemover": "add-and-map",
    "bounded_types_remover.BoundedTypesRemover": "helper",
    "state_invariants_remover.StateInvariantsRemover": "helper",
    "trajectory_constraints_remover.TrajectoryConstraintsRemover": "collect-then-add",
    "undefined_initial_numeric_remover.UndefinedInitialNumericRemover": "map-all",
}
HELPER = "engines.compilers.utils.add_invariant_condition_apply_function_to_problem_expressions"
MAPPERS = {"replace_action", "lift_action_instance"}


def _map_stores(fn: ast.AST) -> List[Tuple[ast.AST, str, str]]:
    """(stmt, map name, key text) for `M[K] = v` stores in fn."""
    out = []
    for n in walk_no_nested(fn):
        if isinstance(n, ast.Assign):
            for t in n.targets:
                if isinstance(t, ast.Subscript) and isinstance(t.value, ast.Name):
                    out.append((n, t.value.id, norm(t.slice)))
    return out


def _innermost_loop_head(cfg: CFG, node: CFGNode) -> Optional[CFGNode]:
    best = None
    for n in cfg.nodes:
        if n.kind in ("for",) or (n.kind == "test" and isinstance(n.owner, ast.While)):
            body = n.owner.body
            if node.ast is not None and any(x is node.ast for s in body for x in ast.walk(s)):
                if best is None or any(x is n.owner for s in best.owner.body for x in ast.walk(s)):
                    best = n
    return best


def paired(cfg: CFG, a: CFGNode, stores: Set[CFGNode]) -> Optional[List[CFGNode]]:
    """None if on every path through `a` one of `stores` executes in the same iteration
    (a store dominates a, or post-dominates it up to the next iteration / function exit); else a witness path."""
    head = _innermost_loop_head(cfg, a)
    start = head if head is not None else cfg.entry
    before = cfg.path_avoiding(start, a, stores) if start is not a else None
    if before is None:
        return None
    ends = [cfg.exit] + ([head] if head is not None else [])
    for e in ends:
        after = cfg.path_avoiding(a, e, stores)
        if after is not None:
            return before + after[1:]
    return None


def check_add_and_map(rep: Report, rule: str, f: FuncInfo, map_names: Set[str]) -> int:
    cfg = cfg_of(f)
    n = 0
    stores = _map_stores(f.node)
    for node, call in cfg_nodes_with_call(cfg, "add_action"):
        if not call.args or not isinstance(call.args[0], ast.Name):
            rep.inconclusive(rule, f"{f.short}: add_action argument is not a plain name", f.loc(call), construct=norm(call))
            continue
        recv = norm(call.func.value)
        if recv == "self":
            continue  # a problem class adding to itself, not a compiler filling the compiled problem
        x = call.args[0].id
        n += 1
        # the map: the one handed to the CompilerResult (when this function builds it) or one received as a parameter
        params = set(f.params())
        cand = {cn for st, m, k in stores if k == x and (not map_names or m in map_names or m in params) for cn in cfg.nodes_for(st)}
        if cand:
            w = paired(cfg, node, cand)
            rep.check(w is None, rule, f"{f.short}: add_action({x}) paired with a map entry", f.loc(call), construct=f"{norm(call)} / map[{x}] = ...", detail="" if w is None else f"a path adds {x} to the compiled problem without recording it in the action map: plans using it cannot be mapped back", function=f.qualname, path=path_text(w) if w else None)
            continue
        # collect-then-add: x iterates a list L; every L.append(y) must be paired with map[y]
        loop = [l for l in cfg.nodes if l.kind == "for" and norm(l.ast) == x and isinstance(l.owner.iter, ast.Name)]
        if loop:
            L = loop[0].owner.iter.id
            apps = [(an, c) for an, c in cfg_nodes_with_call(cfg, "append") if norm(c.func.value) == L and c.args and isinstance(c.args[0], ast.Name)]
            ok_all = bool(apps)
            for an, c in apps:
                y = c.args[0].id
                cand = {cn for st, m, k in stores if k == y for cn in cfg.nodes_for(st)}
                w = paired(cfg, an, cand) if cand else [an]
                ok_all = ok_all and w is None
                rep.check(w is None, rule, f"{f.short}: {L}.append({y}) paired with a map entry (actions later added from {L})", f.loc(c), construct=f"{norm(c)} / map[{y}] = ...", detail="" if w is None else f"{y} is collected for the compiled problem without a map entry", function=f.qualname, path=path_text(w) if w else None)
            if apps:
                continue
        rep.bad(rule, f"{f.short}: add_action({x}) paired with a map entry", f.loc(call), construct=norm(call), detail=f"no map store keyed by {x} in {f.short}: the added action has no way back to the original problem", function=f.qualname)
    return n


def check_map_all(rep: Report, rule: str, f: FuncInfo, cls: ClassInfo) -> int:
    """The compiled problem is a clone whose actions are kept: the map must cover `<clone>.actions`."""
    cfg = cfg_of(f)
    n = 0
    # dict comprehension over <p>.actions
    for x in walk_no_nested(f.node):
        if isinstance(x, ast.DictComp) and len(x.generators) == 1 and norm(x.generators[0].iter).endswith(".actions") and norm(x.key) == norm(x.generators[0].target) and not x.generators[0].ifs:
            rep.ok(rule, f"{f.short}: map built over all actions of the compiled problem", f.loc(x), construct=norm(x)[:100], function=f.qualname)
            n += 1
    # for a in <p>.actions: every iteration stores map[a] (or raises)
    stores = _map_stores(f.node)
    for l in cfg.nodes:
        if l.kind == "for" and isinstance(l.owner.iter, ast.Attribute) and l.owner.iter.attr == "actions" and isinstance(l.owner.iter.value, ast.Name) and l.owner.iter.value.id not in f.params() and isinstance(l.ast, ast.Name):
            x = l.ast.id
            cand = {cn for st, m, k in stores if k == x for cn in cfg.nodes_for(st)}
            if not cand:
                continue
            n += 1
            first = [s for s in cfg.g.successors(l) if cfg.g[l][s].get("label") is True]
            w = None
            for s in first:
                w = w or (cfg.path_avoiding(s, l, cand) if s not in cand else None)
            rep.check(w is None, rule, f"{f.short}: every action of the clone gets a map entry", f.loc(l.owner), construct=f"for {x} in {norm(l.owner.iter)}: map[{x}] = ...", detail="" if w is None else f"an iteration over the clone's actions can finish without recording {x} in the map", function=f.qualname, path=path_text(w) if w else None)
    return n


def run(idx: Index, rep: Report, tier: str) -> None:
    rep.explanation = __doc__.strip()
    rule_i = "C06.i T2 added-action-has-map-entry"
    rule_ii = "C06.ii CompilerResult-carries-map-back"
    # ------------------------------------------------------------------ (i) + (ii)
    helper = idx.func(HELPER)
    n = check_add_and_map(rep, rule_i, helper, set())
    rets = [r for r in walk_no_nested(helper.node) if isinstance(r, ast.Return) and r.value is not None]
    maps_returned = {norm(r.value) for r in rets}
    rep.check(n >= 1 and len(maps_returned) == 1, rule_i, "utils helper returns the map it filled", helper.loc(), construct=f"return {sorted(maps_returned)}", function=helper.qualname)
    for short, idiom in COMPILERS.items():
        cls = idx.cls("engines.compilers." + short)
        comp = cls.methods.get("_compile")
        if comp is None:
            raise AnalysisError(f"anchor vanished: {cls.qualname}._compile")
        methods = list(cls.methods.values())
        for m in methods:
            rep.note_function(m.qualname)
        # (ii)
        results = [c for m in methods for c in walk_no_nested(m.node) if isinstance(c, ast.Call) and call_name(c) == "CompilerResult"]
        if not results:
            raise AnalysisError(f"anchor vanished: {cls.name} builds no CompilerResult")
        map_names: Set[str] = set()
        for c in results:
            args = list(c.args) + [k.value for k in c.keywords]
            prob = c.args[0] if c.args else None
            mb = c.args[1] if len(c.args) > 1 else next((k.value for k in c.keywords if k.arg == "map_back_action_instance"), None)
            pbc = next((k.value for k in c.keywords if k.arg == "plan_back_conversion"), None)
            if prob is not None and isinstance(prob, ast.Constant) and prob.value is None:
                continue
            ok = False
            how = ""
            if mb is not None and isinstance(mb, ast.Call) and call_name(mb) == "partial" and mb.args and norm(mb.args[0]).split(".")[-1] in MAPPERS:
                mk = [k for k in mb.keywords if k.arg == "map"]
                if mk and isinstance(mk[0].value, ast.Name):
                    map_names.add(mk[0].value.id)
                    ok = True
                    how = norm(mb)
            elif mb is not None and isinstance(mb, ast.Lambda) and norm(mb.body) == mb.args.args[0].arg:
                ok = True
                how = "identity (problem returned unchanged)"
                ok = ok and prob is not None and norm(prob) == "problem"
            elif pbc is not None and not (isinstance(pbc, ast.Constant) and pbc.value is None):
                ok = True
                how = "plan_back_conversion=" + norm(pbc)
            rep.check(ok, rule_ii, f"{cls.name}: CompilerResult carries a way back", cls.loc(c), construct=norm(c)[:140], detail="" if ok else "a compiled problem is returned without map_back_action_instance / plan_back_conversion", function=comp.qualname)
        # (i)
        count = 0
        if idiom == "helper":
            calls = [c for c in walk_no_nested(comp.node) if isinstance(c, ast.Call) and call_name(c) == helper.name]
            asg = [a for a in walk_no_nested(comp.node) if isinstance(a, ast.Assign) and isinstance(a.value, ast.Call) and call_name(a.value) == helper.name]
            ok = bool(asg) and all(norm(a.targets[0]) in map_names for a in asg)
            rep.check(ok, rule_i, f"{cls.name}: map returned by the utils helper is the one handed to replace_action", cls.loc(asg[0]) if asg else cls.loc(), construct=norm(asg[0])[:120] if asg else "", detail="" if ok else "the map filled by the helper is not the map used for mapping plans back", function=comp.qualname)
            count += len(asg)
            # and the compiler adds no further action itself
            for m in methods:
                count += check_add_and_map(rep, rule_i, m, map_names)
        elif idiom == "map-all":
            for m in methods:
                count += check_map_all(rep, rule_i, m, cls)
                count += check_add_and_map(rep, rule_i, m, map_names)
        else:
            for m in methods:
                count += check_add_and_map(rep, rule_i, m, map_names)
        if count == 0:
            raise AnalysisError(f"{rule_i}: no add_action / map site found in {cls.name} (idiom {idiom}): vacuous")
        rep.count("map_sites", count)
    rep.count("compilers", len(COMPILERS))

    # ------------------------------------------------------------------ (iii) conflict => discard
    rule_iii = "C06.iii T17 conflict-implies-discard"
    sites = 0
    for mod in idx.modules.values():
        if not mod.name.startswith("unified_planning.engines.compilers."):
            continue
        for f in [x for x in idx.all_funcs() if x.module is mod]:
            trys = [t for t in walk_no_nested(f.node) if isinstance(t, ast.Try) and any("UPConflictingEffectsException" in handler_type_names(h) for h in t.handlers)]
            if not trys:
                continue
            cfg = cfg_of(f)
            rep.note_function(f.qualname)
            ordinal = 0
            for t in trys:
                calls = [c for s in t.body for c in ast.walk(s) if isinstance(c, ast.Call) and call_name(c) in ("_add_effect_instance", "set_simulated_effect", "add_effect") and isinstance(c.func, ast.Attribute) and isinstance(c.func.value, ast.Name)]
                if not calls:
                    continue
                v = calls[0].func.value.id
                for h in t.handlers:
                    if "UPConflictingEffectsException" not in handler_type_names(h):
                        continue
                    sites += 1
                    ordinal += 1
                    hn = cfg.nodes_for(h)
                    publish = []
                    for n_ in cfg.nodes:
                        a = n_.ast
                        if a is None:
                            continue
                        if n_.kind == "return" and a.value is not None and any(isinstance(x, ast.Name) and x.id == v for x in ast.walk(a.value)):
                            publish.append(n_)
                        elif n_.kind == "stmt" and isinstance(a, ast.Expr) and isinstance(a.value, (ast.Yield, ast.YieldFrom)) and a.value.value is not None and any(isinstance(x, ast.Name) and x.id == v for x in ast.walk(a.value.value)):
                            publish.append(n_)
                        elif n_.kind == "stmt" and any(isinstance(c, ast.Call) and call_name(c) == "add_action" and c.args and norm(c.args[0]) == v for c in ast.walk(a)):
                            publish.append(n_)
                    rebinding = {n_ for n_ in cfg.nodes if v in node_defs(n_)}
                    w = None
                    for hnode in hn:
                        for p in publish:
                            w = w or feasible_path(cfg, hnode, p, avoid=rebinding)
                    rep.check(
                        w is None,
                        rule_iii,
                        f"{f.short}: rejected effect insertion on `{v}` discards the action",
                        f.loc(h),
                        construct=f"handler #{ordinal}: except UPConflictingEffectsException: {norm(h.body[0])[:40]} ... then {norm(w[-1].ast)[:50] if w else 'no publication'}",
                        detail="" if w is None else f"after the conflicting effect was dropped, `{v}` still reaches `{norm(w[-1].ast)[:60]}`: the compiled action is applicable where the original has conflicting effects",
                        function=f.qualname,
                        path=path_text(w) if w else None,
                    )
    rep.count("conflict_handlers", sites)
    rep.require_min(rule_iii, "conflict_handlers", 4)
