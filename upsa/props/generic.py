"""Generic bug-class detectors, armed for every claimed property on the code that implements it.

Each detector below is exact for its class (a one-shot iterator consumed twice, a loop variable read after its loop
by accident, a state lookup on a non-ground expression, …): what it reports is a defect whatever the surrounding code
looks like, and package-wide none of them reports anything on today's tree (tools/generic_survey.py). What makes them
part of *this property's* check is the scope: they run on the functions of the files the property is anchored in
(properties.jsonl, anchors.files) — the code in which the property is implemented — so a report is a defect inside
the mechanism of the property, not somewhere else in the package.

The rule names are `<ID>.G <detector>`; DESIGN.md section 3 describes the templates (T18–T24 and the round-5 ones).
"""
from __future__ import annotations

from typing import List

from ..index import FuncInfo, Index
from ..report import Report


def scope_of(idx: Index, rep: Report) -> List[FuncInfo]:
    """The functions of the files the property is anchored in (properties.jsonl: anchors.files; a directory anchor
    covers the files below it). Without anchors: the functions the property's rules analysed, widened to their
    classes."""
    anchors = _anchor_files(rep.prop)
    by_q = {}
    for f in idx.all_funcs():
        by_q.setdefault(f.qualname, f)
    if anchors:
        out = {q: f for q, f in by_q.items() if any(f.module.relpath == a or (a.endswith("/") and f.module.relpath.startswith(a)) for a in anchors)}
        return [out[q] for q in sorted(out)]
    names = set(rep.sets.get("functions_analysed", set())) | {o.function for o in rep.obligations if o.function}
    class_names = {ci.qualname for m in idx.modules.values() for ci in m.classes.values()}
    classes = {q.rsplit(".", 1)[0] for q in names if q.rsplit(".", 1)[0] in class_names} | {q for q in names if q in class_names}
    out = {q: f for q, f in by_q.items() if q in names or q.rsplit(".", 1)[0] in classes}
    return [out[q] for q in sorted(out)]


def _anchor_files(prop: str) -> List[str]:
    import json
    import os

    path = os.path.join(os.path.dirname(os.path.dirname(os.path.dirname(os.path.abspath(__file__)))), "properties.jsonl")
    with open(path) as fh:
        for line in fh:
            d = json.loads(line)
            if d["id"] == prop:
                return list(d["anchors"]["files"])
    return []


def run_generic(prop: str, idx: Index, rep: Report, tier: str) -> None:
    from .. import rules2
    from . import extra3

    funcs = scope_of(idx, rep)
    rep.count("generic_scope_functions", len(funcs))
    if not funcs:
        return
    g = f"{prop}.G"
    n = 0
    n += rules2.one_shot_iterator_reuse(rep, f"{g} T19 one-shot-iterator-reuse", idx, funcs) or 0
    n += rules2.one_shot_local_consumed_twice(rep, f"{g} T19b one-shot-local-consumed-twice", funcs) or 0
    n += rules2.one_shot_stored_for_reuse(rep, f"{g} T19c one-shot-stored-for-reuse", funcs) or 0
    n += rules2.loop_variable_used_after_loop(rep, f"{g} leftover-loop-variable", funcs, report_ok=False) or 0
    n += rules2.optional_numeric_truthiness(rep, f"{g} T18 optional-number-truthiness", funcs) or 0
    n += rules2.openness_pairing(rep, f"{g} T20 openness-side-pairing", funcs) or 0
    n += rules2.swapped_arguments(rep, f"{g} T21 swapped-arguments", idx, funcs) or 0
    n += rules2.memo_key_adequacy(rep, f"{g} T24 memo-key-adequacy", funcs) or 0
    n += extra3.state_lookups_ground(rep, f"{g} state-lookups-take-ground-expressions", funcs) or 0
    n += extra3.increase_decrease_twins(rep, f"{g} increase-decrease-branches-agree", funcs) or 0
    n += extra3.size_fixpoint_loops(rep, f"{g} fixpoint-loop-measures-the-collection", funcs) or 0
    n += extra3.keyword_attribute_crossing(rep, f"{g} keyword-field-crossing", funcs) or 0
    if not rules2.self_check_expression_truthiness():
        from ..index import AnalysisError

        raise AnalysisError(f"{g} expression-node-truthiness: the positive fixture no longer fires")
    n += rules2.expression_node_truthiness(rep, f"{g} expression-node-truthiness", funcs) or 0
    # class-level detector: every class defined in the files the property is anchored in
    anchors = _anchor_files(prop)
    anchored = [ci for m in idx.modules.values() for ci in m.classes.values() if any(m.relpath == a or (a.endswith("/") and m.relpath.startswith(a)) for a in anchors)]
    n += rules2.companion_fields(rep, f"{g} companion-fields-written-together", idx, anchored) or 0
    n += rules2.clone_shares_mutable_state(rep, f"{g} clone-shares-no-mutable-state", idx, anchored) or 0
    n += rules2.parallel_lists(rep, f"{g} parallel-lists-grow-together", idx, funcs) or 0
    if not rules2.self_check_strip():
        from ..index import AnalysisError

        raise AnalysisError(f"{g} strip-charset-misuse: the fixture no longer gives one report and one pass")
    n += rules2.strip_charset_misuse(rep, f"{g} strip-given-a-prefix", funcs) or 0
    n += rules2.enumeration_domain_matches_variable(rep, f"{g} enumeration-domain-is-the-variable's-type", funcs) or 0
    n += rules2.stale_guard(rep, f"{g} guard-tests-the-sibling-variable", funcs) or 0
    rep.count("generic_instances", n)


def delegate(idx: Index, rep: Report, tier: str, other: str, prefixes, why: str) -> int:
    """Some clauses are necessary conditions of more than one property (the state representation under the simulator,
    the walker machinery under every evaluator): the obligations of `other`'s check whose rule starts with one of
    `prefixes` are decided once more under this property's name (`<rule> [for <ID>: why]`), so a change that breaks
    this property through that mechanism is reported by this property's check too."""
    import importlib

    from .extra import run_extra
    from .extra2 import run_extra2
    from .extra3 import run_extra3

    sub = Report(other, tier, rep.seed)
    importlib.import_module(f"upsa.props.{other}").run(idx, sub, tier)
    run_extra(other, idx, sub, tier)
    run_extra2(other, idx, sub, tier)
    run_extra3(other, idx, sub, tier)
    n = 0
    for o in sub.obligations:
        if any(o.rule.startswith(p) for p in prefixes):
            o.rule = f"{o.rule} [for {rep.prop}: {why}]"
            rep.obligations.append(o)
            n += 1
    rep.count(f"delegated_from_{other}", n)
    return n
