"""C25 — DeltaSTN: the clause *a copy evolves independently of the network it was copied from*.

Decides: (1) T8: copy_stn hands *copies* of both dictionaries (constraints, distances) and the scalar state
(is_sat, epsilon) to the new network; the constructor stores what it is given; (2) T11: the linked DeltaNeighbors
cells shared between a network and its copies are never modified after construction anywhere in the package
(no store to .dst / .bound / .next), and add() prepends a new cell instead of editing the list;
(3) no method of the network other than add / __init__ writes the dictionaries.
Does not decide: consistency, minimality or the reported model.
"""
from __future__ import annotations

import ast

from ..index import AnalysisError, Index, call_name, norm, walk_no_nested
from ..report import Report
from ..rules import attr_mutations, self_attr_stores

STN = "model.delta_stn.DeltaSimpleTemporalNetwork"


def run(idx: Index, rep: Report, tier: str) -> None:
    rep.explanation = __doc__.strip()
    rule1 = "C25.1 T8 copy-is-independent"
    cp = idx.func(STN + ".copy_stn")
    rep.note_function(cp.qualname)
    calls = [c for c in walk_no_nested(cp.node) if isinstance(c, ast.Call) and call_name(c) == "DeltaSimpleTemporalNetwork"]
    if not calls:
        raise AnalysisError("anchor vanished: copy_stn no longer constructs a DeltaSimpleTemporalNetwork")
    init = idx.func(STN + ".__init__")
    params = [p for p in init.params() if p != "self"]
    c = calls[0]
    given = {params[i]: a for i, a in enumerate(c.args) if i < len(params)}
    given.update({k.arg: k.value for k in c.keywords if k.arg})
    for p, fld in (("constraints", "_constraints"), ("distances", "_distances")):
        a = given.get(p)
        ok = a is not None and isinstance(a, ast.Call) and ((call_name(a) == "copy" and norm(a.func.value) == f"self.{fld}") or (call_name(a) == "dict" and a.args and norm(a.args[0]) == f"self.{fld}"))
        rep.check(ok, rule1, f"copy_stn copies the {p} dictionary", cp.loc(a if a is not None else c), construct=norm(a) if a is not None else f"{p} not passed", detail="" if ok else f"the copy shares the {p} dictionary with the original: an insertion into one network changes the other", function=cp.qualname)
    for p, fld in (("is_sat", "_is_sat"), ("epsilon", "_epsilon")):
        a = given.get(p)
        ok = a is not None and norm(a) == f"self.{fld}"
        rep.check(ok, rule1, f"copy_stn carries {p}", cp.loc(a if a is not None else c), construct=norm(a) if a is not None else f"{p} not passed", detail="" if ok else f"the copy starts with the default {p}", function=cp.qualname)
    stores = self_attr_stores(init.node)
    for p, fld in (("constraints", "_constraints"), ("distances", "_distances"), ("is_sat", "_is_sat"), ("epsilon", "_epsilon")):
        ok = fld in stores and any(p in {x.id for x in ast.walk(s.value) if isinstance(x, ast.Name)} for s in stores[fld] if getattr(s, "value", None) is not None)
        rep.check(ok, rule1, f"__init__ stores the given {p}", init.loc(stores[fld][0]) if fld in stores else init.loc(), construct=norm(stores[fld][0])[:90] if fld in stores else "", function=init.qualname)

    rule2 = "C25.2 T11 shared-cells-immutable"
    offenders = []
    for f in idx.all_funcs():
        for n in walk_no_nested(f.node):
            tg = n.targets if isinstance(n, ast.Assign) else ([n.target] if isinstance(n, (ast.AugAssign, ast.AnnAssign)) else [])
            for t in tg:
                if isinstance(t, ast.Attribute) and t.attr in ("dst", "bound", "next") and not (isinstance(t.value, ast.Name) and t.value.id == "self") and f.module.name.endswith("delta_stn"):
                    offenders.append((f, n))
    rep.check(not offenders, rule2, "no DeltaNeighbors cell is modified after construction", offenders[0][0].loc(offenders[0][1]) if offenders else "unified_planning/model/delta_stn.py:1", construct=norm(offenders[0][1]) if offenders else "no store to .dst/.bound/.next", detail="" if not offenders else "list cells are shared by a network and its copies; editing one changes the constraints of the others", function=STN)
    add = idx.func(STN + ".add")
    rep.note_function(add.qualname)
    news = [c for c in walk_no_nested(add.node) if isinstance(c, ast.Call) and call_name(c) == "DeltaNeighbors"]
    if not news:  # … or in a private helper of the class that add() calls
        stn_cls = idx.cls(STN)
        for c in walk_no_nested(add.node):
            if isinstance(c, ast.Call) and isinstance(c.func, ast.Attribute) and norm(c.func.value) == "self" and c.func.attr.startswith("_") and c.func.attr in stn_cls.methods:
                news += [x for x in walk_no_nested(stn_cls.methods[c.func.attr].node) if isinstance(x, ast.Call) and call_name(x) == "DeltaNeighbors"]
    ok = bool(news) and all(len(c.args) == 3 for c in news)
    rep.check(ok, rule2, "add() prepends a new cell pointing to the old list", add.loc(news[0]) if news else add.loc(), construct=norm(news[0]) if news else "", function=add.qualname)

    rule3 = "C25.3 T11 only-add-writes"
    cls = idx.cls(STN)
    for m in cls.methods.values():
        if m.name not in ("check_stn", "get_stn_model", "distances", "get_constraints", "copy_stn", "__contains__", "__repr__", "_is_subsumed"):
            continue
        w = {k for k in list(self_attr_stores(m.node)) + list(attr_mutations(m.node)) if k in ("_constraints", "_distances")}
        rep.check(not w, rule3, f"{m.name} does not write the network's dictionaries", m.loc(), construct=", ".join(sorted(w)), detail="" if not w else "a query method modifies the network", function=m.qualname)
