"""C12 — NNF and DNF conversions are equivalent and in normal form (structural clauses).

Decides: (1) T16 contradiction in Dnf.walk_and: in the list-of-conjunctions representation the empty list is the
empty disjunction (false); the branch taken when a conjunction simplifies to *true* must not return the same
representation as the all-conjunctions-false outcome; get_dnf_expression rebuilds Or(And(c) for c in tuples);
(2) the polarity table of Nnf.get_nnf_expression: negation flips polarity, De Morgan swaps And/Or exactly under
negative polarity, an implication negates only its antecedent, an atom is negated exactly under negative
polarity; (3) T6: Nnf distinguishes NOT/AND/OR/IMPLIES/IFF and treats everything else as an atom; Dnf handles
every operator.
Does not decide: logical equivalence.
"""
from __future__ import annotations

import ast
from typing import Dict, List, Tuple

from ..index import AnalysisError, Index, call_name, norm, walk_no_nested
from ..report import Report
from ..rules import cfg_of, guards_dominating
from ..walkersdb import WalkerDB


def run(idx: Index, rep: Report, tier: str) -> None:
    rep.explanation = __doc__.strip()
    # ---------------------------------------------------------------- (1) T16
    rule1 = "C12.1 T16 true-and-false-differ"
    wa = idx.func("model.walkers.dnf.Dnf.walk_and")
    rep.note_function(wa.qualname)
    acc_init: Dict[str, str] = {}
    for a in walk_no_nested(wa.node):
        if isinstance(a, (ast.Assign, ast.AnnAssign)):
            tg = a.targets[0] if isinstance(a, ast.Assign) else a.target
            if isinstance(tg, ast.Name) and a.value is not None and isinstance(a.value, (ast.List, ast.Tuple)):
                acc_init.setdefault(tg.id, norm(a.value))
    final_rets = [r for r in wa.node.body if isinstance(r, ast.Return)]
    if not final_rets or not isinstance(final_rets[-1].value, ast.Name) or final_rets[-1].value.id not in acc_init:
        raise AnalysisError("anchor vanished: accumulator returned by Dnf.walk_and")
    acc = final_rets[-1].value.id
    false_repr = acc_init[acc]
    true_branches = [i for i in walk_no_nested(wa.node) if isinstance(i, ast.If) and isinstance(i.test, ast.Call) and call_name(i.test) == "is_true"]
    if not true_branches:
        raise AnalysisError("anchor vanished: `.is_true()` branch in Dnf.walk_and")
    for i in true_branches:
        rets = [r for s in i.body for r in ast.walk(s) if isinstance(r, ast.Return)]
        for r in rets:
            val = norm(r.value) if r.value is not None else "None"
            ok = val != false_repr and not (isinstance(r.value, (ast.List, ast.Tuple)) and not r.value.elts)
            rep.check(ok, rule1, "Dnf.walk_and: a tautological conjunction is not represented like a contradiction", wa.loc(r), construct=f"if {norm(i.test)}: return {val}   (all-false outcome: {acc} = {false_repr})", detail="" if ok else "the list of conjunctions is empty both when every conjunction is false and when one is true: `1<=2 and 2<=3` becomes false", function=wa.qualname)
        # is_false branch appends nothing
    false_branches = [i for i in walk_no_nested(wa.node) if isinstance(i, ast.If) and isinstance(i.test, ast.Call) and call_name(i.test) == "is_false"]
    for i in false_branches:
        adds = [c for s in i.body for c in ast.walk(s) if isinstance(c, ast.Call) and call_name(c) in ("append", "extend")]
        rep.check(not adds, rule1, "Dnf.walk_and: a contradictory conjunction contributes no disjunct", wa.loc(i), construct=norm(i.test), function=wa.qualname)
    gd = idx.func("model.walkers.dnf.Dnf.get_dnf_expression")
    rep.note_function(gd.qualname)
    rets = [r for r in walk_no_nested(gd.node) if isinstance(r, ast.Return) and r.value is not None]
    ok = False
    for r in rets:
        v = r.value
        if isinstance(v, ast.Call) and call_name(v) == "Or" and len(v.args) == 1 and isinstance(v.args[0], (ast.GeneratorExp, ast.ListComp)) and isinstance(v.args[0].elt, ast.Call) and call_name(v.args[0].elt) == "And":
            ok = True
    rep.check(ok, rule1, "get_dnf_expression rebuilds Or(And(conjunction) ...)", gd.loc(rets[-1]) if rets else gd.loc(), construct=norm(rets[-1].value)[:100] if rets else "", function=gd.qualname)
    wo = idx.func("model.walkers.dnf.Dnf.walk_or")
    rep.note_function(wo.qualname)
    r = [x for x in walk_no_nested(wo.node) if isinstance(x, ast.Return)]
    ok = len(r) == 1 and isinstance(r[0].value, ast.ListComp) and len(r[0].value.generators) == 2 and norm(r[0].value.generators[0].iter) == "args"
    rep.check(ok, rule1, "Dnf.walk_or concatenates the conjunction lists of all disjuncts", wo.loc(), construct=norm(r[0].value) if r else "", function=wo.qualname)
    wp = [c for c in walk_no_nested(wa.node) if isinstance(c, ast.Call) and call_name(c) == "product"]
    ok = bool(wp) and all(len(c.args) == 1 and isinstance(c.args[0], ast.Starred) and norm(c.args[0].value) == "args" for c in wp)
    if wp:
        rep.check(ok, rule1, "Dnf.walk_and distributes over the full product of the arguments' disjuncts", wa.loc(wp[0]), construct=norm(wp[0]), function=wa.qualname)
    else:
        # the distribution is written without itertools.product (explicit enumeration): this rule reads only the
        # product form; what every enumerated conjunction must satisfy is decided by C12.4 on the loop that appends
        rep.inconclusive(rule1, "Dnf.walk_and distributes over the full product of the arguments' disjuncts", wa.loc(), construct="no product(*args): enumeration written another way", detail="not decided: the rule reads the itertools.product form only", function=wa.qualname)

    # ---------------------------------------------------------------- (2) NNF polarity table
    rule2 = "C12.2 NNF-polarity-table"
    nn = idx.func("model.walkers.dnf.Nnf.get_nnf_expression")
    rep.note_function(nn.qualname)
    if _nnf_by_cases(nn, rep, rule2, tier):
        return _after_nnf(idx, rep, tier)
    # roles: `p, e, status = stack.pop()`; `solved` is the list the atom branch appends to; `arg` iterates e.args
    from ..roles import unpack_targets, with_roles

    tup = unpack_targets(nn.node, lambda v: isinstance(v, ast.Call) and call_name(v) == "pop" and isinstance(v.func, ast.Attribute) and isinstance(v.func.value, ast.Name))
    if tup is None or len(tup.elts) != 3 or not all(isinstance(x, ast.Name) for x in tup.elts):
        raise AnalysisError("anchor vanished: `polarity, expression, status = <stack>.pop()` in Nnf.get_nnf_expression")
    roles = {tup.elts[0].id: "p", tup.elts[1].id: "e", tup.elts[2].id: "status"}
    for a in walk_no_nested(nn.node):
        if isinstance(a, ast.Assign) and a.targets[0] is tup:
            roles[a.value.func.value.id] = "stack"
    for c in walk_no_nested(nn.node):
        if isinstance(c, ast.Call) and call_name(c) == "append" and isinstance(c.func.value, ast.Name) and c.func.value.id not in roles and c.args and not isinstance(c.args[0], ast.Tuple):
            roles.setdefault(c.func.value.id, "solved")
    for l in walk_no_nested(nn.node):
        if isinstance(l, ast.For) and isinstance(l.target, ast.Name) and isinstance(l.iter, ast.Attribute) and l.iter.attr == "args" and norm(l.iter.value) == tup.elts[1].id:
            roles[l.target.id] = "arg"
    nn = with_roles(nn, roles)
    # locate the `if status:` split
    split = [i for i in walk_no_nested(nn.node) if isinstance(i, ast.If) and norm(i.test) == "status"]
    if not split:
        raise AnalysisError("anchor vanished: `if status:` in Nnf.get_nnf_expression")
    rebuild, expand = split[0].body, split[0].orelse

    def branch(stmts, pred: str):
        for s in stmts:
            cur = s
            while isinstance(cur, ast.If):
                preds = {c.func.attr for c in ast.walk(cur.test) if isinstance(c, ast.Call) and isinstance(c.func, ast.Attribute)}
                if pred in preds:
                    return cur
                cur = cur.orelse[0] if len(cur.orelse) == 1 and isinstance(cur.orelse[0], ast.If) else None
        return None

    # De Morgan in the rebuild phase: decided on the path facts at each And(...) / Or(...) construction, so that
    # `if e.is_and(): … elif e.is_or(): … else: raise` and `if not e.is_or(): raise` + fall-through are the same code
    from ..rules2 import path_facts

    ncfg = cfg_of(nn)

    def ev(t, env):
        """Three-valued evaluation of a test over the atoms of `env` (None = unknown)."""
        if isinstance(t, ast.Constant):
            return bool(t.value)
        if isinstance(t, ast.UnaryOp) and isinstance(t.op, ast.Not):
            v = ev(t.operand, env)
            return None if v is None else not v
        if isinstance(t, ast.BoolOp):
            vs = [ev(x, env) for x in t.values]
            if isinstance(t.op, ast.And):
                return False if any(v is False for v in vs) else (None if any(v is None for v in vs) else True)
            return True if any(v is True for v in vs) else (None if any(v is None for v in vs) else False)
        if isinstance(t, ast.Compare) and len(t.ops) == 1 and isinstance(t.ops[0], (ast.Eq, ast.NotEq, ast.Is, ast.IsNot)):
            a, b = ev(t.left, env), ev(t.comparators[0], env)
            if a is None or b is None:
                return None
            return (a == b) if isinstance(t.ops[0], (ast.Eq, ast.Is)) else (a != b)
        return env.get(norm(t))

    sites = []
    for nd in ncfg.nodes:
        if nd.ast is None or nd.kind not in ("stmt", "return"):
            continue
        calls = [c for c in ast.walk(nd.ast) if isinstance(c, ast.Call) and call_name(c) in ("And", "Or") and isinstance(c.func, ast.Attribute)]
        if len(calls) != 1:
            continue
        gs = [(t.ast, bool(o)) for t, o in guards_dominating(ncfg, nd)]
        if any(ev(t, {"status": False}) is o for t, o in gs if ev(t, {"status": False}) is not None) and not any(ev(t, {"status": True}) is o for t, o in gs if ev(t, {"status": True}) is not None):
            continue  # belongs to the expansion phase
        sites.append((nd, calls[0], gs))
    # a conditional expression choosing the connective (`And if c else Or`) is a site for each arm
    cells = {}
    for is_and in (True, False):
        for pol in (True, False):
            env = {"status": True, "e.is_and()": is_and, "e.is_or()": not is_and, "p": pol}
            reached = []
            for nd, call, gs in sites:
                if all(ev(t, env) in (o, None) for t, o in gs):
                    # conditional expression inside the statement
                    par = [x for x in ast.walk(nd.ast) if isinstance(x, ast.IfExp) and any(y is call for y in ast.walk(x))]
                    if par:
                        c = ev(par[0].test, env)
                        arm = par[0].body if c else par[0].orelse
                        if c is None or not any(y is call for y in ast.walk(arm)):
                            continue
                    reached.append((call_name(call), nd.ast))
            cells[(is_and, pol)] = reached
    for pred, pos, neg in (("is_and", "And", "Or"), ("is_or", "Or", "And")):
        t, e = cells.get((pred == "is_and", True), []), cells.get((pred == "is_and", False), [])
        ok = len(t) == 1 and len(e) == 1 and t[0][0] == pos and e[0][0] == neg
        b = (t or e or [(None, None)])[0][1]
        rep.check(ok, rule2, f"rebuild {pred[3:].upper()}: positive polarity -> {pos}, negative -> {neg}", nn.loc(b) if b is not None else nn.loc(), construct=f"{pred}: p ? {pos} : {neg}", detail="" if ok else "De Morgan's law is not applied (or applied under the wrong polarity)", function=nn.qualname)

    def pushes(stmts) -> List[Tuple[str, str, str]]:
        out = []
        for s in stmts:
            for c in ast.walk(s):
                if isinstance(c, ast.Call) and call_name(c) == "append" and norm(c.func.value) == "stack" and c.args and isinstance(c.args[0], ast.Tuple) and len(c.args[0].elts) == 3:
                    out.append(tuple(norm(x) for x in c.args[0].elts))
        return out

    b = branch(expand, "is_not")
    ps = pushes(b.body) if b is not None else []
    ok = ps == [("not p", "e.arg(0)", "False")]
    rep.check(ok, rule2, "NOT flips the polarity of its argument", nn.loc(b) if b is not None else nn.loc(), construct=str(ps), detail="" if ok else "negation does not flip polarity exactly once", function=nn.qualname)
    b = branch(expand, "is_implies")
    ps = pushes(b.body) if b is not None else []
    ok = ("not p", "e.arg(0)", "False") in ps and ("p", "e.arg(1)", "False") in ps and ("not p", "e.arg(1)", "False") not in ps and ("p", "e.arg(0)", "False") not in ps
    rep.check(ok, rule2, "IMPLIES negates its antecedent only", nn.loc(b) if b is not None else nn.loc(), construct=str(ps), detail="" if ok else "a => b is not treated as (not a) or b", function=nn.qualname)
    b = branch(expand, "is_iff")
    ps = pushes(b.body) if b is not None else []
    ok = sorted(x for x in ps if x[2] == "False") == sorted([("p", "e.arg(0)", "False"), ("p", "e.arg(1)", "False"), ("not p", "e.arg(0)", "False"), ("not p", "e.arg(1)", "False")])
    rep.check(ok, rule2, "IFF expands to (a and b) or (not a and not b)", nn.loc(b) if b is not None else nn.loc(), construct=str(ps)[:160], detail="" if ok else "the equivalence is not expanded with both polarities of both sides", function=nn.qualname)
    b = branch(expand, "is_and")
    ps = pushes(b.body) if b is not None else []
    ok = ("p", "e", "True") in ps and ("p", "arg", "False") in ps
    rep.check(ok, rule2, "AND/OR keep the polarity for their arguments", nn.loc(b) if b is not None else nn.loc(), construct=str(ps), function=nn.qualname)
    # atoms
    last = expand[0]
    while isinstance(last, ast.If) and len(last.orelse) == 1 and isinstance(last.orelse[0], ast.If) and norm(last.orelse[0].test) != "p":
        last = last.orelse[0]
    atom = last.orelse if isinstance(last, ast.If) else []
    inner = [i for i in atom if isinstance(i, ast.If) and norm(i.test) == "p"]
    ok = False
    if inner:
        t = [norm(c.args[0]) for s in inner[0].body for c in ast.walk(s) if isinstance(c, ast.Call) and call_name(c) == "append" and norm(c.func.value) == "solved"]
        e = [norm(c.args[0]) for s in inner[0].orelse for c in ast.walk(s) if isinstance(c, ast.Call) and call_name(c) == "append" and norm(c.func.value) == "solved"]
        ok = t == ["e"] and len(e) == 1 and e[0].endswith("Not(e)")
    rep.check(ok, rule2, "an atom is negated exactly under negative polarity", nn.loc(inner[0]) if inner else nn.loc(), construct="p ? e : Not(e)", detail="" if ok else "atoms are negated under the wrong polarity", function=nn.qualname)

    _after_nnf(idx, rep, tier)


def _nnf_by_cases(nn, rep: Report, rule2: str, tier: str) -> bool:
    """Nnf.get_nnf_expression looks at a formula only through is_not / is_and / is_or / is_implies / is_iff, args and
    arg(i), and builds its answer only with manager.And / Or / Not: what it computes for a formula is decided by
    interpreting its syntax tree on abstract formula trees (no repository code runs). It is interpreted on every
    formula of depth <= 2 over {not, and, or, implies, iff} and two atoms (a few three-argument conjunctions
    included) and the answer is compared with the definition: same truth table, negations only on atoms, no
    implication or equivalence left. Returns False (shape rules take over) when the code leaves the fragment."""
    import itertools

    from .extra3 import _OrderInterp, _Raised, _Returned, _Stub, _Yielded

    class F:
        __slots__ = ("kind", "args", "stub")

        def __init__(self, kind, args=()):
            self.kind, self.args = kind, list(args)
            k = kind
            self.stub = _Stub(
                f"<{k}>",
                is_not=lambda: k == "not",
                is_and=lambda: k == "and",
                is_or=lambda: k == "or",
                is_implies=lambda: k == "implies",
                is_iff=lambda: k == "iff",
                args=[a.stub for a in self.args],
                arg=lambda i: self.args[i].stub,
            )
            self.stub._formula = self

    def mk(kind):
        def build(*xs):
            if len(xs) == 1 and isinstance(xs[0], (list, tuple)):
                xs = tuple(xs[0])
            return F(kind, [x._formula for x in xs]).stub

        return build

    def val(f, env):
        if f.kind in ("a", "b"):
            return env[f.kind]
        vs = [val(x, env) for x in f.args]
        return {"not": lambda: not vs[0], "and": lambda: all(vs), "or": lambda: any(vs), "implies": lambda: (not vs[0]) or vs[1], "iff": lambda: vs[0] == vs[1]}[f.kind]()

    def is_nnf(f):
        if f.kind in ("a", "b"):
            return True
        if f.kind == "not":
            return f.args[0].kind in ("a", "b")
        return f.kind in ("and", "or") and all(is_nnf(x) for x in f.args)

    def show(f):
        return f.kind if f.kind in ("a", "b") else f"{f.kind}({', '.join(show(x) for x in f.args)})"

    atoms = [("a",), ("b",)]
    d0 = [F(k) for (k,) in atoms]

    def grow(prev):
        out = [F("not", [x]) for x in prev]
        for k in ("and", "or", "implies", "iff"):
            out += [F(k, [x, y]) for x in prev for y in prev]
        return out

    d1 = d0 + grow(d0)
    d2 = d1 + [F("not", [x]) for x in d1[2:]] + [F(k, [x, y]) for k in ("and", "or", "implies", "iff") for x in d1 for y in d1 if x.kind not in ("a", "b") or y.kind not in ("a", "b")]
    d2 += [F(k, [x, y, z]) for k in ("and", "or") for x, y, z in itertools.product(d1[:8], repeat=3)][:: 7 if tier != "thorough" else 1]
    if tier != "thorough":
        d2 = d2[::3] + d1
    interp = _OrderInterp(nn.node)
    interp.check_asserts = True
    params = [p for p in nn.params() if p not in ("self", "cls")]
    if len(params) != 1:
        return False
    manager = _Stub("manager", And=mk("and"), Or=mk("or"), Not=mk("not"))
    me = _Stub("self", manager=manager, environment=_Stub("env", expression_manager=manager))
    wrong = None
    n = 0
    for f in d2:
        try:
            interp.run({"self": me, params[0]: f.stub})
            got = None
        except _Returned as r:
            got = r.value
        except _Yielded:
            got = None
        except _Raised as ex:
            got = f"raises {ex}"
        except _OrderInterp.Unsupported:
            return False
        except Exception:
            return False
        n += 1
        if wrong is not None:
            continue
        g = getattr(got, "_formula", None)
        if g is None:
            wrong = (f, f"{got}", "no formula is answered")
        elif not is_nnf(g):
            wrong = (f, show(g), "the answer is not in negation normal form")
        elif any(val(f, {"a": x, "b": y}) != val(g, {"a": x, "b": y}) for x in (False, True) for y in (False, True)):
            wrong = (f, show(g), "the answer is not equivalent to the input")
    detail = ""
    if wrong is not None:
        detail = f"for {show(wrong[0])} the answer is {wrong[1]}: {wrong[2]} (De Morgan / the expansion of an implication or equivalence is applied under the wrong polarity)"
    rep.check(wrong is None, rule2, "the NNF of a formula is equivalent to it, negates only atoms and contains no implication or equivalence", nn.loc(), construct=f"{n} formulas of depth <= 2 interpreted", detail=detail, function=nn.qualname, strict=True)
    rep.count("nnf_formulas_interpreted", n)
    return True


def _after_nnf(idx: Index, rep: Report, tier: str) -> None:
    nn = idx.func("model.walkers.dnf.Nnf.get_nnf_expression")
    # ---------------------------------------------------------------- (3) T6
    rule3 = "C12.3 T6 operator-exhaustiveness"
    preds = {c.attr for c in ast.walk(nn.node) if isinstance(c, ast.Attribute) and c.attr.startswith("is_")}
    for p in ("is_not", "is_and", "is_or", "is_implies", "is_iff"):
        rep.check(p in preds, rule3, f"Nnf distinguishes {p}", nn.loc(), construct=p, detail="" if p in preds else f"{p[3:]} is treated as an atom: negation is not pushed through it", function=nn.qualname)
    db = WalkerDB(idx)
    ci = idx.cls("model.walkers.dnf.Dnf")
    un = db.unhandled(ci)
    for m in db.ops.members:
        rep.check(m not in un, rule3, f"Dnf handles OperatorKind.{m}", ci.loc(), construct=m, function=ci.qualname)
    h = db.handlers(ci)
    ok = h.get("AND") is not None and h["AND"].name == "walk_and" and h.get("OR") is not None and h["OR"].name == "walk_or" and all(h[m].name == "walk_all" for m in db.ops.members if m not in ("AND", "OR"))
    rep.check(ok, rule3, "Dnf: only AND and OR are structural, every other operator is an atom", ci.loc(), construct="walk_and / walk_or / walk_all", function=ci.qualname)
