"""C24 — effect conflict detection is order-independent and exception-safe (structural clauses).

Decides: (1) T3 in check_conflicting_effects / check_conflicting_simulated_effects: no bookkeeping write
(fluents_assigned[...] = ..., fluents_inc_dec.add(...)) lies on a path that later raises; (2) T3 in the callers
(_add_effect_instance of actions, timed containers and problems; set_simulated_effect): the effect list / the
simulated effect is written only after the conflict check returned (creating an empty per-timing container with
setdefault is the reasoned exception: an empty container changes no later verdict); every caller passes its own
bookkeeping containers; (3) T15 order independence and rejection-leaves-state-unchanged over the decision table of
the conflict predicate: every ordered pair of insertions from {assign v1, assign v2, increase, decrease,
simulated effect} x {conditional, unconditional} x {Boolean, numeric} on one fluent, executed abstractly in both
orders from the empty bookkeeping.
Does not decide: conflicts between effects on different ground fluents that coincide after grounding.
"""
from __future__ import annotations

import ast
from typing import List

from ..index import AnalysisError, Index, call_name, norm, walk_no_nested
from ..report import Report
from ..rules import MUTATORS, cfg_nodes_with_call, cfg_of, path_text, tracked_writes, writes_then_raises

EFFECT = "model.effect"


def run(idx: Index, rep: Report, tier: str) -> None:
    rep.explanation = __doc__.strip()
    rule1 = "C24.1 T3 no-bookkeeping-write-before-raise"
    n = 0
    for name in ("check_conflicting_effects", "check_conflicting_simulated_effects"):
        f = idx.func(f"{EFFECT}.{name}")
        rep.note_function(f.qualname)
        cfg = cfg_of(f)
        ws = tracked_writes(cfg, set(), params={"fluents_assigned", "fluents_inc_dec"})
        if name == "check_conflicting_effects" and len(ws) < 1:
            raise AnalysisError("anchor vanished: bookkeeping writes in check_conflicting_effects")
        for w, what in ws:
            n += 1
            p = writes_then_raises(cfg, w)
            rep.check(p is None, rule1, f"{name}: `{norm(w.ast)}` is not followed by a raise", f.loc(w.ast), construct=norm(w.ast), detail="" if p is None else f"{what} is updated and the same call can still raise UPConflictingEffectsException: the rejected effect stays recorded in the conflict bookkeeping and later insertions are judged against it", function=f.qualname, path=path_text(p) if p else None)
        if not ws:
            rep.ok(rule1, f"{name}: performs no bookkeeping write", f.loc(), function=f.qualname)
    rep.count("bookkeeping_writes", n)

    rule2 = "C24.2 T3 callers-commit-after-check"
    callers = [
        ("model.transition.UntimedEffectMixin._add_effect_instance", "check_conflicting_effects", {"_effects"}),
        ("model.mixins.timed_conds_effs.TimedCondsEffs._add_effect_instance", "check_conflicting_effects", {"_effects"}),
        ("model.problem.Problem._add_effect_instance", "check_conflicting_effects", {"_timed_effects"}),
        ("model.transition.UntimedEffectMixin.set_simulated_effect", "check_conflicting_simulated_effects", {"_simulated_effect"}),
        ("model.mixins.timed_conds_effs.TimedCondsEffs.set_simulated_effect", "check_conflicting_simulated_effects", {"_simulated_effects"}),
    ]
    for q, check, fields in callers:
        if ("unified_planning." + q) not in idx.funcs:
            # the mixin class may have another name: find by method name in the module
            mod, _, rest = q.rpartition(".")
            modname, _, clsname = mod.rpartition(".")
            cands = [f for f in idx.all_funcs() if f.module.name == "unified_planning." + modname and f.name == rest and any(isinstance(c, ast.Call) and call_name(c) == check for c in walk_no_nested(f.node))]
            if not cands:
                raise AnalysisError(f"anchor vanished: {q}")
            f = cands[0]
        else:
            f = idx.func(q)
        rep.note_function(f.qualname)
        cfg = cfg_of(f, implicit_raise=True)
        checks = [nn for nn, c in cfg_nodes_with_call(cfg, check)]
        if not checks:
            raise AnalysisError(f"anchor vanished: {f.short} no longer calls {check}")
        ws = tracked_writes(cfg, fields)
        if not ws:
            raise AnalysisError(f"anchor vanished: {f.short} writes none of {sorted(fields)}")
        for w, what in ws:
            # the write must not be able to precede the check call
            p = None
            for c in checks:
                p = p or cfg.path_avoiding(w, c, set())
            rep.check(p is None, rule2, f"{f.short}: {what} is written only after {check} returned", f.loc(w.ast), construct=norm(w.ast)[:90], detail="" if p is None else f"{what} is modified before the conflict check: a rejected insertion is already stored", function=f.qualname, path=path_text(p) if p else None)
            q2 = cfg.path_avoiding(cfg.entry, w, set(checks))
            rep.check(q2 is None, rule2, f"{f.short}: every path to the write passes the conflict check", f.loc(w.ast), construct=norm(w.ast)[:90], detail="" if q2 is None else "an effect can be stored without being checked against the existing ones", function=f.qualname)
        # other writes before the check: only setdefault of an empty container is tolerated
        for node in cfg.nodes:
            if node.ast is None or node.kind != "stmt" or node in [w for w, _ in ws]:
                continue
            if not any(cfg.path_avoiding(node, c, set()) is not None for c in checks):
                continue
            for x in ast.walk(node.ast):
                if isinstance(x, ast.Call) and isinstance(x.func, ast.Attribute) and x.func.attr in MUTATORS and norm(x.func.value).startswith("self."):
                    ok = x.func.attr == "setdefault" and len(x.args) == 2 and ((isinstance(x.args[1], (ast.Dict, ast.List)) and not getattr(x.args[1], "keys", getattr(x.args[1], "elts", []))) or (isinstance(x.args[1], ast.Call) and norm(x.args[1]) in ("set()", "dict()", "list()")))
                    rep.check(ok, rule2, f"{f.short}: before the check only empty containers are created", f.loc(x), construct=norm(x), detail="" if ok else "model state is modified before the conflict check", function=f.qualname)
        # the caller hands its own bookkeeping to the check
        for nn, c in cfg_nodes_with_call(cfg, check):
            args = " ".join(norm(a) for a in c.args)
            ok = ("fluents_assigned" in args or "_fluents_assigned" in args) and ("fluents_inc_dec" in args or "_fluents_inc_dec" in args)
            rep.check(ok, rule2, f"{f.short}: passes its assignment and inc/dec bookkeeping to {check}", f.loc(c), construct=norm(c)[:140], detail="" if ok else "the conflict check runs on containers that are not this object's bookkeeping", function=f.qualname)

    from .C24_table import order_independence

    order_independence(idx, rep)
