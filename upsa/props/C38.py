"""C38 — writer renamings are valid, injective and invertible (structural clauses).

Decides: (1) T7 vocabulary: every alphabetic token the PDDL writer emits as the head of a list without a colon
(operators and built-in functions such as `assign`, `increase`, `total-cost`) or as a built-in type word is in
the keyword sets names are checked against — a model element may otherwise be written under the very token the
writer also emits with its own meaning; (2) T2 pairing + T11 ownership: otn_renamings[item] = n and
nto_renamings[n] = item are written together, only in _get_mangled_name, whose result is the stored name;
get_item_named / get_pddl_name read exactly those maps; the chosen name is re-tested against the problem's names
and the names already handed out; (3) the mangling pipeline: lower-casing, a leading letter, the substituted
character class is the complement of the identifier alphabet (regex syntax tree via re._parser), keyword
avoidance loops until the name is no keyword; the same for the ANML writer (alphabet without '-'), whose fresh
name loop tests the names already in the mapping.
Does not decide: injectivity for a concrete problem.
"""
from __future__ import annotations

import ast
import re
from typing import Dict, List, Set, Tuple

from ..index import AnalysisError, Index, call_name, norm, walk_no_nested
from ..report import Report
from ..rules import cfg_of, guards_dominating
from ..dataflow import DefUse

PW = "io.pddl_writer"
AW = "io.anml_writer"


def regex_negated_class(pattern: str):
    """(negated?, set of (lo, hi) ranges / literal chars) for a single character-class regex, else None."""
    import re._parser as sre  # type: ignore

    try:
        p = sre.parse(pattern)
    except Exception:
        return None
    if len(p) != 1:
        return None
    op, av = p[0]
    if str(op) != "IN":
        return None
    neg = False
    items: Set[Tuple[int, int]] = set()
    for o, a in av:
        so = str(o)
        if so == "NEGATE":
            neg = True
        elif so == "RANGE":
            items.add((a[0], a[1]))
        elif so == "LITERAL":
            items.add((a, a))
        else:
            return None
    return neg, items


def alphabet(items: Set[Tuple[int, int]]) -> Set[str]:
    return {chr(c) for lo, hi in items for c in range(lo, hi + 1)}


def name_roles(f, extra=None) -> Dict[str, str]:
    """Locals of the name-mangling helpers by role: the result (what is returned, possibly inside cast(str, …)), the
    candidate (bound from _get_pddl_name(…)), the original name (bound from ….name), the probe of a `while probe in
    <table>.values()` loop."""
    roles: Dict[str, str] = {}
    fn = f.node
    for r in walk_no_nested(fn):
        if isinstance(r, ast.Return) and r.value is not None:
            v = r.value
            if isinstance(v, ast.Call) and call_name(v) == "cast" and len(v.args) == 2:
                v = v.args[1]
            if isinstance(v, ast.Name) and v.id not in f.params():
                roles.setdefault(v.id, (extra or {}).get("result", "name"))
    for a in walk_no_nested(fn):
        if isinstance(a, ast.Assign) and isinstance(a.targets[0], ast.Name) and a.targets[0].id not in roles:
            if isinstance(a.value, ast.Call) and call_name(a.value) == "_get_pddl_name":
                roles[a.targets[0].id] = "tmp_name"
            elif isinstance(a.value, ast.Attribute) and a.value.attr == "name":
                roles[a.targets[0].id] = "original_name"
    for w in walk_no_nested(fn):
        if isinstance(w, ast.While) and isinstance(w.test, ast.Compare) and isinstance(w.test.left, ast.Name) and isinstance(w.test.ops[0], ast.In) and norm(w.test.comparators[0]).endswith(".values()"):
            roles.setdefault(w.test.left.id, "test_name")
    return roles


def run(idx: Index, rep: Report, tier: str) -> None:
    rep.explanation = __doc__.strip()
    mod = idx.module(PW)
    # ---------------------------------------------------------------- (1) vocabulary
    rule1 = "C38.1 T7 emitted-tokens-are-reserved"
    kw: Set[str] = set()
    n_sets = 0
    for name, val in mod.assigns.items():
        if name.endswith("KEYWORDS"):
            try:
                kw |= set(ast.literal_eval(val))
                n_sets += 1
            except ValueError:
                raise AnalysisError(f"anchor vanished: {name} is not a literal set")
    if n_sets < 3:
        raise AnalysisError("anchor vanished: PDDL keyword sets")
    toks: Dict[str, Tuple[str, int]] = {}
    for f in idx.all_funcs():
        if f.module is not mod:
            continue
        body = f.node.body
        doc_node = body[0].value if body and isinstance(body[0], ast.Expr) and isinstance(body[0].value, ast.Constant) else None
        for n in ast.walk(f.node):
            if isinstance(n, ast.Constant) and isinstance(n.value, str) and n is not doc_node:
                for m in re.finditer(r"\(\s*([a-zA-Z][a-zA-Z0-9_-]*)", n.value):
                    toks.setdefault(m.group(1).lower(), (f.loc(n), n.lineno))
                for m in re.finditer(r"(?:^|\s)-\s+(number|object)\b", n.value):
                    toks.setdefault(m.group(1).lower(), (f.loc(n), n.lineno))
    rep.count("emitted_list_heads", len(toks))
    rep.require_min(rule1, "emitted_list_heads", 20)
    special = {"object"}  # handled by _get_mangled_name itself when the typing is hierarchical
    for t, (where, _) in sorted(toks.items()):
        if t in special:
            continue
        ok = t in kw
        rep.check(ok, rule1, f"token `({t}` emitted by the PDDL writer is a reserved word", where, construct=f"'{t}' not in the PDDL keyword sets" if not ok else t, detail="" if ok else f"a fluent / action / object named `{t}` is written under the token the writer itself emits with a built-in meaning (e.g. `(assign (assign) 3)`, a second `(total-cost)` in :functions)", function="unified_planning.io.pddl_writer")

    # ---------------------------------------------------------------- (2) the two maps
    rule2 = "C38.2 T2 renaming-maps-are-inverse"
    from ..roles import with_roles

    gm = idx.func(PW + ".PDDLWriter._get_mangled_name")
    rep.note_function(gm.qualname)
    gm = with_roles(gm, name_roles(gm, {"result": "new_name"}))
    writers: Dict[str, List[Tuple[str, str]]] = {"otn_renamings": [], "nto_renamings": []}
    for f in idx.all_funcs():
        if f.module is not mod:
            continue
        for a in walk_no_nested(f.node):
            if isinstance(a, ast.Assign) and isinstance(a.targets[0], ast.Subscript) and isinstance(a.targets[0].value, ast.Attribute) and a.targets[0].value.attr in writers:
                writers[a.targets[0].value.attr].append((f.short, norm(a)))
    # a private helper that only _get_mangled_name calls is part of it
    pw_cls = idx.cls(PW + ".PDDLWriter")
    own_helpers = set()
    for hname, h in pw_cls.methods.items():
        if hname.startswith("_") and hname != "_get_mangled_name":
            callers = {m.node.name for m in pw_cls.methods.values() if any(isinstance(c, ast.Call) and isinstance(c.func, ast.Attribute) and norm(c.func.value) == "self" and c.func.attr == hname for c in walk_no_nested(m.node))}
            if callers == {"_get_mangled_name"}:
                own_helpers.add("PDDLWriter." + hname)
    for mname, ws in writers.items():
        ok = bool(ws) and all(w[0] == "PDDLWriter._get_mangled_name" or w[0] in own_helpers for w in ws)
        rep.check(ok, rule2, f"{mname} is written only in _get_mangled_name", gm.loc(), construct="; ".join(f"{a}: {b}" for a, b in ws), detail="" if ok else "a name enters one lookup direction without the other", function=gm.qualname)
    body = [norm(s) for s in gm.node.body]
    try:
        i = body.index("self.otn_renamings[item] = new_name")
        ok = body[i + 1] == "self.nto_renamings[new_name] = item" and body[i + 2] == "return new_name"
    except (ValueError, IndexError):
        ok = False
    if not ok:
        # wherever they stand: one store into each map, mirrored (otn[item] = X, nto[X] = item), and X is what is returned
        st_ = [a for a in walk_no_nested(gm.node) if isinstance(a, ast.Assign) and isinstance(a.targets[0], ast.Subscript) and isinstance(a.targets[0].value, ast.Attribute) and a.targets[0].value.attr in writers]
        if len(st_) == 2 and {x.targets[0].value.attr for x in st_} == set(writers):
            o_ = next(x for x in st_ if x.targets[0].value.attr == "otn_renamings")
            n__ = next(x for x in st_ if x.targets[0].value.attr == "nto_renamings")
            last_ret = [r for r in walk_no_nested(gm.node) if isinstance(r, ast.Return) and r.value is not None]
            ok = norm(o_.targets[0].slice) == norm(n__.value) and norm(n__.targets[0].slice) == norm(o_.value) and bool(last_ret) and norm(last_ret[-1].value) == norm(o_.value)
    if not ok:
        # the pair of stores inside a helper of its own: both maps are written in one helper, with mirrored key / value,
        # and _get_mangled_name returns the name it handed to that helper
        for hq in sorted(own_helpers):
            h = pw_cls.methods[hq.split(".")[-1]]
            st = [a for a in walk_no_nested(h.node) if isinstance(a, ast.Assign) and isinstance(a.targets[0], ast.Subscript) and isinstance(a.targets[0].value, ast.Attribute) and a.targets[0].value.attr in writers]
            if len(st) == 2 and {x.targets[0].value.attr for x in st} == set(writers):
                o = next(x for x in st if x.targets[0].value.attr == "otn_renamings")
                n_ = next(x for x in st if x.targets[0].value.attr == "nto_renamings")
                mirrored = norm(o.targets[0].slice) == norm(n_.value) and norm(n_.targets[0].slice) == norm(o.value)
                hp = [p_ for p_ in h.params() if p_ != "self"]
                calls = [c for c in walk_no_nested(gm.node) if isinstance(c, ast.Call) and isinstance(c.func, ast.Attribute) and c.func.attr == h.node.name]
                name_pos = hp.index(norm(o.value)) if norm(o.value) in hp else None
                returned = {norm(r.value) for r in walk_no_nested(gm.node) if isinstance(r, ast.Return) and r.value is not None}
                if mirrored and calls and name_pos is not None and all(name_pos < len(c.args) and norm(c.args[name_pos]) in returned for c in calls):
                    ok = True
    rep.check(ok, rule2, "both directions are stored together and the stored name is the one returned", gm.loc(), construct="otn[item] = new_name; nto[new_name] = item; return new_name", detail="" if ok else "item -> name and name -> item are not updated as a pair", function=gm.qualname)
    first = [s for s in gm.node.body if isinstance(s, ast.If)][0]
    ok = norm(first.test) == "item in self.otn_renamings" and norm(first.body[0]) == "return self.otn_renamings[item]"
    if not ok:
        # `known = self.otn_renamings.get(item); if known is not None: return known` and the like: an early return of
        # what the item -> name map holds for the item, before anything is stored
        stores_ = [a for a in walk_no_nested(gm.node) if isinstance(a, ast.Assign) and isinstance(a.targets[0], ast.Subscript) and "renamings" in norm(a.targets[0].value)]
        first_store = min((a.lineno for a in stores_), default=10 ** 9)
        held = {a.targets[0].id for a in walk_no_nested(gm.node) if isinstance(a, ast.Assign) and isinstance(a.targets[0], ast.Name) and norm(a.value) in ("self.otn_renamings.get(item)", "self.otn_renamings.get(item, None)")}
        early = [r for r in walk_no_nested(gm.node) if isinstance(r, ast.Return) and r.value is not None and r.lineno < first_store and (norm(r.value) in held or norm(r.value) == "self.otn_renamings[item]")]
        ok = bool(early)
        if ok:
            first = early[0]
    rep.check(ok, rule2, "an item that already has a name keeps it", gm.loc(first), construct=norm(first.test) if isinstance(first, ast.If) else norm(first), function=gm.qualname)
    wl = [w for w in walk_no_nested(gm.node) if isinstance(w, ast.While)]
    ok = bool(wl) and "self.problem.has_name(new_name)" in norm(wl[0].test) and "new_name in self.nto_renamings" in norm(wl[0].test) and isinstance(wl[0].test, ast.BoolOp) and isinstance(wl[0].test.op, ast.Or)
    other_iteration = [x for x in ast.walk(gm.node) if isinstance(x, (ast.For, ast.GeneratorExp, ast.ListComp, ast.SetComp)) or (isinstance(x, ast.Call) and call_name(x) in ("next", "filter", "dropwhile", "takewhile"))]
    if not wl and other_iteration:
        # the search for a free name is written without a `while` (next() over candidates, …): this rule reads the loop
        # form only. With no iteration at all in the function there is no search, which is reported below.
        both = all(any(t in norm(x) for x in other_iteration) for t in ("has_name", "nto_renamings"))
        rep.inconclusive(rule2, "a changed name is re-tested against the problem's names and the names already handed out", gm.loc(), construct="no while loop: candidates are searched another way" + (" (tests has_name and nto_renamings)" if both else ""), detail="not decided: the rule reads the `while` form only", function=gm.qualname)
        ok = None
    if ok is not None:
      rep.check(ok, rule2, "a changed name is re-tested against the problem's names and the names already handed out", gm.loc(wl[0]) if wl else gm.loc(), construct=norm(wl[0].test) if wl else "", detail="" if ok else "two distinct elements can receive the same PDDL name", function=gm.qualname)
    cfg = cfg_of(gm)
    keep = [n for n in cfg.nodes if isinstance(n.ast, ast.Assign) and norm(n.ast) == "new_name = tmp_name"]
    ok = False
    for n in keep:
        gs = [(norm(t.ast), o) for t, o in guards_dominating(cfg, n)]
        if any("tmp_name == original_name" in t and "tmp_name not in self.nto_renamings" in t and o for t, o in gs):
            ok = True
    if not keep and not wl and other_iteration:
        rep.inconclusive(rule2, "a name is kept as is only if it is unchanged and not yet handed out", gm.loc(), construct="the roles of the locals are recognised through the `while` form only", detail="not decided", function=gm.qualname)
    else:
      rep.check(ok, rule2, "a name is kept as is only if it is unchanged and not yet handed out", gm.loc(keep[0].ast) if keep else gm.loc(), construct="tmp_name == original_name and tmp_name not in self.nto_renamings", function=gm.qualname)
    for q, mname in ((PW + ".PDDLWriter.get_item_named", "nto_renamings"), (PW + ".PDDLWriter.get_pddl_name", "otn_renamings")):
        f = idx.func(q)
        rets = [r for r in walk_no_nested(f.node) if isinstance(r, ast.Return)]
        ok = bool(rets) and all(f"self.{mname}[" in norm(r.value) for r in rets)
        rep.check(ok, rule2, f"{f.name} reads {mname}", f.loc(), construct=norm(rets[0]) if rets else "", function=f.qualname)
    # names reach the output only through _get_mangled_name
    direct = []
    for f in idx.all_funcs():
        if f.module is not mod or f.name in ("_get_mangled_name",):
            continue
        for c in walk_no_nested(f.node):
            if isinstance(c, ast.Call) and call_name(c) == "_get_pddl_name":
                direct.append((f, c))
    for f, c in direct:
        arg = norm(c.args[0]) if c.args else ""
        ok = "problem" in arg  # the domain / problem name lives in its own namespace
        rep.check(ok, rule2, f"{f.short}: _get_pddl_name is used directly only for the problem/domain name", f.loc(c), construct=norm(c), detail="" if ok else "a model element is written under a name that is not recorded in the renaming maps", function=f.qualname)

    # ---------------------------------------------------------------- (3) mangling pipeline
    rule3 = "C38.3 mangling-pipeline"
    gp = idx.func(PW + "._get_pddl_name")
    rep.note_function(gp.qualname)
    gp = with_roles(gp, name_roles(gp))
    subs = [c for c in walk_no_nested(gp.node) if isinstance(c, ast.Call) and norm(c.func) == "re.sub"]
    if not subs:
        raise AnalysisError("anchor vanished: re.sub in _get_pddl_name")
    pat = subs[0].args[0].value if isinstance(subs[0].args[0], ast.Constant) else None
    rc = regex_negated_class(pat) if pat else None
    want = set("abcdefghijklmnopqrstuvwxyzABCDEFGHIJKLMNOPQRSTUVWXYZ0123456789_-")
    ok = rc is not None and rc[0] and alphabet(rc[1]) == want and isinstance(subs[0].args[1], ast.Constant) and subs[0].args[1].value in want
    rep.check(ok, rule3, "PDDL: every character outside [0-9a-zA-Z_-] is replaced by a character inside it", gp.loc(subs[0]), construct=norm(subs[0]), detail="" if ok else "a character that is not legal in a PDDL identifier survives (or a legal one is removed, merging distinct names)", function=gp.qualname)
    lowers = [a for a in walk_no_nested(gp.node) if isinstance(a, ast.Assign) and norm(a) == "name = name.lower()"]
    rep.check(bool(lowers), rule3, "PDDL: names are lower-cased (PDDL is case-insensitive)", gp.loc(lowers[0]) if lowers else gp.loc(), construct="name = name.lower()", detail="" if lowers else "names that differ only in case are written as distinct identifiers of a case-insensitive language", function=gp.qualname)
    wl = [w for w in walk_no_nested(gp.node) if isinstance(w, ast.While)]
    ok = bool(wl) and norm(wl[0].test) == "name in pddl_keywords" and any((isinstance(a, ast.Assign) and norm(a.targets[0]) == "name") or (isinstance(a, ast.AugAssign) and norm(a.target) == "name") for a in wl[0].body)
    rep.check(ok, rule3, "PDDL: a keyword is altered until it is no keyword", gp.loc(wl[0]) if wl else gp.loc(), construct=norm(wl[0].test) if wl else "", detail="" if ok else "a model element can be written under a PDDL keyword", function=gp.qualname)
    firsts = [c for c in walk_no_nested(gp.node) if isinstance(c, ast.Call) and norm(c.func) == "re.compile" and c.args and isinstance(c.args[0], ast.Constant)]
    ok = bool(firsts) and firsts[0].args[0].value.startswith("^[a-zA-Z]")
    rep.check(ok, rule3, "PDDL: a name must start with a letter, otherwise a letter is prefixed", gp.loc(firsts[0]) if firsts else gp.loc(), construct=firsts[0].args[0].value if firsts else "", function=gp.qualname)
    # order: lower -> first letter -> substitution -> keyword loop (keyword test must see the final spelling)
    order = []
    for s in gp.node.body:
        t = norm(s)
        if t == "name = name.lower()":
            order.append("lower")
        elif isinstance(s, ast.Assign) and "re.sub" in t:
            order.append("sub")
        elif isinstance(s, ast.While):
            order.append("kw")
    ok = order == ["lower", "sub", "kw"]
    rep.check(ok, rule3, "PDDL: the keyword test runs on the final spelling", gp.loc(), construct=" -> ".join(order), detail="" if ok else "a name becomes a keyword after it was tested (e.g. 'AND' lower-cased after the test)", function=gp.qualname)
    # the writer passes its keyword set
    calls = [c for c in walk_no_nested(gm.node) if isinstance(c, ast.Call) and call_name(c) == "_get_pddl_name"]
    ok = bool(calls) and all(len(c.args) == 2 and norm(c.args[1]) == "self.pddl_keywords" for c in calls)
    rep.check(ok, rule3, "PDDL: mangling uses the writer's keyword set", gm.loc(calls[0]) if calls else gm.loc(), construct=norm(calls[0]) if calls else "", function=gm.qualname)
    init = idx.func(PW + ".PDDLWriter.__init__")
    st = [a for a in walk_no_nested(init.node) if isinstance(a, ast.Assign) and norm(a.targets[0]) == "self.pddl_keywords"]
    ok = bool(st) and "GENERAL_PDDL_KEYWORDS" in norm(st[0].value)
    rep.check(ok, rule3, "PDDL: the writer's keyword set contains the general keywords", init.loc(st[0]) if st else init.loc(), construct=norm(st[0]) if st else "", function=init.qualname)
    if st and norm(st[0].value) == "GENERAL_PDDL_KEYWORDS" and any(isinstance(a, ast.AugAssign) and norm(a.target) == "self.pddl_keywords" for a in walk_no_nested(init.node)):
        rep.candidate("T11 alias", init.loc(st[0]), norm(st[0]), "`|=` on an alias of the module-level set: keyword sets of earlier writers leak into later ones (only ever adds keywords, so no clause of C38 is broken)")

    # ANML
    am = idx.module(AW)
    av = idx.func(AW + "._get_anml_valid_name")
    rep.note_function(av.qualname)
    av = with_roles(av, name_roles(av))
    subs = [c for c in walk_no_nested(av.node) if isinstance(c, ast.Call) and norm(c.func) == "re.sub"]
    pat = subs[0].args[0].value if subs and isinstance(subs[0].args[0], ast.Constant) else None
    rc = regex_negated_class(pat) if pat else None
    want_a = set("abcdefghijklmnopqrstuvwxyzABCDEFGHIJKLMNOPQRSTUVWXYZ0123456789_")
    ok = rc is not None and rc[0] and alphabet(rc[1]) == want_a
    rep.check(ok, rule3, "ANML: every character outside [0-9a-zA-Z_] is replaced", av.loc(subs[0]) if subs else av.loc(), construct=norm(subs[0]) if subs else "", detail="" if ok else "an illegal character survives in an ANML identifier", function=av.qualname)
    wl = [w for w in walk_no_nested(av.node) if isinstance(w, ast.While)]
    ok = bool(wl) and norm(wl[0].test) == "name in ANML_KEYWORDS"
    rep.check(ok, rule3, "ANML: a keyword is altered until it is no keyword", av.loc(wl[0]) if wl else av.loc(), construct=norm(wl[0].test) if wl else "", function=av.qualname)
    order = []
    for s in av.node.body:
        t = norm(s)
        if isinstance(s, ast.Assign) and "re.sub" in t:
            order.append("sub")
        elif isinstance(s, ast.While):
            order.append("kw")
    rep.check(order == ["sub", "kw"], rule3, "ANML: the keyword test runs on the final spelling", av.loc(), construct=" -> ".join(order), function=av.qualname)
    an = idx.func(AW + "._get_anml_name")
    rep.note_function(an.qualname)
    an = with_roles(an, name_roles(an, {"result": "new_name"}))
    # the probe of the freshness loop: `while <probe> in names_mapping.values()`, whatever the probe is called; what is
    # recorded for the item is the probe's final value (directly, or through `new_name = test_name` after the loop)
    wl = [w for w in walk_no_nested(an.node) if isinstance(w, ast.While) and isinstance(w.test, ast.Compare) and len(w.test.ops) == 1 and isinstance(w.test.ops[0], ast.In) and isinstance(w.test.left, ast.Name) and norm(w.test.comparators[0]) == "names_mapping.values()"]
    probe = wl[0].test.left.id if wl else None
    ok = bool(wl) and probe not in an.params() and any(isinstance(x, ast.Name) and isinstance(x.ctx, ast.Store) and x.id == probe for st_ in wl[0].body for x in ast.walk(st_))
    rep.check(ok, rule3, "ANML: a fresh name is one that no other element received", an.loc(wl[0]) if wl else an.loc(), construct=norm(wl[0].test) if wl else "no `while <probe> in names_mapping.values()`", detail="" if ok else "two elements can be written under the same ANML name", function=an.qualname)
    st = [a for a in walk_no_nested(an.node) if isinstance(a, ast.Assign) and isinstance(a.targets[0], ast.Subscript) and norm(a.targets[0].value) == "names_mapping"]
    acfg = cfg_of(an)
    adu = DefUse(acfg)

    def _is_result(a) -> bool:
        if norm(a.value) in ("new_name", probe):
            return True
        nds_ = acfg.node_containing(a)
        return bool(nds_) and probe is not None and any(ch == (probe,) for ch in adu.expanded_chains(a.value, nds_[0]))

    ok = bool(st) and all(norm(a.targets[0].slice) == "item" and _is_result(a) for a in st)
    rep.check(ok, rule3, "ANML: the chosen name is recorded for the item", an.loc(st[0]) if st else an.loc(), construct=norm(st[0]) if st else "", function=an.qualname)
    try:
        akw = set(ast.literal_eval(am.assigns["ANML_KEYWORDS"]))
    except (KeyError, ValueError):
        raise AnalysisError("anchor vanished: ANML_KEYWORDS")
    g = idx.module("io.anml_grammar")
    gtoks = {v.value for k, v in g.assigns.items() if k.startswith("TK_") and isinstance(v, ast.Constant) and isinstance(v.value, str) and v.value.isalpha()}
    for t in sorted(gtoks - akw):
        rep.candidate("ANML grammar word not in ANML_KEYWORDS", "unified_planning/io/anml_grammar.py:1", t, "not armed: an identifier with this spelling was read back correctly by the ANML reader (keywords are contextual)")
    rep.count("anml_grammar_words", len(gtoks))
