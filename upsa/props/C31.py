"""C31 — meta-engines return only valid plans and truthful statuses (structural clauses).

Decides: (1) T2 in InterpretedFunctionsPlanner._solve: every result that carries a plan is dominated by
`validation_result.status == VALID`, the validated object is the plan that is returned, it was validated against
the *original* problem, and a failed validation never returns a plan; (2) in OversubscriptionPlanner._solve:
SOLVED_OPTIMALLY is assigned only where `incomplete` is known to be false; goal subsets are explored by
decreasing weight over the full powerset; every PlanGenerationResultStatus is classified (positive, timeout,
incomplete-marking, or proven-unsolvable fall-through; INTERMEDIATE is the reasoned exception: one-shot solve never
yields it); the unselected goals are negated; (3) T12: the status/plan consistency hook of PlanGenerationResult is
spelled __post_init__.
Does not decide: validity or optimality of a concrete plan.
"""
from __future__ import annotations

import ast
from typing import Set

from ..index import AnalysisError, Index, call_name, norm, walk_no_nested
from ..report import Report
from ..rules import cfg_nodes_with_call, cfg_of, guards_dominating, path_text
from .C08 import dataclass_hooks


def run(idx: Index, rep: Report, tier: str) -> None:
    rep.explanation = __doc__.strip()
    # ---------------------------------------------------------------- (1)
    rule1 = "C31.1 T2 plan-returned-only-if-validated"
    from ..roles import assigned_from_call, with_roles

    f = idx.func("engines.interpreted_functions_planner.InterpretedFunctionsPlanner._solve")
    rep.note_function(f.qualname)
    # roles: the validation result (bound from .validate), the knowledge map (handed to the remover's constructor)
    roles = {n: "validation_result" for n in assigned_from_call(f.node, "validate")}
    for c in walk_no_nested(f.node):
        if isinstance(c, ast.Call) and call_name(c) == "InterpretedFunctionsRemover" and c.args and isinstance(c.args[0], ast.Name):
            roles[c.args[0].id] = "knowledge"
    f = with_roles(f, roles)
    cfg = cfg_of(f)
    vals = cfg_nodes_with_call(cfg, "validate")
    if not vals:
        raise AnalysisError("anchor vanished: validator.validate(...) in InterpretedFunctionsPlanner._solve")
    validated_plan = {norm(c.args[1]) for _, c in vals if len(c.args) > 1}
    against = {norm(c.args[0]) for _, c in vals if c.args}
    rep.check(against == {"problem"}, rule1, "the plan is validated against the original problem", f.loc(vals[0][1]), construct=norm(vals[0][1]), detail="" if against == {"problem"} else "validation runs against the relaxed (compiled) problem", function=f.qualname)
    n_pos = 0
    for n in cfg.nodes:
        if n.kind != "return" or not isinstance(n.ast.value, ast.Call) or call_name(n.ast.value) != "PlanGenerationResult":
            continue
        c = n.ast.value
        plan_arg = c.args[1] if len(c.args) > 1 else next((k.value for k in c.keywords if k.arg == "plan"), None)
        has_plan = plan_arg is not None and not (isinstance(plan_arg, ast.Constant) and plan_arg.value is None)
        if not has_plan:
            st = norm(c.args[0]) if c.args else ""
            ok = "SOLVED" not in st
            rep.check(ok, rule1, "a result without a plan has no positive literal status", f.loc(c), construct=norm(c)[:100], function=f.qualname)
            continue
        n_pos += 1
        gs = [(norm(t.ast), o) for t, o in guards_dominating(cfg, n)]
        ok = any("validation_result.status == ValidationResultStatus.VALID" in g and o for g, o in gs)
        rep.check(ok, rule1, "a result carrying a plan is dominated by a VALID validation", f.loc(c), construct=norm(c)[:100], detail="" if ok else "a plan of the relaxed problem can be returned without having been validated on the original problem", function=f.qualname)
        ok2 = norm(plan_arg) in validated_plan
        rep.check(ok2, rule1, "the returned plan is the validated object", f.loc(c), construct=f"returns `{norm(plan_arg)}`, validated `{sorted(validated_plan)}`", detail="" if ok2 else "the plan that is returned is not the one that was validated", function=f.qualname)
        # every path from entry to this return passes the validate call
        p = cfg.path_avoiding(cfg.entry, n, {vn for vn, _ in vals})
        rep.check(p is None, rule1, "every path to the positive result passes validator.validate", f.loc(c), construct="validate(...) dominates the return", function=f.qualname, path=path_text(p) if p else None)
    if n_pos == 0:
        raise AnalysisError("anchor vanished: no plan-carrying PlanGenerationResult in InterpretedFunctionsPlanner._solve")
    # the mapped-back plan is used
    mb = [c for _, c in cfg_nodes_with_call(cfg, "replace_action_instances")]
    ok = bool(mb) and all("map_back_action_instance" in norm(c.args[0]) for c in mb)
    rep.check(ok, rule1, "the relaxed plan is mapped back before validation", f.loc(mb[0]) if mb else f.loc(), construct=norm(mb[0])[:100] if mb else "", function=f.qualname)
    # learning: on an invalid plan, knowledge grows or an error is raised (no infinite loop with a stale relaxation)
    upd = [c for _, c in cfg_nodes_with_call(cfg, "update") if norm(c.func.value) == "knowledge"]
    rep.check(bool(upd), rule1, "an invalid plan feeds the computed interpreted-function values back", f.loc(upd[0]) if upd else f.loc(), construct=norm(upd[0])[:100] if upd else "", function=f.qualname)

    # ---------------------------------------------------------------- (2)
    rule2 = "C31.2 oversubscription-status-truthful"
    g = idx.func("engines.oversubscription_planner.OversubscriptionPlanner._solve")
    rep.note_function(g.qualname)
    # roles: the underlying result (bound from engine.solve), the soft goals (bound from ….goals.items()), the
    # incompleteness flag (a local set to False and later to True), the weight (summed in the subset loop)
    roles = {n: "res" for n in assigned_from_call(g.node, "solve")}
    for a in walk_no_nested(g.node):
        if isinstance(a, ast.Assign) and isinstance(a.targets[0], ast.Name) and any(isinstance(x, ast.Attribute) and x.attr == "goals" for x in ast.walk(a.value)):
            roles[a.targets[0].id] = "goals"
    flags_f = {norm(a.targets[0]) for a in walk_no_nested(g.node) if isinstance(a, ast.Assign) and isinstance(a.targets[0], ast.Name) and isinstance(a.value, ast.Constant) and a.value.value is False}
    flags_t = {norm(a.targets[0]) for a in walk_no_nested(g.node) if isinstance(a, ast.Assign) and isinstance(a.targets[0], ast.Name) and isinstance(a.value, ast.Constant) and a.value.value is True}
    for x in sorted(flags_f & flags_t):
        roles.setdefault(x, "incomplete")
        break
    for a in walk_no_nested(g.node):
        if isinstance(a, ast.AugAssign) and isinstance(a.op, ast.Add) and isinstance(a.target, ast.Name):
            roles.setdefault(a.target.id, "weight")
            break
    g = with_roles(g, roles)
    gcfg = cfg_of(g)
    opt = [n for n in gcfg.nodes if isinstance(n.ast, ast.Assign) and norm(n.ast.value).endswith("SOLVED_OPTIMALLY")]
    lit_opt = [c for c in walk_no_nested(g.node) if isinstance(c, ast.Call) and call_name(c) == "PlanGenerationResult" and c.args and norm(c.args[0]).endswith("SOLVED_OPTIMALLY")]
    if not opt and not lit_opt:
        raise AnalysisError("anchor vanished: SOLVED_OPTIMALLY in OversubscriptionPlanner._solve")
    for n in opt:
        gs = [(t.ast, o) for t, o in guards_dominating(gcfg, n)]
        ok = False
        for t, o in gs:
            txt = norm(t)
            if o is False and isinstance(t, ast.BoolOp) and isinstance(t.op, ast.Or) and any(norm(v) == "incomplete" for v in t.values):
                ok = True
            if o is False and txt == "incomplete":
                ok = True
            if o is True and txt == "not incomplete":
                ok = True
        rep.check(ok, rule2, "SOLVED_OPTIMALLY only where `incomplete` is false", g.loc(n.ast), construct=norm(n.ast), detail="" if ok else "optimality is reported although a heavier goal subset was left undecided by the underlying planner", function=g.qualname)
    for c in lit_opt:
        rep.bad(rule2, "SOLVED_OPTIMALLY is not returned unconditionally", g.loc(c), construct=norm(c)[:100], function=g.qualname)
    # a positive underlying result is what triggers the return with a plan
    for n in gcfg.nodes:
        if n.kind == "return" and isinstance(n.ast.value, ast.Call) and call_name(n.ast.value) == "PlanGenerationResult":
            c = n.ast.value
            plan_arg = c.args[1] if len(c.args) > 1 else None
            if plan_arg is not None and not (isinstance(plan_arg, ast.Constant) and plan_arg.value is None):
                gs = [(norm(t.ast), o) for t, o in guards_dominating(gcfg, n)]
                ok = any("POSITIVE_OUTCOMES" in t and o for t, o in gs) and norm(plan_arg) == "res.plan"
                rep.check(ok, rule2, "a plan is returned only for a positive outcome of the underlying planner", g.loc(c), construct=norm(c)[:100], function=g.qualname)
    sorts = [c for c in walk_no_nested(g.node) if isinstance(c, ast.Call) and call_name(c) == "sort"]
    ok = False
    for c in sorts:
        kw = {k.arg: k.value for k in c.keywords}
        if "reverse" in kw and isinstance(kw["reverse"], ast.Constant) and kw["reverse"].value is True and "key" in kw and isinstance(kw["key"], ast.Lambda) and norm(kw["key"].body).endswith("[0]"):
            ok = True
    rep.check(ok, rule2, "goal subsets are tried by decreasing weight", g.loc(sorts[0]) if sorts else g.loc(), construct=norm(sorts[0]) if sorts else "no sort", detail="" if ok else "the first solvable subset is not the heaviest: the reported optimum is wrong", function=g.qualname)
    pw = [c for c in walk_no_nested(g.node) if isinstance(c, ast.Call) and call_name(c) == "powerset"]
    ok = bool(pw) and all(norm(c.args[0]) == "goals" for c in pw)
    rep.check(ok, rule2, "all subsets of the soft goals are candidates", g.loc(pw[0]) if pw else g.loc(), construct=norm(pw[0]) if pw else "", function=g.qualname)
    wsum = [a for a in walk_no_nested(g.node) if isinstance(a, ast.AugAssign) and norm(a.target) == "weight" and isinstance(a.op, ast.Add)]
    rep.check(bool(wsum), rule2, "a subset's weight is the sum of its goals' gains", g.loc(wsum[0]) if wsum else g.loc(), construct=norm(wsum[0]) if wsum else "", function=g.qualname)
    nots = [i for i in walk_no_nested(g.node) if isinstance(i, ast.IfExp) and isinstance(i.orelse, ast.Call) and call_name(i.orelse) == "Not"]
    rep.check(len(nots) >= 2, rule2, "goals outside the subset are required to be false (exact gain)", g.loc(nots[0]) if nots else g.loc(), construct=norm(nots[0]) if nots else "", function=g.qualname)
    # T6 classification of statuses
    st = idx.cls("engines.results.PlanGenerationResultStatus")
    members = [t.id for s in st.node.body if isinstance(s, ast.Assign) for t in s.targets if isinstance(t, ast.Name)]
    mod = idx.module("engines.results")
    positive: Set[str] = {x.attr for x in ast.walk(mod.assigns["POSITIVE_OUTCOMES"]) if isinstance(x, ast.Attribute)} if "POSITIVE_OUTCOMES" in mod.assigns else set()
    mentioned = {x.attr for x in walk_no_nested(g.node) if isinstance(x, ast.Attribute) and norm(x.value).endswith("PlanGenerationResultStatus")}
    uses_positive = any(isinstance(x, ast.Attribute) and x.attr == "POSITIVE_OUTCOMES" for x in walk_no_nested(g.node))
    # the statuses that set `incomplete`
    marks: Set[str] = set()
    for n in gcfg.nodes:
        if isinstance(n.ast, ast.Assign) and norm(n.ast.targets[0]) == "incomplete" and isinstance(n.ast.value, ast.Constant) and n.ast.value.value is True:
            for t, o in guards_dominating(gcfg, n):
                if o:
                    marks |= {x.attr for x in ast.walk(t.ast) if isinstance(x, ast.Attribute) and norm(x.value).endswith("PlanGenerationResultStatus")}
    for m in members:
        if m == "INTERMEDIATE":
            continue
        if m in positive:
            rep.check(uses_positive, "C31.2 T6 status-classified", f"status {m} is treated as positive", g.loc(), construct=m, function=g.qualname)
        elif m == "UNSOLVABLE_PROVEN":
            ok = m not in marks
            rep.check(ok, "C31.2 T6 status-classified", "a proven-unsolvable subset does not mark the search incomplete", g.loc(), construct=m, function=g.qualname)
        elif m == "TIMEOUT":
            rep.check(m in mentioned, "C31.2 T6 status-classified", "TIMEOUT of the underlying planner is propagated", g.loc(), construct=m, detail="" if m in mentioned else "a timeout is treated as a proof of unsolvability of the subset", function=g.qualname)
        else:
            rep.check(m in marks, "C31.2 T6 status-classified", f"status {m} marks the search as incomplete", g.loc(), construct=f"{m}; statuses that set incomplete: {sorted(marks)}", detail="" if m in marks else f"an underlying result {m} is treated as a proof that the subset is unsolvable: a lighter subset is then reported as optimal", function=g.qualname)
    rep.count("statuses", len(members))
    rep.require_min("C31.2 T6 status-classified", "statuses", 8)

    # ---------------------------------------------------------------- (3)
    rule3 = "C31.3 T12 dataclass-hook-spelling"
    pgr = idx.cls("engines.results.PlanGenerationResult")
    hooks = [(c, m, called) for c, m, called in dataclass_hooks(idx) if c is pgr]
    checks = [m for m in pgr.methods.values() if any(isinstance(r, ast.Raise) for r in walk_no_nested(m.node)) and any((isinstance(x, ast.Attribute) and x.attr in ("POSITIVE_OUTCOMES", "NEGATIVE_OUTCOMES")) or (isinstance(x, ast.Name) and x.id in ("POSITIVE_OUTCOMES", "NEGATIVE_OUTCOMES")) for x in walk_no_nested(m.node))]
    if not checks:
        rep.bad(rule3, "PlanGenerationResult checks status/plan consistency", pgr.loc(), construct="no consistency check", detail="a positive status without a plan is accepted", function=pgr.qualname)
    for m in checks:
        live = m.name == "__post_init__" or any(mm is m and called for _, mm, called in hooks)
        rep.check(live, rule3, "PlanGenerationResult: the status/plan consistency hook is called", m.loc(), construct=f"def {m.name}(self)", detail="" if live else f"`{m.name}` is a near-miss of __post_init__ and nothing calls it: a positive status without a plan (or a negative one with a plan) is never rejected", function=m.qualname)
