"""C13 — substitution replaces exactly the free occurrences of its keys (structural clauses).

Decides: (1) T2: in Substituter.substitute the incompatible-type raise lies in the loop that every path to the
walk passes through (a map with incompatible types is rejected before anything is rewritten); the walk receives
exactly the promoted, checked map; (2) T1: the quantifier case consults the quantifier's bound variables and the
free variables of each key, keeps a key only when none of its free variables is bound, and substitutes the body
with a *fresh* substituter instance (the memo key ignores the map) using the reduced map;
(3) top-down, no re-substitution: walk_replace_or_identity returns the mapped value as is, and otherwise
rebuilds the node from the already substituted children; every operator is routed to it;
(4) Substituter is constructed with invalidate_memoization=True (its key ignores the map).
Does not decide: the replacement semantics on concrete expressions.
"""
from __future__ import annotations

import ast

from ..index import AnalysisError, Index, call_name, norm, walk_no_nested
from ..report import Report
from ..rules import cfg_nodes_with_call, cfg_of, guards_dominating, path_text, raising_branch
from ..walkersdb import WalkerDB
from .C14 import invalidate_arg


def run(idx: Index, rep: Report, tier: str) -> None:
    rep.explanation = __doc__.strip()
    sub = idx.func("model.walkers.substituter.Substituter.substitute")
    rep.note_function(sub.qualname)
    cfg = cfg_of(sub)
    rule1 = "C13.1 T2 reject-before-rewrite"
    walks = cfg_nodes_with_call(cfg, "walk")
    if not walks:
        raise AnalysisError("anchor vanished: self.walk in Substituter.substitute")
    loops = [l for l in cfg.nodes if l.kind == "for" and "substitutions" in norm(l.owner.iter)]
    tests = [t for t in cfg.nodes if t.kind == "test" and "is_compatible" in norm(t.ast)]
    ok = bool(loops) and bool(tests)
    rep.check(ok, rule1, "substitute: compatibility of every key/value pair is tested", sub.loc(tests[0].ast) if tests else sub.loc(), construct=norm(tests[0].ast) if tests else "no is_compatible test", detail="" if ok else "the map is not type-checked", function=sub.qualname)
    for t in tests:
        neg = isinstance(t.ast, ast.UnaryOp)
        r = raising_branch(cfg, t, True if neg else False)
        rep.check(r, rule1, "substitute: an incompatible pair raises", sub.loc(t.ast), construct=norm(t.ast), detail="" if r else "an incompatible pair is silently skipped or accepted", function=sub.qualname)
        raises = [x for x in ast.walk(t.owner) if isinstance(x, ast.Raise) and x.exc is not None]
        rep.check(any("UPTypeError" in norm(x.exc) for x in raises), rule1, "substitute: the error is UPTypeError", sub.loc(t.ast), construct=norm(raises[0].exc)[:60] if raises else "", function=sub.qualname)
    for n, c in walks:
        for l in loops:
            p = cfg.path_avoiding(cfg.entry, n, {l})
            rep.check(p is None, rule1, "substitute: the walk starts only after the whole map was checked", sub.loc(c), construct=norm(c), detail="" if p is None else "a path reaches the rewriting walk without passing the type check loop", function=sub.qualname, path=path_text(p) if p else None)
            p2 = cfg.path_avoiding(n, l, set())
            rep.check(p2 is None, rule1, "substitute: no checking after rewriting began", sub.loc(c), construct=norm(c), function=sub.qualname)
        kw = {k.arg: norm(k.value) for k in c.keywords}
        stores = [a for a in walk_no_nested(sub.node) if isinstance(a, ast.Assign) and isinstance(a.targets[0], ast.Subscript)]
        checked = {norm(a.targets[0].value) for a in stores}
        rep.check(kw.get("subs") in checked, rule1, "substitute: the walk receives the checked map", sub.loc(c), construct=f"subs={kw.get('subs')}", detail="" if kw.get("subs") in checked else "the walk uses a map other than the one filled by the checking loop", function=sub.qualname)
    # stores into the checked map are guarded by the compatibility test
    for n in cfg.nodes:
        if isinstance(n.ast, ast.Assign) and isinstance(n.ast.targets[0], ast.Subscript) and norm(n.ast.targets[0].value).startswith("new_sub"):
            from ..rules2 import path_facts

            ok = any("is_compatible" in txt and val for txt, val in path_facts(cfg, n))
            rep.check(ok, rule1, "substitute: only compatible pairs enter the map", sub.loc(n.ast), construct=norm(n.ast), function=sub.qualname)

    # ---------------------------------------------------------------- (2) quantifiers
    rule2 = "C13.2 T1 bound-variables-respected"
    pw = idx.func("model.walkers.substituter.Substituter._push_with_children_to_stack")
    rep.note_function(pw.qualname)
    # the quantifier handling may be split over private helpers of the Substituter that this method calls
    _subst_cls = idx.cls("model.walkers.substituter.Substituter")
    _helpers = [_subst_cls.methods[c.func.attr] for c in walk_no_nested(pw.node) if isinstance(c, ast.Call) and isinstance(c.func, ast.Attribute) and norm(c.func.value) == "self" and c.func.attr.startswith("_") and c.func.attr in _subst_cls.methods and c.func.attr != pw.node.name]
    _helper_names = {h.node.name for h in _helpers}

    def _scope():
        yield from walk_no_nested(pw.node)
        for h in _helpers:
            yield from walk_no_nested(h.node)

    txt_calls = {call_name(c) for c in _scope() if isinstance(c, ast.Call)}
    tests = [i for i in walk_no_nested(pw.node) if isinstance(i, ast.If) and ("is_exists" in norm(i.test) or "is_forall" in norm(i.test))]
    ok = bool(tests) and "is_exists" in norm(tests[0].test) and "is_forall" in norm(tests[0].test)
    rep.check(ok, rule2, "both quantifiers are special-cased", pw.loc(tests[0]) if tests else pw.loc(), construct=norm(tests[0].test) if tests else "", detail="" if ok else "a quantifier is traversed like an ordinary node: keys containing its bound variables are replaced inside it", function=pw.qualname)
    rep.check("variables" in txt_calls, rule2, "consults the quantifier's bound variables", pw.loc(), construct="expression.variables()", detail="" if "variables" in txt_calls else "bound variables are never read", function=pw.qualname)
    rep.check("get_free_variables" in txt_calls, rule2, "consults the free variables of each key", pw.loc(), construct="free_vars_oracle.get_free_variables(k)", detail="" if "get_free_variables" in txt_calls else "the variables occurring in a key are never read", function=pw.qualname)
    alls = [c for c in _scope() if isinstance(c, ast.Call) and call_name(c) == "all" and c.args and isinstance(c.args[0], ast.GeneratorExp)]
    ok = False
    for c in alls:
        g = c.args[0]
        if isinstance(g.elt, ast.Compare) and isinstance(g.elt.ops[0], ast.NotIn) and "variables()" in norm(g.elt.comparators[0]) and "get_free_variables" in norm(g.generators[0].iter):
            ok = True
    rep.check(ok, rule2, "a key is kept only if none of its free variables is bound by the quantifier", pw.loc(alls[0]) if alls else pw.loc(), construct=norm(alls[0])[:120] if alls else "", detail="" if ok else "the filter is not `all(v not in bound for v in free_vars(key))`", function=pw.qualname)
    fresh = [a for a in walk_no_nested(pw.node) if isinstance(a, ast.Assign) and isinstance(a.value, ast.Call) and norm(a.value.func) in ("self.__class__", "type(self)", "Substituter")]
    ok = bool(fresh)
    rep.check(ok, rule2, "the body is substituted by a fresh substituter instance", pw.loc(fresh[0]) if fresh else pw.loc(), construct=norm(fresh[0]) if fresh else "", detail="" if ok else "the body is rewritten with this instance, whose memo (keyed by expression only) was filled under the un-reduced map", function=pw.qualname)
    if fresh:
        v = norm(fresh[0].targets[0])
        calls = [c for c in walk_no_nested(pw.node) if isinstance(c, ast.Call) and call_name(c) == "substitute" and norm(c.func.value) == v]
        # the reduced map: the dictionary filled under the `all(v not in bound …)` test
        reduced = {norm(a.targets[0].value) for i in _scope() if isinstance(i, ast.If) and any(x in alls for x in ast.walk(i.test)) for st in i.body for a in ast.walk(st) if isinstance(a, ast.Assign) and isinstance(a.targets[0], ast.Subscript)}
        # … or a dictionary comprehension filtered by that test
        reduced |= {norm(a.targets[0]) for a in _scope() if isinstance(a, ast.Assign) and len(a.targets) == 1 and isinstance(a.value, ast.DictComp) and any(x in alls for g in a.value.generators for t in g.ifs for x in ast.walk(t))}
        # … or the result of the helper that does the filtering
        reduced |= {norm(a.targets[0]) for a in walk_no_nested(pw.node) if isinstance(a, ast.Assign) and len(a.targets) == 1 and isinstance(a.value, ast.Call) and isinstance(a.value.func, ast.Attribute) and a.value.func.attr in _helper_names and any(x in alls for h in _helpers if h.node.name == a.value.func.attr for x in ast.walk(h.node))}
        ok = bool(calls) and bool(reduced) and all(len(c.args) == 2 and norm(c.args[0]) == "expression.arg(0)" and norm(c.args[1]) in reduced for c in calls)
        rep.check(ok, rule2, "the body is substituted under the reduced map", pw.loc(calls[0]) if calls else pw.loc(), construct=norm(calls[0]) if calls else "", detail="" if ok else "the quantifier body is not rewritten with the reduced map", function=pw.qualname)

    # ---------------------------------------------------------------- (3) top-down, no re-substitution
    rule3 = "C13.3 top-down-no-resubstitution"
    wr = idx.func("model.walkers.substituter.Substituter.walk_replace_or_identity")
    rep.note_function(wr.qualname)
    gets = [a for a in walk_no_nested(wr.node) if isinstance(a, ast.Assign) and isinstance(a.value, ast.Call) and call_name(a.value) == "get" and norm(a.value.func.value) == "subs" and norm(a.value.args[0]) == "expression"]
    # … or `subs[expression]` (under `expression in subs`), and every lookup in the map uses the node itself
    lookups = [x for x in walk_no_nested(wr.node) if (isinstance(x, ast.Subscript) and norm(x.value) == "subs") or (isinstance(x, ast.Call) and call_name(x) == "get" and isinstance(x.func, ast.Attribute) and norm(x.func.value) == "subs")]
    keys = {norm(x.slice) if isinstance(x, ast.Subscript) else (norm(x.args[0]) if x.args else "?") for x in lookups}
    ok = bool(gets) or (bool(lookups) and keys == {"expression"})
    if not gets and lookups:
        gets = lookups
    rep.check(ok, rule3, "the node itself (not its rewritten form) is looked up in the map", wr.loc(gets[0]) if gets else wr.loc(), construct=norm(gets[0]) if gets else "", detail="" if ok else "keys are matched against something other than the original node", function=wr.qualname)
    if gets:
        if isinstance(gets[0], ast.Assign):
            v = norm(gets[0].targets[0])
        else:
            # the local the looked-up value is bound to (`res = subs[expression]`), else the lookup itself
            holder = [a for a in walk_no_nested(wr.node) if isinstance(a, ast.Assign) and any(x is gets[0] for x in ast.walk(a.value)) and isinstance(a.targets[0], ast.Name)]
            v = norm(holder[0].targets[0]) if holder else norm(gets[0])
        rets = [r for r in walk_no_nested(wr.node) if isinstance(r, ast.Return)]
        direct = [r for r in rets if r.value is not None and norm(r.value) == v]
        rep.check(bool(direct), rule3, "a mapped value is returned as is (not substituted again)", wr.loc(direct[0]) if direct else wr.loc(), construct=f"return {v}", function=wr.qualname)
        other = [r for r in rets if r not in direct]
        ok = bool(other) and all(isinstance(r.value, ast.Call) and "super" in norm(r.value.func) and "args" in [norm(a) for a in r.value.args] for r in other)
        rep.check(ok, rule3, "otherwise the node is rebuilt from its substituted children", wr.loc(other[0]) if other else wr.loc(), construct=norm(other[0])[:100] if other else "", function=wr.qualname)
    # a key that matches is not expanded: children of a matched node are not rewritten first (maximal occurrence):
    # the DagWalker is bottom-up, so maximality relies on the lookup of the *original* node, checked above.
    db = WalkerDB(idx)
    ci = idx.cls("model.walkers.substituter.Substituter")
    h = db.handlers(ci)
    bad = [m for m in db.ops.members if h.get(m) is None or h[m].name != "walk_replace_or_identity"]
    rep.check(not bad, rule3, "every operator is routed through walk_replace_or_identity", ci.loc(), construct=f"{len(db.ops.members) - len(bad)}/{len(db.ops.members)}", detail="" if not bad else f"{bad} bypass the replacement lookup", function=ci.qualname)

    # ---------------------------------------------------------------- (4)
    inv = invalidate_arg(idx, ci)
    rep.check(inv is True, "C13.4 T7 memo-invalidated", "Substituter is built with invalidate_memoization=True", ci.loc(), construct=f"invalidate_memoization={inv}", detail="" if inv else "results memoized under one map are reused under another", function=ci.qualname)
    gk = ci.methods.get("_get_key")
    if gk is not None:
        rep.ok("C13.4 T7 memo-invalidated", "Substituter._get_key ignores the map (hence the invalidation requirement)", gk.loc(), construct=norm(gk.node.body[-1]), function=gk.qualname)
