"""T15 for C24: abstract execution of check_conflicting_effects / check_conflicting_simulated_effects on all
ordered pairs of insertions on one fluent; order independence of the verdict and state preservation on rejection."""
from __future__ import annotations

import ast
import itertools
from typing import Any, Dict, List, Optional, Set, Tuple

from ..index import Index, norm
from ..report import Report

TOP = "TOP"


class Raised(Exception):
    pass


class Unsupported(Exception):
    pass


class _Break(Exception):
    pass


class _Continue(Exception):
    pass


class Val:
    def __init__(self, v: str):
        self.v = v

    def __eq__(self, o):
        return isinstance(o, Val) and o.v == self.v

    def __hash__(self):
        return hash(self.v)


class Eff:
    def __init__(self, kind: str, value: str, conditional: bool, boolean: bool):
        self.kind, self.value, self.conditional, self.boolean = kind, value, conditional, boolean

    def label(self) -> str:
        return f"{'when c: ' if self.conditional else ''}{'b' if self.boolean else 'x'} {self.kind}{(' ' + self.value) if self.kind == 'assign' else ''}"


class Mini:
    """A concrete interpreter for the straight-line/if fragment of the two conflict functions over abstract
    effect objects (finite: kinds x conditional x Boolean; values v1/v2)."""

    def __init__(self, fn: ast.AST):
        self.fn = fn

    def call(self, env: Dict[str, Any]) -> None:
        self._block(self.fn.body, env)

    def _block(self, stmts, env) -> None:
        for s in stmts:
            self._stmt(s, env)

    def _stmt(self, s, env) -> None:
        if isinstance(s, ast.Expr):
            if isinstance(s.value, ast.Constant):
                return
            self._expr(s.value, env)
        elif isinstance(s, ast.Assign) and len(s.targets) == 1:
            t = s.targets[0]
            v = self._expr(s.value, env)
            if isinstance(t, ast.Name):
                env[t.id] = v
            elif isinstance(t, ast.Subscript):
                self._expr(t.value, env)[self._expr(t.slice, env)] = v
            else:
                raise Unsupported(norm(s))
        elif isinstance(s, ast.If):
            if self._truth(self._expr(s.test, env)):
                self._block(s.body, env)
            else:
                self._block(s.orelse, env)
        elif isinstance(s, ast.For) and isinstance(s.target, ast.Name):
            for x in self._expr(s.iter, env):
                env[s.target.id] = x
                try:
                    self._block(s.body, env)
                except _Continue:
                    continue
                except _Break:
                    break
        elif isinstance(s, ast.Break):
            raise _Break()
        elif isinstance(s, ast.Continue):
            raise _Continue()
        elif isinstance(s, ast.Raise):
            txt = norm(s.exc) if s.exc is not None else ""
            if "NotImplementedError" in txt:
                raise Unsupported("NotImplementedError branch")
            raise Raised(txt)
        elif isinstance(s, (ast.Pass, ast.Assert)):
            return
        else:
            raise Unsupported(type(s).__name__)

    def _truth(self, v) -> bool:
        if v is TOP:
            raise Unsupported("TOP condition")
        return bool(v)

    def _expr(self, e, env) -> Any:
        if isinstance(e, ast.Constant):
            return e.value
        if isinstance(e, ast.JoinedStr):
            return "msg"
        if isinstance(e, ast.Name):
            if e.id in env:
                return env[e.id]
            raise Unsupported("name " + e.id)
        if isinstance(e, ast.BoolOp):
            if isinstance(e.op, ast.And):
                r = True
                for v in e.values:
                    r = self._expr(v, env)
                    if not self._truth(r):
                        return r
                return r
            r = False
            for v in e.values:
                r = self._expr(v, env)
                if self._truth(r):
                    return r
            return r
        if isinstance(e, ast.UnaryOp) and isinstance(e.op, ast.Not):
            return not self._truth(self._expr(e.operand, env))
        if isinstance(e, ast.Compare) and len(e.ops) == 1:
            l, r = self._expr(e.left, env), self._expr(e.comparators[0], env)
            op = e.ops[0]
            if isinstance(op, ast.Is):
                return l is r
            if isinstance(op, ast.IsNot):
                return l is not r
            if isinstance(op, ast.Eq):
                return l == r
            if isinstance(op, ast.NotEq):
                return l != r
            if isinstance(op, ast.In):
                return l in r
            if isinstance(op, ast.NotIn):
                return l not in r
            raise Unsupported(norm(e))
        if isinstance(e, ast.Attribute):
            base = self._expr(e.value, env)
            return self._attr(base, e.attr)
        if isinstance(e, ast.Call) and isinstance(e.func, ast.Attribute):
            base = self._expr(e.func.value, env)
            args = [self._expr(a, env) for a in e.args]
            return self._method(base, e.func.attr, args)
        raise Unsupported(norm(e)[:60])

    def _attr(self, base, attr):
        if isinstance(base, Eff):
            if attr == "fluent":
                return ("fluent", base.boolean)
            if attr == "value":
                return Val(base.value)
        if isinstance(base, tuple) and base and base[0] == "fluent" and attr == "type":
            return ("type", base[1])
        if isinstance(base, dict) and base.get("__sim__") and attr == "fluents":
            return base["fluents"]
        raise Unsupported(f"attribute {attr}")

    def _method(self, base, m, args):
        if isinstance(base, Eff):
            table = {"is_conditional": base.conditional, "is_assignment": base.kind == "assign", "is_increase": base.kind == "increase", "is_decrease": base.kind == "decrease", "is_continuous_increase": False, "is_continuous_decrease": False}
            if m in table:
                return table[m]
        if isinstance(base, tuple) and base and base[0] == "type" and m == "is_bool_type":
            return base[1]
        if isinstance(base, Val):
            if m == "is_constant":
                return True
            if m == "constant_value":
                return base.v
        if isinstance(base, dict) and not base.get("__sim__"):
            if m == "get":
                return base.get(args[0], args[1] if len(args) > 1 else None)
            if m == "setdefault":
                return base.setdefault(args[0], args[1])
        if isinstance(base, set) and m == "add":
            base.add(args[0])
            return None
        raise Unsupported(f"method {m}")


def order_independence(idx: Index, rep: Report) -> None:
    rule = "C24.3 T15 order-independence"
    ce = idx.func("model.effect.check_conflicting_effects")
    cs = idx.func("model.effect.check_conflicting_simulated_effects")
    mini_e, mini_s = Mini(ce.node), Mini(cs.node)

    def insert(state, item) -> bool:
        """Returns True if accepted; state is mutated by the analysed code exactly as written."""
        fa, fid = state["assigned"], state["incdec"]
        try:
            if isinstance(item, str) and item.startswith("SIM"):
                me, other = ("fluent", state["bool"]), ("other-fluent", state["bool"])
                sim = {"__sim__": True, "fluents": {"SIM": [me], "SIM-other-first": [other, me], "SIM-other-last": [me, other]}[item]}
                mini_s.call({"simulated_effect": sim, "timing": None, "fluents_assigned": fa, "fluents_inc_dec": fid, "name": "n"})
                state["sim"] = sim
            else:
                mini_e.call({"effect": item, "timing": None, "simulated_effect": state["sim"], "fluents_assigned": fa, "fluents_inc_dec": fid, "name": "n"})
                state["effects"].append(item)
            return True
        except Raised:
            return False

    def snapshot(state):
        return (tuple(sorted((str(k), v.v) for k, v in state["assigned"].items())), tuple(sorted(str(k) for k in state["incdec"])), state["sim"] is not None, len(state["effects"]))

    n_pairs = 0
    unsupported: Set[str] = set()
    for boolean in (False, True):
        items: List[Any] = ["SIM", "SIM-other-first", "SIM-other-last"]
        for cond in (False, True):
            items += [Eff("assign", "v1", cond, boolean), Eff("assign", "v2", cond, boolean), Eff("increase", "d", cond, boolean), Eff("decrease", "d", cond, boolean)]
        if boolean:
            items = [i for i in items if isinstance(i, str) or i.kind == "assign"]
        for a, b in itertools.combinations_with_replacement(items, 2):
            if isinstance(a, str) and isinstance(b, str):
                continue
            la = a if isinstance(a, str) else a.label()
            lb = b if isinstance(b, str) else b.label()
            verdicts = []
            leaks = []
            try:
                for first, second in ((a, b), (b, a)):
                    st = {"assigned": {}, "incdec": set(), "sim": None, "effects": [], "bool": boolean}
                    ok1 = insert(st, first)
                    before = snapshot(st)
                    ok2 = insert(st, second)
                    after = snapshot(st)
                    verdicts.append(ok1 and ok2)
                    if not ok2 and before != after:
                        leaks.append((first, second, before, after))
            except Unsupported as u:
                unsupported.add(str(u))
                rep.inconclusive(rule, f"pair [{la}] / [{lb}]", ce.loc(), detail=str(u), function=ce.qualname)
                continue
            n_pairs += 1
            rep.check(verdicts[0] == verdicts[1], rule, f"[{la}] and [{lb}] are accepted together in both insertion orders or in neither", ce.loc(), construct=f"{la} ; {lb} -> {'accepted' if verdicts[0] else 'rejected'} / reversed -> {'accepted' if verdicts[1] else 'rejected'}", detail="" if verdicts[0] == verdicts[1] else "whether the conflict error is raised depends on the insertion order", function=ce.qualname)
            for first, second, before, after in leaks:
                lf = first if isinstance(first, str) else first.label()
                ls = second if isinstance(second, str) else second.label()
                rep.bad("C24.3 T15 rejection-leaves-bookkeeping-unchanged", f"after [{lf}], rejecting [{ls}]", ce.loc(), construct=f"rejecting [{ls}] after [{lf}] changes the bookkeeping {before} -> {after}", detail="a rejected insertion is recorded in the conflict bookkeeping; later insertions are judged as if it had been added", function=ce.qualname)
            if not leaks:
                rep.ok("C24.3 T15 rejection-leaves-bookkeeping-unchanged", f"[{la}] / [{lb}]: a rejection leaves the bookkeeping unchanged", ce.loc(), function=ce.qualname)
    rep.count("pairs_executed_abstractly", n_pairs)
    rep.require_min(rule, "pairs_executed_abstractly", 30)
