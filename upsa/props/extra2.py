"""Second set of seed-driven clauses (DESIGN.md section 10, round 2). Same conventions as extra.py."""
from __future__ import annotations

import ast
from typing import Dict, List, Optional, Set, Tuple

from ..dataflow import DefUse
from ..index import AnalysisError, FuncInfo, Index, call_name, norm, str_consts, walk_no_nested
from ..report import Report
from ..rules import cfg_nodes_with_call, cfg_of, guards_dominating, path_text


# ------------------------------------------------------------------------------------ shared helpers
def guard_atoms(test: ast.AST, outcome: bool) -> Set[str]:
    """Atomic facts, in positive normal form, implied by `test` == outcome."""
    if isinstance(test, ast.UnaryOp) and isinstance(test.op, ast.Not):
        return guard_atoms(test.operand, not outcome)
    if isinstance(test, ast.BoolOp):
        if (isinstance(test.op, ast.Or) and not outcome) or (isinstance(test.op, ast.And) and outcome):
            out: Set[str] = set()
            for v in test.values:
                out |= guard_atoms(v, outcome)
            return out
        return set()
    if isinstance(test, ast.Compare) and len(test.ops) == 1:
        l, op, r = norm(test.left), test.ops[0], norm(test.comparators[0])
        if isinstance(op, ast.Is):
            return {f"{l} is {r}"} if outcome else {f"{l} is not {r}"}
        if isinstance(op, ast.IsNot):
            return {f"{l} is not {r}"} if outcome else {f"{l} is {r}"}
        if isinstance(op, ast.Eq):
            return {f"{l} == {r}"} if outcome else {f"{l} != {r}"}
        if isinstance(op, ast.NotEq):
            return {f"{l} != {r}"} if outcome else {f"{l} == {r}"}
        return set()
    return {norm(test)} if outcome else {"not " + norm(test)}


def bound_conditions_independent(rep: Report, rule: str, f: FuncInfo) -> int:
    """Where a condition is built from one bound of a numeric type (LE(lower, x) / LE(x, upper)), the guards that
    dominate the construction may require that bound to be present, never the *other* one: a half-bounded type
    must still get the condition for the bound it has."""
    cfg = cfg_of(f)
    du = DefUse(cfg)
    n = 0
    for node in cfg.nodes:
        if node.ast is None or node.kind != "stmt":
            continue
        for c in ast.walk(node.ast):
            if not (isinstance(c, ast.Call) and call_name(c) in ("LE", "GE", "LT", "GT") and len(c.args) == 2):
                continue
            sides = set()
            for a in c.args:
                for ch in du.expanded_chains(a, node):
                    if ch[-1] in ("lower_bound", "upper_bound"):
                        sides.add(ch[-1])
            if len(sides) != 1:
                continue
            mine = next(iter(sides))
            other = "upper_bound" if mine == "lower_bound" else "lower_bound"
            n += 1
            facts: Set[str] = set()
            for t, o in guards_dominating(cfg, node):
                facts |= guard_atoms(t.ast, o)
            # names that alias the other bound
            bad = []
            for fact in facts:
                if not fact.endswith(" is not None"):
                    continue
                subj = fact[: -len(" is not None")]
                try:
                    e = ast.parse(subj, mode="eval").body
                except SyntaxError:
                    continue
                chains = du.expanded_chains(e, node) if isinstance(e, (ast.Name, ast.Attribute)) else set()
                if any(ch[-1] == other for ch in chains) and not any(ch[-1] == mine for ch in chains):
                    bad.append(fact)
            rep.check(not bad, rule, f"{f.short}: the condition on the {mine} does not require the {other}", f.loc(c), construct=f"{norm(c)[:60]} under {sorted(bad) if bad else 'guards on its own bound only'}", detail="" if not bad else f"the {mine} of a numeric type is enforced only when the {other} is present as well: half-bounded types (int[0, inf), real(-inf, 3]) lose their only bound", function=f.qualname)
    return n


# ------------------------------------------------------------------------------------ T22 compatibility direction
def compat_calls(fn: ast.AST) -> List[ast.Call]:
    return [c for c in walk_no_nested(fn) if isinstance(c, ast.Call) and call_name(c) == "is_compatible" and isinstance(c.func, ast.Attribute) and len(c.args) == 1]


def compat_symmetric(rep: Report, rule: str, f: FuncInfo) -> None:
    """Disjointness of two types (an equality folded to false / rejected) needs `not a.is_compatible(b) and not
    b.is_compatible(a)`: compatibility is the subtype relation and is not symmetric."""
    calls = compat_calls(f.node)
    if not calls:
        rep.inconclusive(rule, f"{f.short}: no is_compatible test", f.loc(), function=f.qualname)
        return
    pairs = {(norm(c.func.value), norm(c.args[0])) for c in calls}
    for a, b in sorted(pairs):
        ok = (b, a) in pairs
        rep.check(ok, rule, f"{f.short}: compatibility of `{a}` and `{b}` is tested in both directions", f.loc(calls[0]), construct=f"{a}.is_compatible({b})" + ("" if ok else f" without {b}.is_compatible({a})"), detail="" if ok else "two terms are declared unequal / ill-formed because the left type is not a supertype of the right one, although the right one may be a supertype of the left (Depot vs Location)", function=f.qualname)


def compat_directional(rep: Report, rule: str, f: FuncInfo, target_words: Tuple[str, ...], value_words: Tuple[str, ...]) -> None:
    """Where a value is stored for / substituted for a typed target, the test is target.type.is_compatible(value.type)
    and only that: the reverse direction must not make the value acceptable."""
    calls = compat_calls(f.node)
    if not calls:
        rep.bad(rule, f"{f.short}: the value's type is tested against the target's type", f.loc(), construct="no is_compatible test", detail="values of any type are accepted", function=f.qualname)
        return
    for c in calls:
        recv, arg = norm(c.func.value).lower(), norm(c.args[0]).lower()
        forward = any(w in recv for w in target_words) and any(w in arg for w in value_words)
        reverse = any(w in recv for w in value_words) and any(w in arg for w in target_words) and not forward
        rep.check(not reverse, rule, f"{f.short}: no reverse-direction compatibility test", f.loc(c), construct=norm(c), detail="" if not reverse else "the value is accepted when the *target's* type is assignable to the value's type (a real for an int key, a supertype object for a subtype variable)", function=f.qualname)
        if forward:
            rep.ok(rule, f"{f.short}: target.is_compatible(value)", f.loc(c), construct=norm(c), function=f.qualname)


# ------------------------------------------------------------------------------------ T23 sibling fields
SIBLING_FIELDS = {"costs": ("default", "get_action_cost")}


def sibling_fields(rep: Report, rule: str, funcs: List[FuncInfo]) -> int:
    """A function that collects / copies the per-action cost expressions of a MinimizeActionCosts (`.costs`) must
    also consider its `default` cost expression (or go through get_action_cost)."""
    n = 0
    for f in funcs:
        attrs = [x for x in walk_no_nested(f.node) if isinstance(x, ast.Attribute)]
        reads = [x for x in attrs if x.attr == "costs" and isinstance(x.ctx, ast.Load)]
        if not reads:
            continue
        n += 1
        rep.note_function(f.qualname)
        ok = any(x.attr in SIBLING_FIELDS["costs"] for x in attrs)
        rep.check(ok, rule, f"{f.short}: reads the default cost together with the per-action costs", f.loc(reads[0]), construct=f"{norm(reads[0])} without .default in {f.short}", detail="" if ok else "the default cost expression of a MinimizeActionCosts metric is ignored here: it is lost (clone), or the fluents / objects it mentions are treated as unused", function=f.qualname)
    return n


# ------------------------------------------------------------------------------------ per property
def c04(idx: Index, rep: Report, tier: str) -> None:
    rule = "C04 bounds-enforced-independently"
    n = 0
    for q in ("engines.plan_validator.TimeTriggeredPlanValidator._validate", "engines.sequential_simulator.UPSequentialSimulator.__init__"):
        n += bound_conditions_independent(rep, rule, idx.func(q))
    rep.count("bound_condition_sites", n)
    rep.require_min(rule, "bound_condition_sites", 4)
    invariants_cover_final_state(idx, rep, "C04 invariants-cover-final-state")


def invariants_cover_final_state(idx: Index, rep: Report, rule: str) -> None:
    """Two cooperating sites: _states_in_interval leaves out the state at a finite `end` (conditions at an instant
    are judged before that instant's effects), so a condition that must hold in *every* state — a state invariant
    or a type bound — has to be registered without an end; otherwise the state produced by the last happening of
    the plan is never checked."""
    TT = "engines.plan_validator.TimeTriggeredPlanValidator"
    si = idx.func(TT + "._states_in_interval")
    end_exclusive = None
    for c in walk_no_nested(si.node):
        if isinstance(c, ast.Compare) and norm(c.comparators[-1]) == "end" and norm(c.left) == "start":
            end_exclusive = isinstance(c.ops[-1], ast.Lt)
    if end_exclusive is None:
        rep.inconclusive(rule, "_states_in_interval: treatment of the interval end not recognised", si.loc(), function=si.qualname)
        return
    val = idx.func(TT + "._validate")
    cfg = cfg_of(val)
    du = DefUse(cfg)
    n = 0
    for node, c in cfg_nodes_with_call(cfg, "append"):
        # the list of timed conditions is recognised by what is appended to it: (interval, …, condition, instance)
        if not isinstance(c.func.value, ast.Name) or not c.args or not isinstance(c.args[0], ast.Tuple) or len(c.args[0].elts) != 4:
            continue
        interval, _, cond, ai = c.args[0].elts
        if not (isinstance(ai, ast.Constant) and ai.value is None):
            continue
        chains = set(du.expanded_chains(cond, node))
        # a condition taken from a local list: look at what was appended to that list
        for ch in list(chains):
            if len(ch) == 2 and ch[1] == "<elem>":
                for an, ac in cfg_nodes_with_call(cfg, "append"):
                    if norm(ac.func.value) == ch[0] and ac.args:
                        chains |= du.expanded_chains(ac.args[0], an)
        global_cond = any("state_invariants" in ch or ch[-1] in ("lower_bound", "upper_bound") for ch in chains)
        if not global_cond:
            continue
        n += 1
        end = interval.elts[1] if isinstance(interval, ast.Tuple) and len(interval.elts) == 3 else None
        open_end = end is not None and isinstance(end, ast.Constant) and end.value is None
        ok = open_end or not end_exclusive
        rep.check(ok, rule, "a condition that must hold in every state is checked in the final state too", val.loc(c), construct=f"{norm(interval)} for {norm(cond)[:40]}; _states_in_interval is end-{'exclusive' if end_exclusive else 'inclusive'}", detail="" if ok else "the invariant / type bound is registered on [0, plan_duration] but the interval helper never yields the state at its end: a plan whose last happening breaks the invariant is VALID for the time-triggered validator and INVALID for the sequential one", function=val.qualname)
    rep.count("global_conditions_registered", n)
    rep.require_min(rule, "global_conditions_registered", 2)


def c05(idx: Index, rep: Report, tier: str) -> None:
    invariants_cover_final_state(idx, rep, "C05.4 invariants-cover-final-state")


def c07(idx: Index, rep: Report, tier: str) -> None:
    from ..rules2 import memo_key_adequacy

    n = memo_key_adequacy(rep, "C07.2 T24 memo-key-adequacy", [f for f in idx.all_funcs() if f.module.name.startswith("unified_planning.engines.compilers")])
    rep.count("memo_functions", n)
    rep.require_min("C07.2 T24 memo-key-adequacy", "memo_functions", 1)


def regression_skip_guards(idx: Index, rep: Report, rule: str) -> None:
    """TrajectoryConstraintsRemover skips the monitoring effects of a constraint for an action that cannot change
    the constraint's formulas (`R == phi`: the regression through the action is the formula itself). An effect
    whose condition is built from several regressions may be skipped only if *none* of them changed: every
    regression variable the condition depends on must be tested by the guard."""
    cls = idx.cls("engines.compilers.trajectory_constraints_remover.TrajectoryConstraintsRemover")
    n = 0
    for m in cls.methods.values():
        if not m.name.startswith("_manage_"):
            continue
        regs = {norm(a.targets[0]) for a in walk_no_nested(m.node) if isinstance(a, ast.Assign) and isinstance(a.targets[0], ast.Name) and any(isinstance(c, ast.Call) and call_name(c) == "_regression" for c in ast.walk(a.value))}
        if not regs:
            continue
        cfg = cfg_of(m)
        du = DefUse(cfg)
        for node, c in cfg_nodes_with_call(cfg, "_add_cond_eff"):
            if len(c.args) < 4:
                continue
            cond = c.args[2]
            deps = {ch[0] for ch in du.sources(cond, node) if ch[0] in regs}
            if len(deps) < 1:
                continue
            guards = guards_dominating(cfg, node)
            tested = {x.id for t, _ in guards for x in ast.walk(t.ast) if isinstance(x, ast.Name) and x.id in regs}
            if not guards:
                rep.ok(rule, f"{m.name}: effect on {sorted(deps)} is unconditional", m.loc(c), construct=norm(c)[:80], function=m.qualname)
                continue
            n += 1
            missing = sorted(deps - tested)
            rep.check(not missing, rule, f"{m.name}: the skip test covers every regression the effect's condition is built from", m.loc(c), construct=f"condition from {sorted(deps)}, guard tests {sorted(tested)}", detail="" if not missing else f"the effect is skipped unless {sorted(tested)} changed, but its condition also depends on {missing}: an action that only changes the formula behind {missing} no longer updates the monitoring atom, so compiled plans are accepted that violate the constraint", function=m.qualname)
    rep.count("guarded_monitoring_effects", n)
    rep.require_min(rule, "guarded_monitoring_effects", 3)


def c06(idx: Index, rep: Report, tier: str) -> None:
    regression_skip_guards(idx, rep, "C06.v skip-guards-cover-regressions")
    n = bound_conditions_independent(rep, "C06.iv bounds-enforced-independently", idx.func("engines.compilers.bounded_types_remover.BoundedTypesRemover._compile"))
    rep.count("bound_condition_sites", n)


def metrics_rekeyed_when_actions_replaced(idx: Index, rep: Report, rule: str) -> None:
    """Sibling agreement among the compilers that start from `problem.clone()` and then `clear_actions()`: the cloned
    MinimizeActionCosts metric is keyed by the (cloned) actions that were just removed, so a compiler that accepts
    action costs must rebuild the metric for the actions it adds (`clear_quality_metrics()` on every path to the
    return, and a MinimizeActionCosts built from the new-to-old map). Otherwise the compiled problem's metric
    references actions that are not declared in it and the replaced actions lose their cost."""
    n = 0
    for ci in idx.classes.values():
        if not ci.module.name.startswith("unified_planning.engines.compilers."):
            continue
        comp = ci.methods.get("_compile")
        if comp is None:
            continue
        cfg = cfg_of(comp)
        cloned = {a.targets[0].id for a in walk_no_nested(comp.node) if isinstance(a, ast.Assign) and isinstance(a.targets[0], ast.Name) and isinstance(a.value, ast.Call) and call_name(a.value) == "clone"}
        clears = [(node, c) for node, c in cfg_nodes_with_call(cfg, "clear_actions") if isinstance(c.func, ast.Attribute) and isinstance(c.func.value, ast.Name) and c.func.value.id in cloned]
        if not clears:
            continue
        n += 1
        rep.note_function(comp.qualname)
        sk = ci.methods.get("supported_kind")
        accepts = sk is not None and "ACTIONS_COST" in str_consts(sk.node)
        if not accepts:
            rep.ok(rule, f"{ci.name}: does not accept action costs", comp.loc(clears[0][1]), construct=f"{ci.name}.supported_kind without ACTIONS_COST", function=comp.qualname)
            continue
        node, c = clears[0]
        x = c.func.value.id
        resets = {nd for nd, cc in cfg_nodes_with_call(cfg, "clear_quality_metrics") if isinstance(cc.func, ast.Attribute) and norm(cc.func.value) == x}
        rets = [nd for nd in cfg.nodes if isinstance(nd.ast, ast.Return)]
        if not rets:
            raise AnalysisError(f"{rule}: {comp.qualname} has no return statement")
        w = None
        for r in rets:
            w = w or cfg.path_avoiding(node, r, resets)
        # rebuilt: metrics are added again to the clone, with a case for the action-cost metric
        readds = [cc for _, cc in cfg_nodes_with_call(cfg, "add_quality_metric") if isinstance(cc.func, ast.Attribute) and norm(cc.func.value) == x]
        cased = any(nd.kind == "test" and nd.ast is not None and ("is_minimize_action_costs" in norm(nd.ast) or "MinimizeActionCosts" in norm(nd.ast)) for nd in cfg.nodes)
        rebuilt = bool(readds) and cased
        ok = w is None and rebuilt
        rep.check(ok, rule, f"{ci.name}._compile: the action-cost metric of the clone is rebuilt for the actions that replace the cleared ones", comp.loc(c), construct=f"{x}.clear_actions() with {'no ' if w is not None else ''}{x}.clear_quality_metrics() on every path to return, metric {'rebuilt' if rebuilt else 'not rebuilt'}", detail="" if ok else f"`{x}` is a clone whose MinimizeActionCosts is keyed by the actions removed by clear_actions(); the compiler accepts ACTIONS_COST but returns the clone's metric as it is: the compiled problem references undeclared actions and every replaced action costs nothing", function=comp.qualname, path=path_text(w) if w else None)
    rep.count("clone_then_clear_actions_compilers", n)
    rep.require_min(rule, "clone_then_clear_actions_compilers", 6)


def c08(idx: Index, rep: Report, tier: str) -> None:
    # (a) names kept from the input are registered before fresh names are drawn against the compiled problem
    rule = "C08.2 kept-names-registered-before-fresh-names"
    n_sites = 0
    for ci in idx.classes.values():
        if not ci.module.name.startswith("unified_planning.engines.compilers."):
            continue
        comp = ci.methods.get("_compile")
        if comp is None:
            continue
        cfg = cfg_of(comp)
        # helpers of this class that draw fresh names against a problem argument
        drawers = {m.name for m in ci.methods.values() if any(isinstance(c, ast.Call) and call_name(c) == "get_fresh_name" for c in walk_no_nested(m.node))}
        draw_nodes = [n for n in cfg.nodes if n.ast is not None and n.kind in ("stmt", "iter", "test") and any(isinstance(c, ast.Call) and (call_name(c) == "get_fresh_name" or call_name(c) in drawers) for c in ast.walk(n.ast))]
        if not draw_nodes:
            continue
        renamed: Set[str] = set()
        for a in walk_no_nested(comp.node):
            if isinstance(a, ast.Assign) and isinstance(a.targets[0], ast.Attribute) and a.targets[0].attr == "name" and isinstance(a.targets[0].value, ast.Name):
                renamed.add(a.targets[0].value.id)
        # loop variables over a drawer's result carry fresh names
        for l in walk_no_nested(comp.node):
            if isinstance(l, ast.For) and isinstance(l.target, ast.Name) and any(isinstance(c, ast.Call) and call_name(c) in drawers for c in ast.walk(l.iter)):
                renamed.add(l.target.id)
        for node, c in cfg_nodes_with_call(cfg, "add_action"):
            if not (c.args and isinstance(c.args[0], ast.Name)) or "problem" not in norm(c.func.value).lower():
                continue
            x = c.args[0].id
            if x in renamed:
                continue
            n_sites += 1
            w = None
            for d in draw_nodes:
                w = w or cfg.path_avoiding(d, node, set())
            rep.check(w is None, rule, f"{ci.name}._compile: add_action({x}) (name kept from the input) happens before any fresh name is drawn", comp.loc(c), construct=f"{norm(c)} reachable after {norm(w[0].ast)[:60] if w else 'no draw'}", detail="" if w is None else f"a fresh name is chosen while `{x}` — an action that keeps its original name — is not yet in the compiled problem: the fresh name X_0 can coincide with a later original action called X_0, and adding that action then fails", function=comp.qualname, path=path_text(w) if w else None)
    rep.count("kept_name_additions", n_sites)
    metrics_rekeyed_when_actions_replaced(idx, rep, "C08.5 T17 metric-rekeyed-when-actions-replaced")
    # (b) retired: "TimedToSequential's kept-fluent set reads .default next to .costs" (C08.4 T23). Since the
    # metric of the compiled problem is rebuilt by updated_minimize_action_costs (fix c774c56) its default is
    # folded into explicit costs, so reading `.costs` alone is complete there and the clause would be a false alarm.


def c11(idx: Index, rep: Report, tier: str) -> None:
    compat_symmetric(rep, "C11.4 T22 equality-disjointness-symmetric", idx.func("model.walkers.simplifier.Simplifier.walk_equals"))
    # no approximation in constant folding
    rule = "C11.1 T10 no-rounding"
    mod = idx.module("model.walkers.simplifier")
    n = 0
    for f in [x for x in idx.all_funcs() if x.module is mod]:
        for c in walk_no_nested(f.node):
            if isinstance(c, ast.Call) and (call_name(c) in ("limit_denominator", "round", "floor", "ceil", "trunc") or (isinstance(c.func, ast.Attribute) and norm(c.func.value) == "math")):
                n += 1
                rep.bad(rule, f"{f.short}: exact constants are not rounded", f.loc(c), construct=norm(c)[:80], detail="a folded rational is replaced by an approximation (limit_denominator caps the denominator at 10**6): 1/(10**9+7) becomes 0", function=f.qualname)
    rep.ok(rule, "simplifier.py: no rounding / approximating call", "unified_planning/model/walkers/simplifier.py:1", construct=f"{n} offending calls")
    fix = ast.parse("Fraction(v).limit_denominator()").body[0].value
    if call_name(fix) != "limit_denominator":
        raise AnalysisError(f"{rule}: positive fixture no longer matches")


def c12(idx: Index, rep: Report, tier: str) -> None:
    nn = idx.func("model.walkers.dnf.Nnf.get_nnf_expression")
    from ..roles import unpack_targets, with_roles

    tup = unpack_targets(nn.node, lambda v: isinstance(v, ast.Call) and call_name(v) == "pop")
    if tup is None or not tup.elts or not isinstance(tup.elts[0], ast.Name):
        raise AnalysisError("anchor vanished: `polarity, expression, status = <stack>.pop()` in Nnf.get_nnf_expression")
    nn = with_roles(nn, {tup.elts[0].id: "p"})
    rule = "C12.2 polarity-conditionals-complementary"
    n = 0
    for e in walk_no_nested(nn.node):
        if isinstance(e, ast.IfExp) and norm(e.test) in ("p", "not p"):
            n += 1
            a, b = (e.body, e.orelse) if norm(e.test) == "p" else (e.orelse, e.body)
            ta, tb = norm(a), norm(b)
            def _neg_of(x, y):  # x is the expression-level negation of y: Not(y) / <manager>.Not(y)
                return isinstance(x, ast.Call) and call_name(x) == "Not" and len(x.args) == 1 and not x.keywords and norm(x.args[0]) == norm(y)

            ok = tb in (f"not {ta}", f"not ({ta})") or ta in (f"not {tb}", f"not ({tb})") or {ta, tb} in ({"self.manager.And", "self.manager.Or"},) or _neg_of(b, a)
            rep.check(ok, rule, "a value chosen by polarity is the complement under negative polarity", nn.loc(e), construct=norm(e), detail="" if ok else f"under negative polarity `{tb}` is used where the complement of `{ta}` is needed", function=nn.qualname)
    if n == 0:
        rep.ok(rule, "Nnf uses no polarity-conditional value (if/else blocks are checked by the polarity table)", nn.loc(), function=nn.qualname)
    wo = idx.func("model.walkers.dnf.Dnf.walk_or")
    rule2 = "C12.1 disjuncts-all-kept"
    comps = [c for c in walk_no_nested(wo.node) if isinstance(c, (ast.ListComp, ast.GeneratorExp))]
    filt = [g for c in comps for g in c.generators if g.ifs]
    rep.check(not filt, rule2, "Dnf.walk_or keeps every conjunction of every disjunct (the empty conjunction is `true`)", wo.loc(filt[0].ifs[0]) if filt else wo.loc(), construct=norm(filt[0].ifs[0]) if filt else "no filter", detail="" if not filt else "conjunctions are filtered out of a disjunction: an empty conjunction stands for true, so a tautological disjunct is dropped and the DNF can be false where the input is true", function=wo.qualname)


def c13(idx: Index, rep: Report, tier: str) -> None:
    compat_directional(rep, "C13.1 T22 key-accepts-value-direction", idx.func("model.walkers.substituter.Substituter.substitute"), ("k",), ("v",))


def c16(idx: Index, rep: Report, tier: str) -> None:
    from ..rules2 import memo_key_adequacy

    n = memo_key_adequacy(rep, "C16.1 T24 memo-key-adequacy", [f for f in idx.all_funcs() if f.module.name in ("unified_planning.model.expression", "unified_planning.model.type_manager")])
    rep.count("memo_functions", n)
    em = idx.cls("model.expression.ExpressionManager")
    # (a) the expression table is the only place where nodes are remembered
    rule = "C16.1 T11 single-node-table"
    offenders = []
    for m in em.methods.values():
        for a in walk_no_nested(m.node):
            if isinstance(a, ast.Assign):
                for t in a.targets:
                    if isinstance(t, ast.Subscript) and isinstance(t.value, ast.Attribute) and norm(t.value.value) == "self" and t.value.attr != "expressions":
                        offenders.append((m, a, t.value.attr))
            if isinstance(a, ast.Call) and isinstance(a.func, ast.Attribute) and a.func.attr in ("setdefault", "update") and isinstance(a.func.value, ast.Attribute) and norm(a.func.value.value) == "self" and a.func.value.attr != "expressions":
                offenders.append((m, a, a.func.value.attr))
    for m, a, fld in offenders:
        rep.bad(rule, f"ExpressionManager.{m.name}: nodes are remembered only in self.expressions", m.loc(a), construct=f"self.{fld}[...] written in {m.name}", detail="a second table keyed by something coarser than FNodeContent (e.g. the raw payload, where 3 == Fraction(3)) returns one node for structurally different expressions", function=m.qualname)
    if not offenders:
        rep.ok(rule, "ExpressionManager keeps no table besides self.expressions", em.loc(), function=em.qualname)
    # (b) arity normalisations test the promoted, flattened argument tuple
    rule2 = "C16.2 arity-tested-on-promoted-arguments"
    for name in ("And", "Or", "Plus", "Times"):
        m = em.methods.get(name)
        if m is None:
            raise AnalysisError(f"anchor vanished: ExpressionManager.{name}")
        passed = {norm(k.value) for c in walk_no_nested(m.node) if isinstance(c, ast.Call) and call_name(c) == "create_node" for k in c.keywords if k.arg == "args"}
        # the tail "one child -> itself, else create_node" may be a private helper of the manager: what is handed to
        # the helper for the parameter it gives to create_node(args=…) counts as the children
        for c in walk_no_nested(m.node):
            if isinstance(c, ast.Call) and isinstance(c.func, ast.Attribute) and norm(c.func.value) == "self" and c.func.attr.startswith("_") and c.func.attr in em.methods:
                h = em.methods[c.func.attr]
                hp = [p_ for p_ in h.params() if p_ != "self"]
                harg = {p_: norm(a) for p_, a in zip(hp, c.args)}
                for hc in walk_no_nested(h.node):
                    if isinstance(hc, ast.Call) and call_name(hc) == "create_node":
                        for k in hc.keywords:
                            if k.arg == "args" and norm(k.value) in harg:
                                passed.add(harg[norm(k.value)])
        lens = {norm(c.args[0]) for t in walk_no_nested(m.node) if isinstance(t, ast.Compare) for c in [t.left] if isinstance(c, ast.Call) and call_name(c) == "len" and c.args}
        ok = bool(passed) and lens <= passed
        rep.check(ok, rule2, f"{name}: the 0/1-argument tests look at the tuple that becomes the children", m.loc(), construct=f"len() of {sorted(lens)}; children {sorted(passed)}", detail="" if ok else "the arity is tested on the raw *args: Plus([]) has one raw argument and zero children, so a childless node is built instead of the documented constant", function=m.qualname)


def ctor_time_reads(idx: Index, rep: Report, rule: str) -> None:
    """`__init__` of a class C builds sub-objects by passing `self` to their constructors (MAEnvironment(self)); those
    constructors read fields of C *at construction time* (ma_problem._initial_defaults). If such a field comes from a
    parameter p of C.__init__, then C.clone must hand p to the constructor call: assigning the field on the copy
    afterwards is too late, the sub-object of the clone was already built from p's default."""
    from ..index import ClassInfo

    n = 0
    for ci in sorted(idx.classes.values(), key=lambda c: c.qualname):
        if not ci.module.name.startswith("unified_planning.model") or "clone" not in ci.methods:
            continue
        init = ci.methods.get("__init__")
        clone = ci.methods["clone"]
        if init is None:
            continue
        params = [p for p in init.params() if p != "self"]
        kwonly = [a.arg for a in init.node.args.kwonlyargs]
        read_at_ctor: Dict[str, str] = {}
        for c in walk_no_nested(init.node):
            if not isinstance(c, ast.Call):
                continue
            pos = [i for i, a in enumerate(c.args) if isinstance(a, ast.Name) and a.id == "self"]
            if not pos:
                continue
            fn = norm(c.func)
            if fn.endswith(".__init__"):
                continue  # mixin initialisation of self itself
            obj = idx.resolve_dotted(init.module, fn) if fn.replace(".", "").replace("_", "").isalnum() else None
            if not isinstance(obj, ClassInfo):
                continue
            kinit = obj.lookup("__init__")
            if kinit is None:
                continue
            kparams = [p for p in kinit.params() if p != "self"]
            for i in pos:
                if i >= len(kparams):
                    continue
                q = kparams[i]
                for a in walk_no_nested(kinit.node):
                    if isinstance(a, ast.Attribute) and isinstance(a.value, ast.Name) and a.value.id == q and isinstance(a.ctx, ast.Load):
                        read_at_ctor.setdefault(a.attr, obj.name)
        if not read_at_ctor:
            continue
        # fields of C read by a sub-constructor that come from a parameter of C.__init__
        needed: Dict[str, Tuple[str, str]] = {}
        for a in walk_no_nested(init.node):
            if isinstance(a, ast.Assign) and len(a.targets) == 1 and isinstance(a.targets[0], ast.Attribute) and norm(a.targets[0].value) == "self" and a.targets[0].attr in read_at_ctor:
                for x in ast.walk(a.value):
                    if isinstance(x, ast.Name) and x.id in params + kwonly:
                        needed[x.id] = (a.targets[0].attr, read_at_ctor[a.targets[0].attr])
        ctor = None
        for c in walk_no_nested(clone.node):
            if isinstance(c, ast.Call):
                fn = norm(c.func)
                obj = idx.resolve_dotted(clone.module, fn) if fn.replace(".", "").replace("_", "").isalnum() else None
                if obj is ci or fn in ("type(self)", "self.__class__"):
                    ctor = c
                    break
        if ctor is None:
            continue
        for p, (fld, sub) in sorted(needed.items()):
            n += 1
            supplied = any(k.arg == p for k in ctor.keywords) or (p in params and params.index(p) < len(ctor.args)) or any(k.arg is None for k in ctor.keywords)
            rep.check(supplied, rule, f"{ci.name}.clone passes `{p}` to the constructor ({sub} reads {fld} while it is built)", clone.loc(ctor), construct=f"{norm(ctor)[:70]}: {p} {'supplied' if supplied else 'left at its default'}", detail="" if supplied else f"{sub}(self) reads self.{fld} inside {ci.name}.__init__; the clone's {sub} is therefore built from the default of `{p}`, and assigning {fld} on the copy afterwards does not reach it: operations that depend on it (per-type default initial values of fluents added later) behave differently on the clone", function=clone.qualname)
    rep.count("ctor_time_parameters", n)
    rep.require_min(rule, "ctor_time_parameters", 1)


_CONTAINER_CTORS = ("set", "dict", "list", "OrderedDict", "defaultdict")


def _is_container_literal(e: ast.AST) -> bool:
    return isinstance(e, (ast.Dict, ast.Set, ast.List)) or (isinstance(e, ast.Call) and call_name(e) in _CONTAINER_CTORS)


def _copies_element(e: ast.AST) -> bool:
    """the expression builds a new container from its operand"""
    if isinstance(e, (ast.ListComp, ast.SetComp, ast.DictComp)):
        return True
    if isinstance(e, ast.Call) and call_name(e) in ("copy", "deepcopy", "clone") + _CONTAINER_CTORS:
        return True
    if isinstance(e, ast.Subscript) and isinstance(e.slice, ast.Slice):
        return True
    return False


def nested_containers_copied(idx: Index, rep: Report, rule: str) -> None:
    """A field whose *elements* are containers that the class mutates in place (`self._f.setdefault(k, {})…`,
    `self._f[k].append(…)`) must be copied element-wise by clone: `self._f.copy()` copies the outer dictionary only,
    original and clone then share the inner containers and an edit of one changes the other."""
    from ..rules import clone_coverage

    n = 0
    for ci in sorted(idx.classes.values(), key=lambda c: c.qualname):
        if "clone" not in ci.methods or not ci.module.name.startswith("unified_planning.model"):
            continue
        nested: Dict[str, ast.AST] = {}
        for k in ci.mro:
            for m in k.methods.values():
                if m.name in ("clone", "_clone_to", "__init__"):
                    continue
                for c in walk_no_nested(m.node):
                    if isinstance(c, ast.Call) and call_name(c) == "setdefault" and isinstance(c.func, ast.Attribute) and isinstance(c.func.value, ast.Attribute) and norm(c.func.value.value) == "self" and len(c.args) == 2 and _is_container_literal(c.args[1]):
                        nested.setdefault(c.func.value.attr, c)
                    if isinstance(c, ast.Call) and isinstance(c.func, ast.Attribute) and c.func.attr in ("append", "add", "extend", "update", "remove", "pop", "insert") and isinstance(c.func.value, ast.Subscript) and isinstance(c.func.value.value, ast.Attribute) and norm(c.func.value.value.value) == "self":
                        nested.setdefault(c.func.value.value.attr, c)
        if not nested:
            continue
        clone = ci.methods["clone"]
        covered, _, _ = clone_coverage(idx, ci, clone)
        for f in sorted(nested):
            nd = covered.get(f)
            if not isinstance(nd, ast.Assign):
                continue
            v = nd.value
            n += 1
            where = clone.loc(nd)
            if isinstance(v, ast.DictComp):
                ok = _copies_element(v.value)
                shallow = isinstance(v.value, ast.Name)
            elif isinstance(v, ast.Call) and call_name(v) in ("copy", "dict", "OrderedDict") and any(isinstance(x, ast.Attribute) and x.attr == f for x in ast.walk(v)):
                ok, shallow = False, True
            elif isinstance(v, ast.Attribute) and v.attr == f:
                ok, shallow = False, True
            elif isinstance(v, ast.Call) and call_name(v) == "deepcopy":
                ok, shallow = True, False
            else:
                ok, shallow = False, False
            if ok:
                rep.ok(rule, f"{ci.name}.clone copies the inner containers of {f}", where, construct=f"{f} = {norm(v)[:70]}", function=clone.qualname)
            elif shallow:
                rep.bad(rule, f"{ci.name}.clone copies the inner containers of {f}", where, construct=f"{f} = {norm(v)[:70]}", detail=f"the elements of {f} are containers that are changed in place; only the outer container is copied, so the original and the clone share them and an edit of one changes the bookkeeping of the other", function=clone.qualname)
            else:
                rep.inconclusive(rule, f"{ci.name}.clone: copy idiom of {f} not recognised", where, detail=norm(v)[:80], function=clone.qualname)
    rep.count("nested_container_fields", n)
    rep.require_min(rule, "nested_container_fields", 6)


def rederived_bookkeeping_agrees(idx: Index, rep: Report, rule: str) -> None:
    """Where a clone does not copy the conflict bookkeeping (_fluents_inc_dec / _fluents_assigned) but re-derives it
    from the effects, the derivation must record exactly what check_conflicting_effects records: decided by
    executing both on every abstract effect (assign/increase/decrease x conditional x Boolean)."""
    from .C24_table import Eff, Mini, Raised, Unsupported

    ce = idx.func("model.effect.check_conflicting_effects")
    writer = Mini(ce.node)
    effs = [Eff(k, "v1", c, b) for b in (False, True) for c in (False, True) for k in (("assign", "increase", "decrease") if not b else ("assign",))]
    n = 0
    for f in idx.all_funcs():
        if not f.module.name.startswith("unified_planning.model") or f.name not in ("clone", "_clone_to"):
            continue
        for a in walk_no_nested(f.node):
            if not (isinstance(a, ast.Assign) and len(a.targets) == 1 and isinstance(a.targets[0], ast.Attribute) and a.targets[0].attr in ("_fluents_inc_dec", "_fluents_assigned")):
                continue
            fld = a.targets[0].attr
            v = a.value
            if not isinstance(v, (ast.SetComp, ast.DictComp, ast.ListComp)) or len(v.generators) != 1:
                continue
            g = v.generators[0]
            if not (isinstance(g.iter, ast.Attribute) and g.iter.attr.endswith("effects") and isinstance(g.target, ast.Name)):
                continue
            n += 1
            bad = []
            try:
                for e in effs:
                    st_a: Dict = {}
                    st_i: Set = set()
                    try:
                        writer.call({"effect": e, "timing": None, "simulated_effect": None, "fluents_assigned": st_a, "fluents_inc_dec": st_i, "name": "n"})
                    except Raised:
                        continue
                    env = {g.target.id: e}
                    m = Mini(f.node)
                    keep = all(m._truth(m._expr(c, env)) for c in g.ifs)
                    if fld == "_fluents_inc_dec":
                        derived = {m._expr(v.elt, env)} if keep and not isinstance(v, ast.DictComp) else set()
                        if derived != st_i:
                            bad.append(f"[{e.label()}]: recorded {sorted(map(str, st_i))}, re-derived {sorted(map(str, derived))}")
                    else:
                        derived_d = {m._expr(v.key, env): m._expr(v.value, env)} if keep and isinstance(v, ast.DictComp) else {}
                        if derived_d != st_a:
                            bad.append(f"[{e.label()}]: recorded {len(st_a)} entries, re-derived {len(derived_d)}")
            except Unsupported as u:
                rep.inconclusive(rule, f"{f.short}: re-derivation of {fld} not interpretable", f.loc(a), detail=str(u), function=f.qualname)
                continue
            rep.check(not bad, rule, f"{f.short}: re-derived {fld} equals what check_conflicting_effects records", f.loc(a), construct=f"{fld} = {norm(v)[:70]}", detail="" if not bad else "; ".join(bad[:3]) + " — the clone rejects (or accepts) later effects that the original accepts (rejects)", function=f.qualname)
    rep.count("rederived_bookkeeping_sites", n)
    # positive fixture: the wrong derivation must be refuted, the right one accepted
    for src, expect in (("new._fluents_inc_dec = {e.fluent for e in new._effects if e.is_increase() or e.is_decrease()}", False), ("new._fluents_inc_dec = {e.fluent for e in new._effects if (e.is_increase() or e.is_decrease()) and not e.is_conditional()}", True)):
        a = ast.parse(src).body[0]
        v, g = a.value, a.value.generators[0]
        agree = True
        try:
            for e in effs:
                st_a, st_i = {}, set()
                try:
                    writer.call({"effect": e, "timing": None, "simulated_effect": None, "fluents_assigned": st_a, "fluents_inc_dec": st_i, "name": "n"})
                except Raised:
                    continue
                m = Mini(a)
                env = {g.target.id: e}
                keep = all(m._truth(m._expr(c, env)) for c in g.ifs)
                agree = agree and (({m._expr(v.elt, env)} if keep else set()) == st_i)
        except Unsupported as u:
            raise AnalysisError(f"{rule}: fixture not interpretable ({u})")
        if agree != expect:
            raise AnalysisError(f"{rule}: fixture `{src[:60]}…` judged {agree}, expected {expect}")


def c22(idx: Index, rep: Report, tier: str) -> None:
    ctor_time_reads(idx, rep, "C22.3 clone-passes-constructor-time-parameters")
    nested_containers_copied(idx, rep, "C22.4 T8 nested-containers-copied")
    rederived_bookkeeping_agrees(idx, rep, "C22.5 T15 rederived-bookkeeping-agrees")
    funcs = [f for f in idx.all_funcs() if f.module.name.startswith("unified_planning.model") and f.name in ("clone", "_clone_to")]
    n = sibling_fields(rep, "C22.1 T23 sibling-fields", funcs)
    rep.count("sibling_field_sites", n)


def c23(idx: Index, rep: Report, tier: str) -> None:
    for q, tw, vw in (
        ("model.mixins.initial_state.InitialStateMixin.set_initial_value", ("fluent",), ("value",)),
        ("model.mixins.fluents_set.FluentsSetMixin.add_fluent", ("fluent",), ("v_exp", "value")),
        ("plans.plan.ActionInstance.__init__", ("param",), ("assigned_value", "value")),
    ):
        compat_directional(rep, "C23.1 T22 target-accepts-value-direction", idx.func(q), tw, vw)


def auxiliary_fluents_initialised(idx: Index, rep: Report, rule: str) -> None:
    """A fluent that a compiler adds to the compiled problem without a default initial value is undefined in the
    initial state unless its values are copied from the input problem (`for … in problem.initial_values.items():
    new_problem.set_initial_value(…)`, in the function itself or in a helper of compilers/utils it passes the new
    problem to). An undefined fluent gives the compiled problem an UNDEFINED_INITIAL_* feature; none of the compilers
    declares introducing one."""
    def copies_initial_values(fn: ast.AST) -> bool:
        for l in walk_no_nested(fn):
            if isinstance(l, ast.For) and any(isinstance(a, ast.Attribute) and a.attr == "initial_values" for a in ast.walk(l.iter)):
                if any(isinstance(c, ast.Call) and call_name(c) == "set_initial_value" for b in l.body for c in ast.walk(b)):
                    return True
        return False

    utils = idx.module("engines.compilers.utils")
    util_copiers = {f.name for f in idx.all_funcs() if f.module is utils and copies_initial_values(f.node)}
    n = 0
    n_bare = 0
    for f in idx.all_funcs():
        if not f.module.name.startswith("unified_planning.engines.compilers.") or f.module is utils:
            continue
        adds = [c for c in walk_no_nested(f.node) if isinstance(c, ast.Call) and call_name(c) == "add_fluent" and isinstance(c.func, ast.Attribute)]
        if not adds:
            continue
        # the class may declare that it introduces undefined initial values
        declares = False
        if f.cls is not None:
            rk = f.cls.methods.get("resulting_problem_kind")
            declares = rk is not None and any(s.startswith("UNDEFINED_INITIAL") for s in str_consts(rk.node)) and any(isinstance(c, ast.Call) and call_name(c) == "set_initial_state" for c in ast.walk(rk.node))
        copied = copies_initial_values(f.node) or any(isinstance(c, ast.Call) and call_name(c) in util_copiers for c in walk_no_nested(f.node))
        for c in adds:
            n += 1
            has_default = len(c.args) >= 2 or any(k.arg == "default_initial_value" for k in c.keywords)
            if has_default:
                rep.ok(rule, f"{f.short}: added fluent has a default initial value", f.loc(c), construct=norm(c)[:80], function=f.qualname)
                continue
            n_bare += 1
            ok = copied or declares
            rep.check(ok, rule, f"{f.short}: a fluent added without default gets its values copied from the input problem", f.loc(c), construct=f"{norm(c)[:60]} — {'initial values copied' if copied else 'no default, no copy of problem.initial_values'}", detail="" if ok else "the fluent has no value in the initial state of the compiled problem: its kind gains UNDEFINED_INITIAL_SYMBOLIC / _NUMERIC, which resulting_problem_kind does not declare, and reading it raises UPStateMissingFluentError", function=f.qualname)
    rep.count("add_fluent_sites_in_compilers", n)
    rep.count("add_fluent_sites_without_default", n_bare)
    rep.require_min(rule, "add_fluent_sites_in_compilers", 15)


def time_keys_normalised(idx: Index, rep: Report, rule: str) -> None:
    """The per-timing tables (_effects, _simulated_effects, _fluents_assigned, _fluents_inc_dec, …) are keyed by
    `Timing`. A parameter declared as a *TimeExpression* (a Timing, a Timepoint, a number) must be normalised
    (`timing = Timing.from_time(timing)`) before it is used as a key or handed to the conflict checks; a raw key
    misses the entries stored under the equivalent Timing, so the conflict verdict depends on how the caller spelled
    the time — and with it on the insertion order."""
    from ..dataflow import reaching_defs

    n = 0
    n_norm = 0
    for f in idx.all_funcs():
        if not f.module.name.startswith("unified_planning.model"):
            continue
        raw = []
        a = f.node.args
        for arg in list(a.posonlyargs) + list(a.args) + list(a.kwonlyargs):
            # (a Union with TimeInterval is normalised under an isinstance test: interval tables, not in this rule)
            if arg.annotation is not None and "TimeExpression" in norm(arg.annotation) and "TimeInterval" not in norm(arg.annotation):
                raw.append(arg.arg)
        if not raw:
            continue
        cfg = cfg_of(f)
        rd = reaching_defs(cfg)
        for node in cfg.nodes:
            if node.ast is None or node.kind not in ("stmt", "test", "iter", "return"):
                continue
            keys = []
            for x in ast.walk(node.ast):
                if isinstance(x, ast.Call) and isinstance(x.func, ast.Attribute) and x.func.attr in ("get", "setdefault", "pop") and x.args and isinstance(x.args[0], ast.Name) and x.args[0].id in raw and isinstance(x.func.value, ast.Attribute) and norm(x.func.value.value) == "self":
                    keys.append((x.args[0].id, x))
                elif isinstance(x, ast.Subscript) and isinstance(x.slice, ast.Name) and x.slice.id in raw and isinstance(x.value, ast.Attribute) and norm(x.value.value) == "self":
                    keys.append((x.slice.id, x))
                elif isinstance(x, ast.Compare) and len(x.ops) == 1 and isinstance(x.ops[0], (ast.In, ast.NotIn)) and isinstance(x.left, ast.Name) and x.left.id in raw and isinstance(x.comparators[0], ast.Attribute) and norm(x.comparators[0].value) == "self":
                    keys.append((x.left.id, x))
                elif isinstance(x, ast.Call) and call_name(x) in ("check_conflicting_effects", "check_conflicting_simulated_effects"):
                    for arg in x.args:
                        if isinstance(arg, ast.Name) and arg.id in raw:
                            keys.append((arg.id, x))
            for var, x in keys:
                n += 1
                defs = rd[node].get(var, set())
                unnormalised = cfg.entry in defs
                rep.check(not unnormalised, rule, f"{f.short}: `{var}` is a Timing when it is used as a key", f.loc(x), construct=f"{norm(x)[:70]} in {f.short}", detail="" if not unnormalised else f"`{var}` is declared as a TimeExpression and reaches this use without passing through Timing.from_time: a Timepoint or a number does not find the entries stored under the equivalent Timing (the simulated effect at that time, the recorded assignments), so a conflicting effect is accepted in one insertion order and rejected in the other", function=f.qualname)
        for node in cfg.nodes:
            if node.ast is not None and node.kind == "stmt" and isinstance(node.ast, ast.Assign) and isinstance(node.ast.value, ast.Call) and call_name(node.ast.value) == "from_time":
                n_norm += 1
    rep.count("time_keyed_uses", n)
    rep.count("from_time_normalisations", n_norm)
    rep.require_min(rule, "time_keyed_uses", 3)


def c24(idx: Index, rep: Report, tier: str) -> None:
    time_keys_normalised(idx, rep, "C24.4 time-keys-normalised")


def c09(idx: Index, rep: Report, tier: str) -> None:
    auxiliary_fluents_initialised(idx, rep, "C09.5 T17 added-fluents-initialised")


EXTRA2 = {"C09": c09, "C24": c24, "C04": c04, "C05": c05, "C07": c07, "C06": c06, "C08": c08, "C11": c11, "C12": c12, "C13": c13, "C16": c16, "C22": c22, "C23": c23}


def run_extra2(prop: str, idx: Index, rep: Report, tier: str) -> None:
    fn = EXTRA2.get(prop)
    if fn is not None:
        fn(idx, rep, tier)
