"""Clauses added after confronting the checks with independently seeded changes (DESIGN.md section 10).

Each function adds obligations to the report of one property; cli.py calls run_extra after the property's own
module. Every rule here is a necessary condition of its property and has a silent direction for unrecognised
constructs; rules whose expected count on today's tree is zero carry an inline positive fixture that must match
on every run (a broken matcher cannot pass vacuously).
"""
from __future__ import annotations

import ast
from typing import Dict, List, Set

from ..dataflow import DefUse, feasible_path
from ..index import AnalysisError, Index, call_name, norm, walk_no_nested
from ..report import Report
from ..rules import cfg_nodes_with_call, cfg_of, guards_dominating, path_text
from ..rules2 import (
    functools_cache_decorators,
    generator_method_names,
    one_shot_iterator_reuse,
    optional_numeric_truthiness,
    self_check_one_shot,
    self_check_truthiness,
)

SIM = "engines.sequential_simulator.UPSequentialSimulator"


def _funcs_of(idx: Index, *module_prefixes: str):
    pref = tuple("unified_planning." + p for p in module_prefixes)
    return [f for f in idx.all_funcs() if f.module.name.startswith(pref)]


def _t18(idx: Index, rep: Report, rule: str, *mods: str) -> None:
    if not self_check_truthiness():
        raise AnalysisError(f"{rule}: the positive fixture of the truthiness rule no longer matches")
    n = optional_numeric_truthiness(rep, rule, _funcs_of(idx, *mods))
    rep.count("functions_reading_bounds", n)


# --------------------------------------------------------------------------------------------- C01
def c01(idx: Index, rep: Report, tier: str) -> None:
    # forall effects range over *all* objects of each variable's type: one fresh iterator per variable
    rule = "C01.3 T19 forall-domains-are-fresh-iterators"
    if not self_check_one_shot(idx):
        raise AnalysisError(f"{rule}: positive fixture no longer matches")
    ee = idx.func("model.effect.Effect.expand_effect")
    gens = generator_method_names(idx)
    rep.check("objects" in gens, rule, "ObjectsSetMixin.objects is a generator (one-shot)", ee.loc(), construct="objects() yields", function=ee.qualname) if True else None
    one_shot_iterator_reuse(rep, rule, idx, [ee], gens)
    prods = [c for c in walk_no_nested(ee.node) if isinstance(c, ast.Call) and call_name(c) == "product"]
    if not prods:
        raise AnalysisError("anchor vanished: product(...) in Effect.expand_effect")
    for c in prods:
        ok = False
        if len(c.args) == 1 and isinstance(c.args[0], ast.Starred) and isinstance(c.args[0].value, (ast.GeneratorExp, ast.ListComp)):
            g = c.args[0].value
            it = norm(g.generators[0].iter)
            elt = g.elt
            while isinstance(elt, ast.Call) and call_name(elt) in ("list", "tuple"):
                elt = elt.args[0]
            ok = it in ("self._forall", "self.forall") and isinstance(elt, ast.Call) and call_name(elt) == "objects" and ".type" in norm(elt.args[0])
        rep.check(ok, rule, "expand_effect: the product has one factor objects(v.type) per quantified variable", ee.loc(c), construct=norm(c)[:110], detail="" if ok else "the domain of a quantified variable is not obtained by a fresh objects(v.type) call per variable", function=ee.qualname)
    _t18(idx, rep, "C01.1 T18 bounds-tested-with-is-None", "engines.sequential_simulator")


# --------------------------------------------------------------------------------------------- C02
def c02(idx: Index, rep: Report, tier: str) -> None:
    # (a) full check: no return with reason None before the invariants were evaluated
    rule = "C02.2 T2 full-check-always-evaluates-invariants"
    f = idx.func(SIM + ".get_unsatisfied_conditions")
    cfg = cfg_of(f)
    fc = [t for t in cfg.nodes if t.kind == "test" and norm(t.ast) == "full_check"]
    if not fc:
        raise AnalysisError("anchor vanished: `if full_check:` in get_unsatisfied_conditions")
    loops = {l for l in cfg.nodes if l.kind == "for" and norm(l.owner.iter) == "self._state_invariants"}
    if not loops:
        rep.bad(rule, "get_unsatisfied_conditions evaluates the state invariants in the full check", f.loc(), construct="no loop over self._state_invariants", detail="is_applicable ignores state invariants and bounded types", function=f.qualname)
        return
    # the "reason": whatever name the function returns as second component
    reasons = {r.value.elts[1].id for r in walk_no_nested(f.node) if isinstance(r, ast.Return) and isinstance(r.value, ast.Tuple) and len(r.value.elts) == 2 and isinstance(r.value.elts[1], ast.Name)}
    if not reasons:
        raise AnalysisError("anchor vanished: get_unsatisfied_conditions no longer returns (conditions, reason)")
    reason_set = {n for n in cfg.nodes if isinstance(n.ast, ast.Assign) and norm(n.ast.targets[0]) in reasons and not (isinstance(n.ast.value, ast.Constant) and n.ast.value.value is None)}
    for t in fc:
        starts = [s for s in cfg.g.successors(t) if cfg.g[t][s].get("label") is True]
        w = None
        for s in starts:
            if s in loops or s in reason_set:
                continue
            w = w or cfg.path_avoiding(s, cfg.exit, loops | reason_set)
        rep.check(w is None, rule, "every return of the full check with no reason recorded comes after the invariants loop", f.loc(t.ast), construct="full_check -> ... -> for si in self._state_invariants", detail="" if w is None else "the full check can return `reason is None` (applicable) without having evaluated the state invariants / bounded types on the successor: is_applicable says True where apply returns None", function=f.qualname, path=path_text(w) if w else None)
    # (b) the cache of grounded actions is filled atomically from the grounder
    rule_b = "C02.4 query-caches-filled-atomically"
    ga = idx.func(SIM + "._get_applicable_actions")
    gcfg = cfg_of(ga)
    stores = [n for n in gcfg.nodes if isinstance(n.ast, ast.Assign) and norm(n.ast.targets[0]) == "self._grounded_actions"]
    if not stores:
        rep.ok(rule_b, "_get_applicable_actions keeps no cache", ga.loc(), function=ga.qualname)
    for s in stores:
        v = s.ast.value
        def materialised(e):
            return isinstance(e, ast.Call) and call_name(e) in ("list", "tuple") and any(isinstance(c, ast.Call) and call_name(c) == "get_grounded_actions" for c in ast.walk(e))

        complete = materialised(v)
        if not complete and isinstance(v, ast.Name):
            # through a local: every definition of it that reaches the store is the materialised output (or the cache itself)
            from ..dataflow import reaching_defs

            defs = reaching_defs(gcfg)[s].get(v.id, set())
            vals = [getattr(d.ast, "value", None) for d in defs]
            mutated = any(isinstance(c, ast.Call) and isinstance(c.func, ast.Attribute) and norm(c.func.value) == v.id and c.func.attr in ("append", "extend", "insert", "pop", "remove", "clear") for c in walk_no_nested(ga.node))
            complete = bool(defs) and not mutated and all(materialised(x) for x in vals if not (x is not None and norm(x) == "self._grounded_actions")) and any(materialised(x) for x in vals)
        rep.check(complete, rule_b, "the grounded-action cache is assigned the materialised output of the grounder in one statement", ga.loc(s.ast), construct=norm(s.ast)[:110], detail="" if complete else "the cache is created empty/partial and completed while results are being yielded: a caller that abandons the first iteration leaves a truncated cache, and every later get_applicable_actions omits applicable actions", function=ga.qualname)
    # a generator must not mutate simulator fields between yields
    for m in idx.cls(SIM).methods.values():
        if not any(isinstance(x, (ast.Yield, ast.YieldFrom)) for x in walk_no_nested(m.node)):
            continue
        aliases = {a.targets[0].id for a in walk_no_nested(m.node) if isinstance(a, ast.Assign) and len(a.targets) == 1 and isinstance(a.targets[0], ast.Name) and isinstance(a.value, ast.Attribute) and norm(a.value).startswith("self.") and a.value.attr in ("append", "add", "update", "extend", "setdefault")}
        bad = []
        for loop in [l for l in walk_no_nested(m.node) if isinstance(l, (ast.For, ast.While))]:
            if not any(isinstance(x, (ast.Yield, ast.YieldFrom)) for x in ast.walk(loop)):
                continue
            for c in ast.walk(loop):
                if isinstance(c, ast.Call):
                    if isinstance(c.func, ast.Attribute) and c.func.attr in ("append", "add", "update", "extend", "setdefault", "pop") and norm(c.func.value).startswith("self."):
                        bad.append(c)
                    elif isinstance(c.func, ast.Name) and c.func.id in aliases:
                        bad.append(c)
        rep.check(not bad, rule_b, f"{m.name}: a generator does not update simulator state between yields", m.loc(bad[0]) if bad else m.loc(), construct=norm(bad[0])[:80] if bad else "", detail="" if not bad else "simulator state is updated incrementally inside a generator: what later queries see depends on how far an earlier caller iterated", function=m.qualname)


# --------------------------------------------------------------------------------------------- C04 / C05
def c04(idx: Index, rep: Report, tier: str) -> None:
    _t18(idx, rep, "C04 T18 bounds-tested-with-is-None", "engines.plan_validator", "engines.sequential_simulator")


def c05(idx: Index, rep: Report, tier: str) -> None:
    # an action starting at time t is unfolded before the effects scheduled at t are applied, so that all
    # effects of one instant are applied together: the start/effect tie is broken towards the start
    rule = "C05.3 same-instant-tie-break"
    f = idx.func("engines.plan_validator.TimeTriggeredPlanValidator._validate")
    from ..roles import with_roles

    # roles: the list of pending starts (popped into a (time, instance, duration) triple), the heap of scheduled effects
    roles = {}
    for a in walk_no_nested(f.node):
        if isinstance(a, ast.Assign) and isinstance(a.targets[0], ast.Tuple) and len(a.targets[0].elts) == 3 and isinstance(a.value, ast.Call) and call_name(a.value) == "pop" and isinstance(a.value.func.value, ast.Name):
            roles[a.value.func.value.id] = "start_actions"
        if isinstance(a, ast.Call) and call_name(a) in ("heappop", "heappush") and a.args and isinstance(a.args[0], ast.Name):
            roles[a.args[0].id] = "scheduled_effects"
    f = with_roles(f, roles)
    cmp_ = []
    for n in walk_no_nested(f.node):
        if isinstance(n, ast.Compare) and len(n.ops) == 1 and "start_actions[-1][0]" in norm(n) and "scheduled_effects[0][0]" in norm(n):
            cmp_.append(n)
    if not cmp_:
        rep.inconclusive(rule, "comparison between next start time and next effect time not recognised", f.loc(), function=f.qualname)
        return
    for c in cmp_:
        l, op, r = norm(c.left), c.ops[0], norm(c.comparators[0])
        start_first_on_tie = (("start_actions" in l and isinstance(op, ast.LtE)) or ("start_actions" in r and isinstance(op, ast.GtE)))
        # the comparison may be negated: not (start > effect)
        rep.check(start_first_on_tie, rule, "a start at time t is processed before the effects at time t", f.loc(c), construct=norm(c), detail="" if start_first_on_tie else "with a strict comparison the effects already scheduled at t are applied as a batch of their own before the at-start effects of an action starting at t: two batches at one instant, so conflicts between them go undetected and values are read from the half-updated state", function=f.qualname)


# --------------------------------------------------------------------------------------------- C06
def c06(idx: Index, rep: Report, tier: str) -> None:
    _t18(idx, rep, "C06 T18 bounds-tested-with-is-None", "engines.compilers")
    # BoundedTypesRemover turns both bounds of a bounded fluent into conditions
    rule = "C06.iv T1 bounded-types-become-conditions"
    f = idx.func("engines.compilers.bounded_types_remover.BoundedTypesRemover._compile")
    cfg = cfg_of(f)
    du = DefUse(cfg)
    for bound in ("lower_bound", "upper_bound"):
        found = None
        for n, c in cfg_nodes_with_call(cfg, "append"):
            if c.args and isinstance(c.args[0], ast.Call) and call_name(c.args[0]) in ("LE", "GE"):
                chains = du.expanded_chains(c.args[0], n)
                if any(ch[-1] == bound for ch in chains):
                    found = (n, c)
        ok = found is not None
        guard_ok = False
        if found:
            for t, o in guards_dominating(cfg, found[0]):
                txt = norm(t.ast)
                if "is not None" in txt and o:
                    guard_ok = True
                if "is None" in txt and "is not None" not in txt and not o:
                    guard_ok = True
        rep.check(ok and guard_ok, rule, f"a condition is generated from the {bound} whenever it is present", f.loc(found[1]) if found else f.loc(), construct=norm(found[1])[:100] if found else f"no condition built from {bound}", detail="" if ok and guard_ok else f"the {bound} of a bounded fluent is not (always) turned into a condition of the compiled problem: compiled plans can leave the range", function=f.qualname)


# --------------------------------------------------------------------------------------------- C10
def c10(idx: Index, rep: Report, tier: str) -> None:
    # a visit must not be skipped on the basis of what the kind already contains
    rule = "C10.1 T2 visits-not-guarded-by-accumulated-kind"
    sinks = ("update_problem_kind_expression", "update_problem_kind_effect", "_update_problem_kind_condition", "_update_problem_kind_effect", "update_problem_kind_action", "update_problem_kind_event", "update_problem_kind_process")
    targets = [f for f in idx.all_funcs() if f.module.name.startswith("unified_planning.model") and (f.name in ("kind", "_kind_factory") or f.name.startswith(("update_problem_kind", "_update_problem_kind", "update_action_")))]
    n = 0
    for f in targets:
        cfg = cfg_of(f)
        for s in sinks:
            for node, c in cfg_nodes_with_call(cfg, s):
                n += 1
                bad = [t for t, o in guards_dominating(cfg, node) if any(isinstance(x, ast.Call) and isinstance(x.func, ast.Attribute) and x.func.attr.startswith("has_") and "kind" in norm(x.func.value).lower() for x in ast.walk(t.ast))]
                rep.check(not bad, rule, f"{f.short}: {s}(...) is not conditional on features already in the kind", f.loc(c), construct=(norm(bad[0].ast)[:80] + " guards " + norm(c)[:60]) if bad else norm(c)[:80], detail="" if not bad else "whether this part of the problem is visited depends on what was visited before: operators that occur only here are never reported", function=f.qualname)
    rep.count("kind_visit_sites", n)
    rep.require_min(rule, "kind_visit_sites", 30)
    # TRAJECTORY_CONSTRAINTS is withheld only for constraints that are entirely `always`
    rule2 = "C10.3 trajectory-constraint-classification"
    kf = idx.func("model.problem.Problem._kind_factory")
    for i in [x for x in walk_no_nested(kf.node) if isinstance(x, ast.If)]:
        sets_inv = any(isinstance(c, ast.Call) and call_name(c) == "set_constraints_kind" and c.args and isinstance(c.args[0], ast.Constant) and c.args[0].value == "STATE_INVARIANTS" for s in i.body for c in ast.walk(s))
        if not sets_inv:
            continue
        sets_tc_else = any(isinstance(c, ast.Call) and call_name(c) == "set_constraints_kind" and c.args and isinstance(c.args[0], ast.Constant) and c.args[0].value == "TRAJECTORY_CONSTRAINTS" for s in i.orelse for c in ast.walk(s))
        sets_tc_body = any(isinstance(c, ast.Call) and call_name(c) == "set_constraints_kind" and c.args and isinstance(c.args[0], ast.Constant) and c.args[0].value == "TRAJECTORY_CONSTRAINTS" for s in i.body for c in ast.walk(s))
        t = i.test
        universal = (isinstance(t, ast.Call) and call_name(t) == "is_always") or (isinstance(t, ast.Call) and call_name(t) == "all")
        existential = isinstance(t, ast.Call) and call_name(t) == "any"
        if existential and not sets_tc_body:
            rep.bad(rule2, "a constraint with a non-`always` part sets TRAJECTORY_CONSTRAINTS", kf.loc(i), construct=norm(t)[:90], detail="the branch that withholds TRAJECTORY_CONSTRAINTS is taken as soon as *some* conjunct is an `always`: And(Always(a), Sometime(b)) is reported as a mere state invariant", function=kf.qualname)
        elif universal and sets_tc_else:
            rep.ok(rule2, "a constraint with a non-`always` part sets TRAJECTORY_CONSTRAINTS", kf.loc(i), construct=norm(t)[:90], function=kf.qualname)
        else:
            rep.inconclusive(rule2, "classification test not recognised", kf.loc(i), construct=norm(t)[:90], function=kf.qualname)
    _t18(idx, rep, "C10 T18 bounds-tested-with-is-None", "model.problem", "model.multi_agent.ma_problem")


# --------------------------------------------------------------------------------------------- C14
def c14(idx: Index, rep: Report, tier: str) -> None:
    # the only sanctioned caches of shared walkers are the FNode-keyed memoization and the expression table:
    # a functools cache keys by == / hash, which identifies 2, 2.0 and Fraction(2)
    rule = "C14.5 T11 no-hidden-caches-on-shared-walkers"
    fixture = ast.parse("class W:\n    @lru_cache(maxsize=None)\n    def _number_to_fnode(self, value):\n        return value\n").body[0].body[0]
    if not functools_cache_decorators(fixture):
        raise AnalysisError(f"{rule}: positive fixture no longer matches")
    dag = idx.cls("model.walkers.dag.DagWalker")
    classes = list(idx.subclasses(dag, strict=False)) + [idx.cls("model.expression.ExpressionManager"), idx.cls("model.walkers.dnf.Nnf")]
    n = 0
    for ci in classes:
        for m in ci.methods.values():
            n += 1
            d = functools_cache_decorators(m.node)
            if d:
                rep.bad(rule, f"{ci.name}.{m.name} carries no functools cache", m.loc(), construct=f"@{d[0]} on {ci.name}.{m.name}", detail="results of one call are served to later calls with arguments that merely compare equal (2 == Fraction(2) == 2.0): what a call returns depends on earlier calls on the same environment", function=m.qualname)
    rep.ok(rule, f"{n} methods of {len(classes)} shared walker / manager classes swept", dag.loc(), construct=f"{n} methods", function=dag.qualname)
    rep.count("walker_methods_swept", n)
    rep.require_min(rule, "walker_methods_swept", 300)


def c15(idx: Index, rep: Report, tier: str) -> None:
    _t18(idx, rep, "C15 T18 bounds-tested-with-is-None", "model.walkers.type_checker", "model.types", "model.type_manager")


def c17(idx: Index, rep: Report, tier: str) -> None:
    _t18(idx, rep, "C17 T18 bounds-tested-with-is-None", "model.walkers.linear_checker")


def c20(idx: Index, rep: Report, tier: str) -> None:
    _t18(idx, rep, "C20 T18 bounds-tested-with-is-None", "grpc.proto_reader", "grpc.proto_writer", "model.types")


EXTRA = {"C01": c01, "C02": c02, "C04": c04, "C05": c05, "C06": c06, "C10": c10, "C14": c14, "C15": c15, "C17": c17, "C20": c20}

# generic sibling / pairing sweeps, armed per property for the modules the property is anchored in
T20_SCOPE = {
    "C05": ("engines.plan_validator", "model.timing"),
    "C06": ("engines.compilers.utils", "engines.compilers.usertype_fluents_remover", "engines.compilers.grounder"),
    "C20": ("grpc.proto_writer", "grpc.proto_reader"),
    "C28": ("engines.compilers.timed_to_sequential",),
}
T21_SCOPE = {
    "C01": ("engines.sequential_simulator", "engines.mixins.sequential_simulator", "model.state"),
    "C03": ("engines.plan_validator",),
    "C06": ("engines.compilers",),
    "C09": ("engines.factory",),
    "C20": ("grpc.proto_writer", "grpc.proto_reader"),
    "C22": ("model.problem", "model.mixins", "model.action", "model.contingent", "model.htn", "model.multi_agent"),
    "C24": ("model.effect", "model.transition", "model.mixins.timed_conds_effs"),
    "C32": ("engines.factory",),
}


def run_extra(prop: str, idx: Index, rep: Report, tier: str) -> None:
    from ..rules2 import openness_pairing, swapped_arguments

    fn = EXTRA.get(prop)
    if fn is not None:
        fn(idx, rep, tier)
    if prop in T20_SCOPE:
        n = openness_pairing(rep, f"{prop} T20 openness-side-pairing", _funcs_of(idx, *T20_SCOPE[prop]))
        rep.count("openness_pairing_sites", n)
    if prop in T21_SCOPE:
        n = swapped_arguments(rep, f"{prop} T21 swapped-arguments", idx, _funcs_of(idx, *T21_SCOPE[prop]))
        rep.count("resolved_call_sites_checked_for_swaps", n)
        rep.ok(f"{prop} T21 swapped-arguments", f"{n} uniquely resolved call sites with >= 2 positional arguments: names agree with parameter positions", "unified_planning:0", construct=f"{n} call sites")
