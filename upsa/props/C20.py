"""C20 — protobuf round trip is lossless (structural clauses).

Decides: (1) T7: the writer's operator table (map_operator) and the reader's (op_to_node_type) are mutually
inverse on the writer's range; (2) T7 vocabulary of numeric type names: every token _IntType.__repr__ /
_RealType.__repr__ can emit inside the brackets ('-inf', 'inf') is handled by the reader branch of the same
numeric class in convert_type_str, and every literal type name proto_type returns for a declarable type has a
reader branch; (3) T6: TimepointKind, EffectKind (discrete kinds) and the quality-metric classes are covered on
both sides, and every proto message class a writer handler returns has a reader handler; definite assignment in
the if-chains that map enums; (4) T9: every plan class the writer handles has an __eq__ with a path returning
True; (5) T10 exact arithmetic in both files (rationals travel as numerator/denominator).
Does not decide: losslessness of concrete messages.
"""
from __future__ import annotations

import ast
import re
from typing import Dict, List, Optional, Set

from ..index import AnalysisError, ClassInfo, FuncInfo, Index, call_name, norm, str_consts, walk_no_nested
from ..report import Report
from ..rules import cfg_of, definite_assignment, exact_arithmetic

W = "grpc.proto_writer"
R = "grpc.proto_reader"


def ifchain_table(f: FuncInfo, var: str) -> Dict[str, str]:
    """`if var == K: return V` chains -> {norm(K): norm(V)}"""
    out: Dict[str, str] = {}
    for n in walk_no_nested(f.node):
        if isinstance(n, ast.If) and isinstance(n.test, ast.Compare) and len(n.test.ops) == 1 and isinstance(n.test.ops[0], ast.Eq) and norm(n.test.left) == var:
            rets = [s for s in n.body if isinstance(s, ast.Return) and s.value is not None]
            if rets:
                out[norm(n.test.comparators[0])] = norm(rets[0].value)
    return out


def eq_can_return_true(ci: ClassInfo) -> Optional[bool]:
    eq = ci.lookup("__eq__")
    if eq is None:
        return None
    for r in walk_no_nested(eq.node):
        if isinstance(r, ast.Return) and r.value is not None:
            v = r.value
            if isinstance(v, ast.Constant) and v.value is False:
                continue
            if isinstance(v, ast.Name) and v.id == "NotImplemented":
                continue
            return True
    return False


def run(idx: Index, rep: Report, tier: str) -> None:
    rep.explanation = __doc__.strip()
    # ---------------------------------------------------------------- (1) operator tables
    rule1 = "C20.1 T7 operator-tables-inverse"
    mo = idx.func(W + ".map_operator")
    on = idx.func(R + ".op_to_node_type")
    rep.note_function(mo.qualname)
    rep.note_function(on.qualname)
    wt = ifchain_table(mo, "op")
    rt = ifchain_table(on, "op")
    if len(wt) < 10 or len(rt) < 10:
        raise AnalysisError("anchor vanished: operator if-chains in map_operator / op_to_node_type")
    for k, v in sorted(wt.items()):
        back = rt.get(v)
        ok = back is not None and back.split(".")[-1] == k.split(".")[-1]
        rep.check(ok, rule1, f"writer {k.split('.')[-1]} -> {v} -> reader", mo.loc(), construct=f"{k} -> {v} -> {back}", detail="" if ok else f"the reader maps {v} to {back}: an expression with operator {k.split('.')[-1]} does not survive the round trip", function=on.qualname)
    vals = list(wt.values())
    rep.check(len(set(vals)) == len(vals), rule1, "writer operator names are pairwise distinct", mo.loc(), construct=f"{len(vals)} names", function=mo.qualname)
    rep.count("operators_in_writer_table", len(wt))

    # ---------------------------------------------------------------- (2) type-name vocabulary
    rule2 = "C20.2 T7 type-name-vocabulary"
    cts = idx.func(R + ".convert_type_str")
    pt = idx.func(W + ".proto_type")
    rep.note_function(cts.qualname)
    rep.note_function(pt.qualname)
    # branches of the reader: test text -> body
    from ..rules2 import dispatch_links

    branches = dispatch_links(cts.node.body)
    if len(branches) < 4:
        raise AnalysisError("anchor vanished: branches of convert_type_str")
    reader_consts = {c for b in branches for c in str_consts(b.test)}
    for cname, word in (("_IntType", "integer"), ("_RealType", "real")):
        tc = idx.cls("model.types." + cname)
        rp = tc.methods.get("__repr__")
        if rp is None:
            raise AnalysisError(f"anchor vanished: {cname}.__repr__")
        rep.note_function(rp.qualname)
        emitted = [s for s in str_consts(rp.node) if "inf" in s]
        base = [s for s in str_consts(rp.node) if s == word]
        rep.check(bool(base), rule2, f"{cname} prints as '{word}[...]' and the reader has a branch for 'up:{word}['", rp.loc(), construct=f"repr tokens {sorted(set(str_consts(rp.node)))}", function=rp.qualname)
        br = [b for b in branches if f"up:{word}[" in str_consts(b.test)]
        if not br:
            rep.bad(rule2, f"reader branch for bounded {word} types", cts.loc(), construct=f"no branch tests 'up:{word}['", detail=f"a bounded {word} type name is not recognised by the reader", function=cts.qualname)
            continue
        # the statements executed when the name has that prefix, whichever way the dispatch is written (elif body,
        # or the fall-through after `if not … in s: return …`)
        from ..rules import cfg_of as _cfg_of
        from ..rules2 import path_facts

        ccfg = _cfg_of(cts)
        handled = set()
        for nd in ccfg.nodes:
            if nd.ast is not None and nd.kind in ("stmt", "return") and any(f"up:{word}[" in txt and val for txt, val in path_facts(ccfg, nd)):
                handled |= set(str_consts(nd.ast))
        for tok in sorted(set(emitted)):
            ok = any(tok.strip() == h.strip() for h in handled)
            rep.check(ok, rule2, f"reader branch 'up:{word}[' handles the token '{tok}' that {cname}.__repr__ emits", cts.loc(br[0]), construct=f"'{tok}' vs handled {sorted(handled)}", detail="" if ok else f"a half-bounded {word} type is written as 'up:{word}[-inf, 5]' / 'up:{word}[0, inf]' but the reader passes the token to a number constructor: reading the message raises", function=cts.qualname)
    for lit in [c for c in str_consts(pt.node) if c.startswith("up:") and "{" not in c]:
        if lit in reader_consts:
            rep.ok(rule2, f"type name '{lit}' has a reader branch", cts.loc(), construct=lit, function=cts.qualname)
        else:
            rep.candidate("C20.2 type-name-vocabulary", cts.loc(), lit, "written by proto_type (for expression types) but convert_type_str has no branch; not armed: time is not a declarable fluent/parameter type")

    # ---------------------------------------------------------------- (3) coverage on both sides
    rule3 = "C20.3 T6 enum-and-message-coverage"
    tk = idx.cls("model.timing.TimepointKind")
    members = [t.id for s in tk.node.body if isinstance(s, ast.Assign) for t in s.targets if isinstance(t, ast.Name)]
    wtp = idx.func(W + ".ProtobufWriter._convert_timepoint")
    rtp = idx.func(R + ".ProtobufReader._convert_timepoint")
    for side, f in (("writer", wtp), ("reader", rtp)):
        rep.note_function(f.qualname)
        mentioned = {n.attr for n in walk_no_nested(f.node) if isinstance(n, ast.Attribute) and norm(n.value).endswith("TimepointKind")}
        for m in members:
            rep.check(m in mentioned, rule3, f"{side} _convert_timepoint handles TimepointKind.{m}", f.loc(), construct=m, detail="" if m in mentioned else f"timepoints of kind {m} are not converted", function=f.qualname)
    definite_assignment(rep, "C20.3 T5 definite-assignment", wtp)
    definite_assignment(rep, "C20.3 T5 definite-assignment", rtp)
    # effect kinds
    wef = idx.func(W + ".ProtobufWriter._convert_effect")
    ref = idx.func(R + ".ProtobufReader._convert_effect")
    wpreds = {c.func.attr for c in walk_no_nested(wef.node) if isinstance(c, ast.Call) and isinstance(c.func, ast.Attribute)}
    rkinds = {n.attr for n in walk_no_nested(ref.node) if isinstance(n, ast.Attribute) and norm(n.value).endswith("EffectKind")}
    for pred, kind in (("is_assignment", "ASSIGN"), ("is_increase", "INCREASE"), ("is_decrease", "DECREASE")):
        rep.check(pred in wpreds, rule3, f"writer _convert_effect handles {kind}", wef.loc(), construct=pred, function=wef.qualname)
        rep.check(kind in rkinds, rule3, f"reader _convert_effect handles {kind}", ref.loc(), construct=kind, function=ref.qualname)
    # metrics: every concrete PlanQualityMetric class has a writer handler
    wcls = idx.cls(W + ".ProtobufWriter")
    rcls = idx.cls(R + ".ProtobufReader")
    whandled: Dict[str, FuncInfo] = {}
    for m in wcls.methods.values():
        for d in m.node.decorator_list:
            if isinstance(d, ast.Call) and norm(d.func) == "handles":
                for a in d.args:
                    whandled[norm(a)] = m
    rhandled: Dict[str, FuncInfo] = {}
    for m in rcls.methods.values():
        for d in m.node.decorator_list:
            if isinstance(d, ast.Call) and norm(d.func) == "handles":
                for a in d.args:
                    rhandled[norm(a)] = m
    pqm = idx.cls("model.metrics.PlanQualityMetric")
    for sub in idx.subclasses(pqm):
        if sub.module is not pqm.module:
            continue
        ok = any(k.split(".")[-1] == sub.name for k in whandled)
        rep.check(ok, rule3, f"writer handles metric class {sub.name}", wcls.loc(), construct=sub.name, detail="" if ok else f"problems with a {sub.name} metric are converted through a parent handler or rejected", function=wcls.qualname)
    # metric kinds written are read
    wkinds = {n.attr for m in wcls.methods.values() for n in walk_no_nested(m.node) if isinstance(n, ast.Attribute) and norm(n.value) == "proto.Metric" and n.attr.isupper()}
    rm = rhandled.get("proto.Metric")
    rkinds2 = {n.attr for n in walk_no_nested(rm.node) if isinstance(n, ast.Attribute) and norm(n.value) == "proto.Metric" and n.attr.isupper()} | set(re.findall(r'Value\("([A-Z_]+)"\)', rm.module.seg(rm.node))) if rm else set()
    for k in sorted(wkinds):
        rep.check(k in rkinds2, rule3, f"reader handles metric kind {k}", rm.loc() if rm else rcls.loc(), construct=k, detail="" if k in rkinds2 else f"a metric written with kind {k} is not read back", function=rcls.qualname)
    # message classes returned by writer handlers have reader handlers
    aliases = {"proto.Effect": "proto.EffectExpression"}
    n_msg = 0
    for k, m in sorted(whandled.items()):
        ret = m.node.returns
        if ret is None:
            continue
        rtxt = norm(ret)
        if not rtxt.startswith("proto.") or "." in rtxt[len("proto."):]:
            continue
        n_msg += 1
        if rtxt in ("proto.Interval", "proto.Activity", "proto.Goal", "proto.TimedGoal", "proto.Schedule"):
            # nested messages read inline by their parent's handler
            used = any(rtxt.split(".")[-1].lower() in norm(n).lower() for mm in rcls.methods.values() for n in walk_no_nested(mm.node) if isinstance(n, ast.Attribute))
            rep.check(used, rule3, f"reader consumes {rtxt} (inline)", rcls.loc(), construct=rtxt, function=rcls.qualname)
            continue
        target = aliases.get(rtxt, rtxt)
        ok = target in rhandled or rtxt in rhandled
        rep.check(ok, rule3, f"reader has a handler for {rtxt} (written for {k})", rcls.loc(), construct=rtxt, detail="" if ok else f"objects of {k} are written as {rtxt}, which the reader cannot convert", function=rcls.qualname)
    rep.count("writer_message_kinds", n_msg)
    rep.require_min(rule3, "writer_message_kinds", 20)

    # ---------------------------------------------------------------- (4) T9 equality usable
    rule4 = "C20.4 T9 equality-can-hold"
    for k in sorted(whandled):
        if not k.startswith("unified_planning.plans."):
            continue
        name = k.split(".")[-1]
        cands = idx.classes_by_name.get(name, [])
        if not cands or name == "ActionInstance":
            continue
        ci = cands[0]
        v = eq_can_return_true(ci)
        if v is None:
            rep.inconclusive(rule4, f"{name} has no __eq__", ci.loc())
        else:
            rep.check(v, rule4, f"{name}.__eq__ has a path returning True", ci.loc(), construct=name, detail="" if v else "round-tripped objects can never compare equal", function=ci.qualname)
    for ci in idx.classes.values():
        if "__eq__" in ci.methods and eq_can_return_true(ci) is False:
            rep.candidate("T9 equality-can-hold", ci.methods["__eq__"].loc(), f"{ci.name}.__eq__", "every return is False (not a round-tripped class, reported for information)")

    # ---------------------------------------------------------------- (5) T10
    funcs = [f for f in idx.all_funcs() if f.module.name in ("unified_planning." + W, "unified_planning." + R)]
    n = exact_arithmetic(rep, "C20.5 T10 exact-arithmetic", funcs)
    rep.count("arithmetic_sites", n)
    fr = [c for f in funcs for c in walk_no_nested(f.node) if isinstance(c, ast.Call) and call_name(c) == "Real" and {k.arg for k in c.keywords} >= {"numerator", "denominator"}]
    rep.check(bool(fr), "C20.5 T10 exact-arithmetic", "rationals are written as numerator / denominator", wcls.loc(fr[0]) if fr else wcls.loc(), construct=norm(fr[0]) if fr else "", function=wcls.qualname)
    rr = rhandled.get("proto.Real")
    ok = rr is not None and any(isinstance(c, ast.Call) and call_name(c) == "Fraction" and len(c.args) == 2 and "numerator" in norm(c.args[0]) and "denominator" in norm(c.args[1]) for c in walk_no_nested(rr.node))
    rep.check(ok, "C20.5 T10 exact-arithmetic", "rationals are read as Fraction(numerator, denominator)", rr.loc() if rr else rcls.loc(), construct="Fraction(msg.numerator, msg.denominator)", function=rcls.qualname)
