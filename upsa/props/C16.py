"""C16 — expressions are hash-consed and constructors normalise as documented (structural clauses).

Decides: (1) T11 ownership: FNode(...) is constructed only in ExpressionManager.create_node; the fields
_content/_node_id/_env are stored only in FNode.__init__ and FNodeContent is never mutated; the expression table
and the id counter are written only in create_node; a table hit is returned before anything is allocated and the
id is consumed exactly once per new node; every create_node(args=...) call site passes a tuple;
(2) the documented normalisations exist as guarded early returns: And/Or/Plus/Times with zero arguments return
their neutral element and with one argument return it; Not of a Not returns the inner argument; GE and GT build
LE / LT with swapped arguments; (3) C14.3 (node stored only after type checking) is shared and reported there.
Does not decide: identity over construction histories.
"""
from __future__ import annotations

import ast

from ..index import AnalysisError, Index, call_name, norm, walk_no_nested
from ..report import Report
from ..rules import cfg_of, guards_dominating

EM = "model.expression.ExpressionManager"


def _origin_param(m, name: str, depth: int = 3):
    """Which parameter of m a local holds: the parameter itself, or position i of `… = self.auto_promote(p0, p1, …)`
    (auto_promote returns its arguments, promoted, in order)."""
    params = [p_ for p_ in m.params() if p_ != "self"]
    if depth == 0:
        return None
    origins = set()
    for a in walk_no_nested(m.node):
        if isinstance(a, ast.Assign) and len(a.targets) == 1 and isinstance(a.targets[0], (ast.Tuple, ast.List)) and isinstance(a.value, ast.Call) and call_name(a.value) == "auto_promote":
            for i, t in enumerate(a.targets[0].elts):
                if isinstance(t, ast.Name) and t.id == name and i < len(a.value.args) and isinstance(a.value.args[i], ast.Name):
                    src = a.value.args[i].id
                    origins.add(src if src in params and src != name else (_origin_param(m, src, depth - 1) if src != name else src))
    if not origins:
        return name if name in params else None
    return next(iter(origins)) if len(origins) == 1 else None


def run(idx: Index, rep: Report, tier: str) -> None:
    rep.explanation = __doc__.strip()
    rule1 = "C16.1 T11 ownership"
    cn = idx.func(EM + ".create_node")
    rep.note_function(cn.qualname)
    # FNode constructed only in create_node
    ctor_sites = []
    for f in idx.all_funcs():
        for c in walk_no_nested(f.node):
            if isinstance(c, ast.Call) and norm(c.func).split(".")[-1] == "FNode" and len(c.args) + len(c.keywords) == 3:
                ctor_sites.append((f, c))
    if not ctor_sites:
        raise AnalysisError("anchor vanished: no FNode(...) construction found")
    for f, c in ctor_sites:
        ok = f is cn
        rep.check(ok, rule1, "FNode is constructed only by ExpressionManager.create_node", f.loc(c), construct=f"{f.short}: {norm(c)[:80]}", detail="" if ok else "a node is created outside the hash-consing table: equal expressions can have distinct identities", function=f.qualname)
    # immutable fields
    for fld in ("_content", "_node_id", "_env"):
        writers = []
        for f in idx.all_funcs():
            for n in walk_no_nested(f.node):
                tg = []
                if isinstance(n, ast.Assign):
                    tg = n.targets
                elif isinstance(n, (ast.AugAssign, ast.AnnAssign)):
                    tg = [n.target]
                for t in tg:
                    if isinstance(t, ast.Attribute) and t.attr == fld and f.module.name.endswith("model.fnode"):
                        writers.append((f, n))
        ok = bool(writers) and all(f.name == "__init__" and f.cls is not None and f.cls.name == "FNode" for f, _ in writers)
        rep.check(ok, rule1, f"FNode.{fld} is stored only in FNode.__init__", writers[0][0].loc(writers[0][1]) if writers else "unified_planning/model/fnode.py:1", construct="; ".join(sorted({f.short for f, _ in writers})), detail="" if ok else "a node's operator, children or payload can change after creation", function="unified_planning.model.fnode.FNode")
    # outside fnode.py nobody assigns through ._content
    ext = []
    for f in idx.all_funcs():
        if f.module.name.endswith("model.fnode"):
            continue
        for n in walk_no_nested(f.node):
            tg = n.targets if isinstance(n, ast.Assign) else ([n.target] if isinstance(n, (ast.AugAssign, ast.AnnAssign)) else [])
            for t in tg:
                if isinstance(t, ast.Attribute) and ("_content" in norm(t)):
                    ext.append((f, n))
    rep.check(not ext, rule1, "no module outside fnode.py writes through ._content", ext[0][0].loc(ext[0][1]) if ext else "unified_planning/model/fnode.py:1", construct=norm(ext[0][1]) if ext else "", function="unified_planning")
    # table and counter written only in create_node
    em_cls = idx.cls(EM)
    for fld in ("expressions", "_next_free_id"):
        writers = []
        for m in em_cls.methods.values():
            for n in walk_no_nested(m.node):
                tg = n.targets if isinstance(n, ast.Assign) else ([n.target] if isinstance(n, (ast.AugAssign, ast.AnnAssign)) else [])
                for t in tg:
                    base = t.value if isinstance(t, ast.Subscript) else t
                    if isinstance(base, ast.Attribute) and norm(base) == f"self.{fld}":
                        writers.append((m, n))
        ok = bool(writers) and all(m.name in ("create_node", "__init__") for m, _ in writers)
        rep.check(ok, rule1, f"ExpressionManager.{fld} is written only by create_node (and __init__)", em_cls.loc(), construct="; ".join(sorted({m.name for m, _ in writers})), detail="" if ok else "the hash-consing table / id counter is modified elsewhere", function=em_cls.qualname)
    # table hit returned first; id consumed once per new node
    from ..roles import assigned_from_call, with_roles

    roles = {}
    for name, callee in assigned_from_call(cn.node, "FNodeContent").items():
        roles[name] = "content"
    for a in walk_no_nested(cn.node):
        if isinstance(a, ast.Assign) and isinstance(a.targets[0], ast.Name) and isinstance(a.value, ast.Call) and call_name(a.value) == "get" and norm(a.value.func.value) == "self.expressions":
            roles[a.targets[0].id] = "res"
    if "content" not in roles.values():
        raise AnalysisError("anchor vanished: create_node no longer builds an FNodeContent key")
    cn = with_roles(cn, roles)
    cfg = cfg_of(cn)
    news = [n for n in cfg.nodes if n.ast is not None and any(isinstance(c, ast.Call) and norm(c.func).split(".")[-1] == "FNode" for c in ast.walk(n.ast))]
    for n in news:
        gs = guards_dominating(cfg, n)
        ok = any(("res is not None" in norm(t.ast) and not outcome) or ("res is None" in norm(t.ast) and outcome) or (" not in self.expressions" in norm(t.ast) and outcome) or (" in self.expressions" in norm(t.ast) and " not in " not in norm(t.ast) and not outcome) for t, outcome in gs)
        rep.check(ok, rule1, "a new node is allocated only on a table miss", cn.loc(n.ast), construct=norm(n.ast)[:90], detail="" if ok else "a node is allocated although an equal one may exist", function=cn.qualname)
        call = [c for c in ast.walk(n.ast) if isinstance(c, ast.Call) and norm(c.func).split(".")[-1] == "FNode"][0]
        from ..dataflow import DefUse as _DU

        _du = _DU(cfg)
        id_from_counter = len(call.args) >= 2 and (norm(call.args[1]) == "self._next_free_id" or any(ch[:2] == ("self", "_next_free_id") for ch in _du.sources(call.args[1], n)))
        ok = len(call.args) >= 2 and norm(call.args[0]) == "content" and id_from_counter
        rep.check(ok, rule1, "the node carries the looked-up content and the next free id", cn.loc(call), construct=norm(call), function=cn.qualname)
    def _advances(a):
        # `self._next_free_id += 1`, or `self._next_free_id = <x> + 1` where <x> holds the counter (`fresh = self._next_free_id`)
        if isinstance(a, ast.AugAssign):
            return norm(a.target) == "self._next_free_id" and isinstance(a.op, ast.Add) and norm(a.value) == "1"
        if isinstance(a, ast.Assign) and len(a.targets) == 1 and norm(a.targets[0]) == "self._next_free_id" and isinstance(a.value, ast.BinOp) and isinstance(a.value.op, ast.Add):
            l, r = a.value.left, a.value.right
            one, other = (r, l) if norm(r) == "1" else (l, r) if norm(l) == "1" else (None, None)
            if one is None:
                return False
            if norm(other) == "self._next_free_id":
                return True
            return isinstance(other, ast.Name) and any(isinstance(b, ast.Assign) and len(b.targets) == 1 and norm(b.targets[0]) == other.id and norm(b.value) == "self._next_free_id" for b in walk_no_nested(cn.node))
        return False

    incs = [n for n in cfg.nodes if n.ast is not None and isinstance(n.ast, (ast.AugAssign, ast.Assign)) and (norm(n.ast.target) if isinstance(n.ast, ast.AugAssign) else norm(n.ast.targets[0])) == "self._next_free_id"]
    ok = len(incs) == 1 and _advances(incs[0].ast) and all(cfg.path_avoiding(nn, cfg.exit, set(incs)) is None or cfg.path_avoiding(incs[0], nn, set()) is not None for nn in news)
    rep.check(ok, rule1, "the id counter advances once per allocated node (ids are distinct)", cn.loc(incs[0].ast) if incs else cn.loc(), construct=norm(incs[0].ast) if incs else "", detail="" if ok else "two nodes can receive the same id", function=cn.qualname)
    stores = [n for n in cfg.nodes if isinstance(n.ast, ast.Assign) and any(isinstance(t, ast.Subscript) and norm(t.value) == "self.expressions" for t in n.ast.targets)]
    ok = bool(stores) and all(norm(s.ast.targets[0].slice) == "content" for s in stores)
    rep.check(ok, rule1, "the new node is entered under the content it was looked up with", cn.loc(stores[0].ast) if stores else cn.loc(), construct=norm(stores[0].ast) if stores else "", function=cn.qualname)
    # every create_node call passes a tuple for args
    n_sites = 0
    for m in em_cls.methods.values():
        local_tuples = {norm(a.targets[0]) for a in walk_no_nested(m.node) if isinstance(a, ast.Assign) and isinstance(a.value, ast.Call) and call_name(a.value) == "tuple"}
        for c in walk_no_nested(m.node):
            if isinstance(c, ast.Call) and call_name(c) == "create_node":
                n_sites += 1
                a = next((k.value for k in c.keywords if k.arg == "args"), c.args[1] if len(c.args) > 1 else None)
                ok = a is not None and (isinstance(a, ast.Tuple) or (isinstance(a, ast.Call) and call_name(a) == "tuple") or norm(a) in local_tuples or (isinstance(a, ast.Name) and a.id in ("args",) and False))
                if not ok and a is not None and isinstance(a, ast.Name):
                    rep.inconclusive(rule1, f"{m.name}: create_node args `{norm(a)}` not visibly a tuple", m.loc(c), construct=norm(c)[:90], function=m.qualname)
                else:
                    rep.check(ok, rule1, f"{m.name}: create_node receives a tuple of children", m.loc(c), construct=norm(c)[:90], detail="" if ok else "children passed as a list make FNodeContent unhashable / unequal", function=m.qualname)
    rep.count("create_node_sites", n_sites)
    rep.require_min(rule1, "create_node_sites", 25)

    # ---------------------------------------------------------------- (2) normalisations
    rule2 = "C16.2 documented-normalisations"
    neutral = {"And": "self.TRUE()", "Or": "self.FALSE()", "Plus": "self.Int(0)", "Times": "self.Int(1)"}
    for name, neut in neutral.items():
        m = idx.func(f"{EM}.{name}")
        rep.note_function(m.qualname)
        mc = cfg_of(m)
        got0 = got1 = False
        for n in mc.nodes:
            if n.kind != "return" or n.ast.value is None:
                continue
            from ..rules2 import path_facts

            gs = path_facts(mc, n)  # polarity-normalised: `if not len(x) == 1: … else: <here>` gives (len(x) == 1, True)
            if any(g.startswith("len(") and g.endswith("== 0") and o for g, o in gs) and norm(n.ast.value) == neut:
                got0 = True
            if any(g.startswith("len(") and g.endswith("== 1") and o for g, o in gs) and norm(n.ast.value).endswith("[0]"):
                got1 = True
        if not got1:
            # the one-argument case may sit in a private helper the method returns through
            emc = idx.cls(EM)
            for r_ in walk_no_nested(m.node):
                if isinstance(r_, ast.Return) and isinstance(r_.value, ast.Call) and isinstance(r_.value.func, ast.Attribute) and norm(r_.value.func.value) == "self" and r_.value.func.attr in emc.methods and r_.value.func.attr.startswith("_"):
                    h = emc.methods[r_.value.func.attr]
                    hcfg = cfg_of(h)
                    hp = [p_ for p_ in h.params() if p_ != "self"]
                    for hn in hcfg.nodes:
                        if hn.kind == "return" and hn.ast.value is not None and norm(hn.ast.value).endswith("[0]"):
                            base = norm(hn.ast.value)[:-3]
                            if base in hp and (f"len({base}) == 1", True) in path_facts(hcfg, hn):
                                got1 = True
        rep.check(got0, rule2, f"{name}() with no argument returns {neut.replace('self.', '')}", m.loc(), construct=f"len(args) == 0 -> {neut}", detail="" if got0 else "the documented zero-argument normalisation is missing or returns another constant", function=m.qualname)
        rep.check(got1, rule2, f"{name}(x) returns x", m.loc(), construct="len(args) == 1 -> args[0]", detail="" if got1 else "the documented one-argument normalisation is missing", function=m.qualname)
    m = idx.func(EM + ".Not")
    rep.note_function(m.qualname)
    mc = cfg_of(m)
    ok = False
    for n in mc.nodes:
        if n.kind == "return" and n.ast.value is not None and norm(n.ast.value).endswith(".arg(0)"):
            if any(norm(t.ast).endswith(".is_not()") and o for t, o in guards_dominating(mc, n)):
                ok = True
    rep.check(ok, rule2, "Not(Not(x)) returns x", m.loc(), construct="if expression.is_not(): return expression.arg(0)", detail="" if ok else "double negation is not collapsed", function=m.qualname)
    for name, op in (("GE", "LE"), ("GT", "LT")):
        m = idx.func(f"{EM}.{name}")
        rep.note_function(m.qualname)
        calls = [c for c in walk_no_nested(m.node) if isinstance(c, ast.Call) and call_name(c) == "create_node"]
        ok = False
        for c in calls:
            nt = next((k.value for k in c.keywords if k.arg == "node_type"), c.args[0] if c.args else None)
            a = next((k.value for k in c.keywords if k.arg == "args"), c.args[1] if len(c.args) > 1 else None)
            params_ = [p_ for p_ in m.params() if p_ != "self"]
            if nt is not None and norm(nt).endswith("OperatorKind." + op) and isinstance(a, ast.Tuple) and len(a.elts) == 2 and len(params_) >= 2 and all(isinstance(e, ast.Name) for e in a.elts) and [_origin_param(m, e.id) for e in a.elts] == [params_[1], params_[0]]:
                ok = True
        rep.check(ok, rule2, f"{name}(l, r) is built as {op}(r, l)", m.loc(), construct=norm(calls[0])[:90] if calls else "", detail="" if ok else f"{name} is not the mirrored {op}", function=m.qualname)
    for name, op in (("LE", "LE"), ("LT", "LT")):
        m = idx.func(f"{EM}.{name}")
        calls = [c for c in walk_no_nested(m.node) if isinstance(c, ast.Call) and call_name(c) == "create_node"]
        ok = False
        for c in calls:
            nt = next((k.value for k in c.keywords if k.arg == "node_type"), None)
            a = next((k.value for k in c.keywords if k.arg == "args"), None)
            params_ = [p_ for p_ in m.params() if p_ != "self"]
            if nt is not None and norm(nt).endswith("OperatorKind." + op) and isinstance(a, ast.Tuple) and len(a.elts) == 2 and len(params_) >= 2 and all(isinstance(e, ast.Name) for e in a.elts) and [_origin_param(m, e.id) for e in a.elts] == [params_[0], params_[1]]:
                ok = True
        rep.check(ok, rule2, f"{name}(l, r) keeps its argument order", m.loc(), construct=norm(calls[0])[:90] if calls else "", function=m.qualname)
