"""C05 — time-triggered validation matches the reference temporal semantics (structural clauses).

Decides: (1) T1: every datum the statement names is consulted by the methods of TimeTriggeredPlanValidator
(duration bounds and their openness, condition intervals and their openness, conditions, effects, simulated
effects, timed effects, timed goals, goals, state invariants, preconditions); (2) the openness -> strictness
table of the duration constraint (left-open -> GT else GE on .lower; right-open -> LT else LE on .upper);
(3) T2: conflicting simultaneous assignments raise in _apply_effects and _validate turns that (and an undefined
fluent) into an INVALID result; all effects of one instant are applied to one state in one call;
(4) T2: every VALID result is preceded on every path by the loop over the durative conditions and the loop
over the goals, and a failed condition returns INVALID; (5) T6 EffectKind coverage in _apply_effect;
(6) T5 definite assignment in _validate.
Does not decide: interval arithmetic, ordering of happenings, the verdict.
"""
from __future__ import annotations

import ast
from typing import List, Set

from ..dataflow import feasible_path
from ..index import AnalysisError, Index, call_name, norm, walk_no_nested
from ..report import Report
from ..rules import cfg_nodes_with_call, cfg_of, definite_assignment, guards_dominating, handler_type_names, path_text, raising_branch

TT = "engines.plan_validator.TimeTriggeredPlanValidator"


def _status_of_return(r: ast.Return) -> str:
    v = r.value
    if isinstance(v, ast.Call) and call_name(v) == "ValidationResult":
        for k in v.keywords:
            if k.arg == "status":
                return norm(k.value).split(".")[-1]
        if v.args:
            return norm(v.args[0]).split(".")[-1]
    return "?"


def run(idx: Index, rep: Report, tier: str) -> None:
    rep.explanation = __doc__.strip()
    cls = idx.cls(TT)
    val = idx.func(TT + "._validate")
    cfg = cfg_of(val)
    methods = [m for m in cls.methods.values()]
    for m in methods:
        rep.note_function(m.qualname)

    # ---- (1) data consulted
    rule1 = "C05.1 T1 datum-consulted"
    attrs: Set[str] = set()
    chains: Set[str] = set()
    for m in methods:
        for n in walk_no_nested(m.node):
            if isinstance(n, ast.Attribute):
                attrs.add(n.attr)
                chains.add(norm(n))
    want_attr = ["conditions", "effects", "simulated_effects", "simulated_effect", "preconditions", "timed_effects", "timed_goals", "goals", "state_invariants", "timed_actions"]
    for a in want_attr:
        rep.check(a in attrs, rule1, f"validator reads .{a}", val.loc(), construct=a, detail="" if a in attrs else f"no method of TimeTriggeredPlanValidator reads .{a}: that part of the plan/problem cannot influence the verdict", function=val.qualname)
    want_chain = ["duration.lower", "duration.upper", "duration.is_left_open", "duration.is_right_open", "interval.is_left_open", "interval.lower", "interval.upper", "timing.delay"]
    # the same through local aliases (`d = action.duration; d.lower`): chains with locals replaced by what they hold
    from ..dataflow import DefUse as _DU

    expanded: Set[str] = set()
    for m in methods:
        mcfg = cfg_of(m)
        mdu = _DU(mcfg)
        for nd in mcfg.nodes:
            if nd.ast is None:
                continue
            for n in ast.walk(nd.ast):
                if isinstance(n, ast.Attribute) and n.attr in ("lower", "upper", "is_left_open", "is_right_open", "delay") and not isinstance(n.value, ast.Attribute):
                    try:
                        for ch in mdu.expanded_chains(n, nd):
                            expanded.add(".".join(x.rstrip("()") for x in ch))
                    except Exception:
                        pass
    for c in want_chain:
        ok = any(ch.endswith(c) for ch in chains) or any(ch.endswith(c) for ch in expanded)
        rep.check(ok, rule1, f"validator reads {c}", val.loc(), construct=c, detail="" if ok else f"no method reads {c}", function=val.qualname)
    # timing kinds
    it = idx.func(TT + "._instantiate_timing")
    preds = {c.func.attr for c in walk_no_nested(it.node) if isinstance(c, ast.Call) and isinstance(c.func, ast.Attribute)}
    for p in ("is_from_start", "is_global"):
        rep.check(p in preds, rule1, f"_instantiate_timing distinguishes {p}", it.loc(), construct=p, function=it.qualname)

    # ---- (2) openness -> strictness table
    rule2 = "C05.2 T7 openness-strictness-table"
    table = {("is_left_open", True): ("GT", "lower"), ("is_left_open", False): ("GE", "lower"), ("is_right_open", True): ("LT", "upper"), ("is_right_open", False): ("LE", "upper")}
    seen = 0
    first_args: Set[str] = set()
    bound_names = {"lower": set(), "upper": set()}
    # the duration constraint is built in _validate or in a helper method of the validator it calls
    def _from_duration(e, host_cfg, host_du):
        if "duration" in norm(e):
            return True
        nds_ = host_cfg.node_containing(e)
        if not nds_:
            return False
        try:
            return any("duration" in x for ch in host_du.expanded_chains(e, nds_[0]) for x in ch)
        except Exception:
            return False

    host = val
    for m in methods:
        if any(isinstance(n, ast.If) and isinstance(n.test, ast.Call) and call_name(n.test) in ("is_left_open", "is_right_open") for n in walk_no_nested(m.node)) and any(isinstance(c, ast.Call) and call_name(c) in ("GT", "GE") for c in walk_no_nested(m.node)):
            host = m
            break
    hcfg = cfg_of(host)
    hdu = _DU(hcfg)
    for n in walk_no_nested(host.node):
        if isinstance(n, ast.If) and isinstance(n.test, ast.Call) and call_name(n.test) in ("is_left_open", "is_right_open") and _from_duration(n.test.func.value, hcfg, hdu):
            pred = call_name(n.test)
            for outcome, body in ((True, n.body), (False, n.orelse)):
                calls = [c for s in body for c in ast.walk(s) if isinstance(c, ast.Call) and call_name(c) in ("GT", "GE", "LT", "LE")]
                want_op, want_bound = table[(pred, outcome)]
                ok = len(calls) == 1 and call_name(calls[0]) == want_op and len(calls[0].args) == 2 and isinstance(calls[0].args[0], ast.Name) and isinstance(calls[0].args[1], ast.Attribute) and calls[0].args[1].attr == want_bound and _from_duration(calls[0].args[1].value, hcfg, hdu)
                seen += 1
                if ok:
                    first_args.add(calls[0].args[0].id)
                    for st in body:
                        if isinstance(st, ast.Assign) and isinstance(st.targets[0], ast.Name) and any(x is calls[0] for x in ast.walk(st.value)):
                            bound_names[want_bound].add(st.targets[0].id)
                rep.check(ok, rule2, f"duration constraint: {pred}()=={outcome} -> {want_op}(duration, duration.{want_bound})", val.loc(calls[0] if calls else n), construct=norm(calls[0]) if calls else "no comparison built", detail="" if ok else f"an action duration on the {'open' if outcome else 'closed'} {want_bound} bound is compared with the wrong strictness/bound", function=val.qualname)
    # the conditional-expression forms: `c = em.GT(d, I.lower) if I.is_left_open() else em.GE(d, I.lower)` and
    # `op = em.GT if I.is_left_open() else em.GE; c = op(d, I.lower)`
    OPS = ("GT", "GE", "LT", "LE")
    direct_calls: Dict[str, list] = {}
    if seen < 4:
        host = val if host is val else host
        for m in [host] + [m for m in methods if m is not host]:
            found_here = 0
            mcfg = cfg_of(m)
            mdu = _DU(mcfg)
            for st in walk_no_nested(m.node):
                if not (isinstance(st, ast.Assign) and isinstance(st.targets[0], ast.Name) and isinstance(st.value, ast.IfExp)):
                    continue
                ie = st.value
                if not (isinstance(ie.test, ast.Call) and call_name(ie.test) in ("is_left_open", "is_right_open") and isinstance(ie.test.func, ast.Attribute) and _from_duration(ie.test.func.value, mcfg, mdu)):
                    continue
                pred = call_name(ie.test)
                for outcome, e in ((True, ie.body), (False, ie.orelse)):
                    want_op, want_bound = table[(pred, outcome)]
                    op = args = None
                    result_name = st.targets[0].id
                    if isinstance(e, ast.Call) and call_name(e) in OPS:
                        op, args = call_name(e), e.args
                    elif isinstance(e, (ast.Attribute, ast.Name)) and (e.attr if isinstance(e, ast.Attribute) else e.id) in OPS:
                        uses = [c for c in walk_no_nested(m.node) if isinstance(c, ast.Call) and isinstance(c.func, ast.Name) and c.func.id == st.targets[0].id]
                        stores = [x for x in walk_no_nested(m.node) if isinstance(x, ast.Name) and isinstance(x.ctx, ast.Store) and x.id == st.targets[0].id]
                        if len(uses) == 1 and len(stores) == 1:
                            op, args = (e.attr if isinstance(e, ast.Attribute) else e.id), uses[0].args
                            direct_calls.setdefault(want_bound, []).append(uses[0])
                            for st2 in walk_no_nested(m.node):
                                if isinstance(st2, ast.Assign) and isinstance(st2.targets[0], ast.Name) and st2.value is uses[0]:
                                    result_name = st2.targets[0].id
                    ok = op == want_op and args is not None and len(args) == 2 and isinstance(args[0], ast.Name) and isinstance(args[1], ast.Attribute) and args[1].attr == want_bound and _from_duration(args[1].value, mcfg, mdu)
                    seen += 1
                    found_here += 1
                    if ok:
                        first_args.add(args[0].id)
                        bound_names[want_bound].add(result_name)
                    rep.check(ok, rule2, f"duration constraint: {pred}()=={outcome} -> {want_op}(duration, duration.{want_bound})", m.loc(st), construct=norm(st)[:120], detail="" if ok else f"an action duration on the {'open' if outcome else 'closed'} {want_bound} bound is compared with the wrong strictness/bound", function=val.qualname)
            if found_here:
                host = m
                break
    if seen < 4:
        raise AnalysisError(f"{rule2}: found {seen} of the 4 openness branches in {host.name} (anchor vanished)")
    # the two constraints are conjoined and registered as a condition of the action instance
    rep.check(len(first_args) == 1, rule2, "duration constraint: the four comparisons constrain the same value (the instance's duration)", val.loc(), construct=f"compared values: {len(first_args)} distinct name(s)", detail="" if len(first_args) == 1 else "the lower and the upper constraint are stated about different values", function=val.qualname)
    def _is_bound(a, side):  # the constraint of that side: the local it was bound to, or the comparison written in place
        return (isinstance(a, ast.Name) and a.id in bound_names[side]) or any(a is c_ for c_ in direct_calls.get(side, []))

    ands = [c for c in walk_no_nested(host.node) if isinstance(c, ast.Call) and call_name(c) == "And" and len(c.args) == 2 and any(_is_bound(a, "lower") for a in c.args) and any(_is_bound(a, "upper") for a in c.args)]
    rep.check(bool(ands), rule2, "duration constraint: lower and upper constraint conjoined", val.loc(ands[0]) if ands else val.loc(), construct=norm(ands[0]) if ands else "", detail="" if ands else "the lower and upper duration constraints are not both enforced", function=val.qualname)
    # condition interval openness is propagated
    ii = idx.func(TT + "._instantiate_interval")
    rets = [r for r in walk_no_nested(ii.node) if isinstance(r, ast.Return)]
    ok = any(isinstance(r.value, ast.Tuple) and len(r.value.elts) == 3 and norm(r.value.elts[2]) == "interval.is_left_open()" for r in rets)
    rep.check(ok, rule2, "_instantiate_interval propagates interval.is_left_open()", ii.loc(), construct=norm(rets[0].value) if rets else "", function=ii.qualname)
    # (how _states_in_interval samples closed and left-open intervals is decided exhaustively by C05.7)

    # ---- (3) conflicts
    rule3 = "C05.3 T2 simultaneous-effects-conflict"
    ae = idx.func(TT + "._apply_effects")
    raises = [r for r in walk_no_nested(ae.node) if isinstance(r, ast.Raise) and r.exc is not None and "UPConflictingEffectsException" in norm(r.exc)]
    # a raise inside a private helper of the validator counts once per call site in _apply_effects
    for c in walk_no_nested(ae.node):
        if isinstance(c, ast.Call) and isinstance(c.func, ast.Attribute) and norm(c.func.value) in ("self", "TimeTriggeredPlanValidator") and c.func.attr.startswith("_") and c.func.attr in cls.methods and c.func.attr != ae.node.name:
            hr = [r for r in walk_no_nested(cls.methods[c.func.attr].node) if isinstance(r, ast.Raise) and r.exc is not None and "UPConflictingEffectsException" in norm(r.exc)]
            raises += hr[:1]
    rep.check(len(raises) >= 2, rule3, "_apply_effects raises on double effects (effects and simulated effects)", ae.loc(raises[0]) if raises else ae.loc(), construct=f"{len(raises)} raise UPConflictingEffectsException", detail="" if len(raises) >= 2 else "conflicting assignments at one instant are not rejected on every branch", function=ae.qualname)
    aec = cfg_of(ae)
    mk = cfg_nodes_with_call(aec, "make_child")
    ok = len(mk) == 1 and norm(mk[0][1].func.value) == "state"
    rep.check(ok, rule3, "_apply_effects: all updates of an instant go into one child of the pre-state", ae.loc(mk[0][1]) if mk else ae.loc(), construct=norm(mk[0][1]) if mk else "", function=ae.qualname)
    # all evaluate calls in _apply_effect use the pre-state
    ap1 = idx.func(TT + "._apply_effect")
    for c in walk_no_nested(ap1.node):
        if isinstance(c, ast.Call) and call_name(c) == "evaluate":
            st = [k for k in c.keywords if k.arg == "state"]
            arg = norm(st[0].value) if st else (norm(c.args[1]) if len(c.args) > 1 else "?")
            rep.check(arg == "state", rule3, "_apply_effect evaluates in the pre-state of the instant", ap1.loc(c), construct=norm(c)[:90], function=ap1.qualname)
    for n, c in cfg_nodes_with_call(cfg, "_apply_effects"):
        kw = {k.arg: norm(k.value) for k in c.keywords}
        # roles: the running state (rebound from the result of _apply_effects) and the batch of the instant (a
        # list filled inside the `while … == time` loop)
        results = {norm(a.targets[0]) for a in walk_no_nested(val.node) if isinstance(a, ast.Assign) and isinstance(a.value, ast.Call) and call_name(a.value) == "_apply_effects"}
        running = {norm(a.targets[0]) for a in walk_no_nested(val.node) if isinstance(a, ast.Assign) and isinstance(a.targets[0], ast.Name) and norm(a.value) in results}
        batches = {norm(x.func.value) for w in walk_no_nested(val.node) if isinstance(w, ast.While) for x in ast.walk(w) if isinstance(x, ast.Call) and call_name(x) == "append" and isinstance(x.func.value, ast.Name) and x.args and isinstance(x.args[0], ast.Tuple) and len(x.args[0].elts) == 3}
        ok = kw.get("state") in running and kw.get("effects") in batches
        rep.check(ok, rule3, "_validate applies all effects of the instant together to the last state", val.loc(c), construct=norm(c)[:100], function=val.qualname)
        hs = [h for t in [x for x in ast.walk(val.node) if isinstance(x, ast.Try)] if any(y is c for s in t.body for y in ast.walk(s)) for h in t.handlers]
        for exc in ("UPConflictingEffectsException", "UPStateMissingFluentError"):
            hh = [h for h in hs if exc in handler_type_names(h)]
            ok = bool(hh) and all(any(isinstance(r, ast.Return) and _status_of_return(r) == "INVALID" for r in ast.walk(h)) for h in hh)
            rep.check(ok, rule3, f"_validate: {exc} at an instant -> INVALID", val.loc(hh[0]) if hh else val.loc(c), construct=f"except {exc}: return INVALID" if ok else "missing", detail="" if ok else f"{exc} raised while applying effects is not turned into an INVALID result", function=val.qualname)

    # ---- (4) VALID only after all checks
    rule4 = "C05.4 T2 VALID-after-all-checks"
    valid_rets = [n for n in cfg.nodes if n.kind == "return" and _status_of_return(n.ast) == "VALID"]
    if not valid_rets:
        raise AnalysisError("anchor vanished: no VALID return in TimeTriggeredPlanValidator._validate")
    # the list of timed conditions: the local list that receives (interval, id, condition, instance) tuples
    from collections import Counter

    cl = Counter(norm(c.func.value) for _, c in cfg_nodes_with_call(cfg, "append") if isinstance(c.func.value, ast.Name) and c.args and isinstance(c.args[0], ast.Tuple) and len(c.args[0].elts) == 4)
    if not cl:
        raise AnalysisError("anchor vanished: no list of (interval, id, condition, instance) tuples in _validate")
    cond_list = cl.most_common(1)[0][0]
    loops = {cond_list: None, "problem.goals": None}
    for n in cfg.nodes:
        if n.kind == "for":
            it_txt = norm(n.owner.iter)
            for k in loops:
                if it_txt == k:
                    loops[k] = n
    for k, l in loops.items():
        if l is None:
            rep.bad(rule4, f"loop over {k if k != cond_list else 'the timed conditions'} exists", val.loc(), construct=f"for ... in {k}", detail=f"_validate has no loop over {k}", function=val.qualname)
            continue
        for r in valid_rets:
            p = cfg.path_avoiding(cfg.entry, r, {l})
            rep.check(p is None, rule4, f"every path to VALID passes the loop over {k}", val.loc(r.ast), construct=f"for ... in {k}", detail="" if p is None else f"a VALID result can be returned without checking {k}", function=val.qualname, path=path_text(p) if p else None)
        # inside the loop a failed check returns INVALID
        verdicts = {norm(a.targets[0]) for s in l.owner.body for a in ast.walk(s) if isinstance(a, ast.Assign) and isinstance(a.value, ast.Call) and call_name(a.value) == "_check_condition"}
        tests = [t for t in cfg.nodes if t.kind == "test" and isinstance(t.ast, ast.UnaryOp) and isinstance(t.ast.op, ast.Not) and norm(t.ast.operand) in verdicts and any(x is t.owner for s in l.owner.body for x in ast.walk(s))]
        ok = bool(tests)
        for t in tests:
            inner = [r for s in t.owner.body for r in ast.walk(s) if isinstance(r, ast.Return)]
            ok = ok and bool(inner) and all(_status_of_return(r) == "INVALID" for r in inner)
            # no path through the True edge rejoins the loop without returning
            for s_ in cfg.g.successors(t):
                if cfg.g[t][s_].get("label") is True:
                    p = cfg.path_avoiding(s_, l, {n for n in cfg.nodes if n.kind == "return"}) if s_.kind != "return" else None
                    ok = ok and p is None
        rep.check(ok, rule4, f"{k}: an unsatisfied condition returns INVALID", val.loc(tests[0].ast) if tests else val.loc(l.owner), construct="if not is_satisfied: return INVALID", detail="" if ok else "a failed condition does not end validation with INVALID", function=val.qualname)
    # the condition check covers every state the interval helper yields, using that state
    for n, c in cfg_nodes_with_call(cfg, "_check_condition"):
        kw = {k.arg: norm(k.value) for k in c.keywords}
        encl = [l for l in cfg.nodes if l.kind == "for" and any(x is c for s in l.owner.body for x in ast.walk(s))]
        targets = {x.id for l in encl for x in ast.walk(l.owner.target) if isinstance(x, ast.Name)}
        results = {norm(a.targets[0]) for a in walk_no_nested(val.node) if isinstance(a, ast.Assign) and isinstance(a.value, ast.Call) and call_name(a.value) == "_apply_effects"}
        running = {norm(a.targets[0]) for a in walk_no_nested(val.node) if isinstance(a, ast.Assign) and isinstance(a.targets[0], ast.Name) and norm(a.value) in results}
        rep.check(kw.get("condition") in targets and (kw.get("state") in targets or kw.get("state") in running), rule4, "_check_condition receives the loop's state and condition", val.loc(c), construct=norm(c)[:100], function=val.qualname)
    # durative_conditions collects: duration constraint, conditions, preconditions, timed goals, invariants
    appended = [norm(c.args[0]) for _, c in cfg_nodes_with_call(cfg, "append") if norm(c.func.value) == cond_list and c.args]
    rep.check(len(appended) >= 5, rule4, "the list of timed conditions receives duration constraints, durative conditions, preconditions, timed goals and invariants", val.loc(), construct=f"{len(appended)} append sites", detail="" if len(appended) >= 5 else "one of the five condition sources is no longer registered", function=val.qualname)

    # ---- (5) T6 EffectKind
    rule5 = "C05.5 T6 effect-kinds"
    ek = idx.cls("model.effect.EffectKind")
    members = [t.id for s in ek.node.body if isinstance(s, ast.Assign) for t in s.targets if isinstance(t, ast.Name)]
    mentioned = {n.attr for n in walk_no_nested(ap1.node) if isinstance(n, ast.Attribute) and norm(n.value).endswith("EffectKind")}
    out_of_kind = {"CONTINUOUS_INCREASE", "CONTINUOUS_DECREASE"}  # continuous effects only occur in processes, outside supported_kind()
    for m in members:
        if m in out_of_kind:
            continue
        rep.check(m in mentioned, rule5, f"_apply_effect handles EffectKind.{m}", ap1.loc(), construct=m, detail="" if m in mentioned else f"effects of kind {m} are silently ignored", function=ap1.qualname)
    rep.count("effect_kinds", len(members))
    rep.require_min(rule5, "effect_kinds", 3)

    # ---- (6) T5
    definite_assignment(rep, "C05.6 T5 definite-assignment", val)
