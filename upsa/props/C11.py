"""C11 — simplification preserves the meaning of expressions (structural clauses).

Decides: (1) T10 exact arithmetic in walkers/simplifier.py (constants of any magnitude): no true division
unless an operand is provably a Fraction, no float(), no int(a / b); (2) T14 the occurs check of the
existential elimination in Simplifier.walk_exists / walk_forall-style rewriting: the membership test compares a
Variable with the free variables *of the value that is substituted in* (not an FNode with a set of Variables,
and not the free variables of another term) — otherwise the rewrite introduces a free variable;
(3) T6: Simplifier and QuantifierSimplifier have a handler for every OperatorKind.
Does not decide: semantic equivalence or idempotence.
"""
from __future__ import annotations

import ast
from typing import Optional

from ..index import AnalysisError, Index, call_name, norm, walk_no_nested
from ..report import Report
from ..rules import exact_arithmetic
from ..walkersdb import WalkerDB


def run(idx: Index, rep: Report, tier: str) -> None:
    rep.explanation = __doc__.strip()
    mod = idx.module("model.walkers.simplifier")
    funcs = [f for f in idx.all_funcs() if f.module is mod]
    n = exact_arithmetic(rep, "C11.1 T10 exact-arithmetic", funcs)
    rep.count("arithmetic_sites", n)
    # constant folding goes through Fraction / int only: every numeric literal produced is built by _number_to_fnode
    nt = idx.func("model.walkers.simplifier.Simplifier._number_to_fnode") if "unified_planning.model.walkers.simplifier.Simplifier._number_to_fnode" in idx.funcs else None
    if nt is not None:
        rep.note_function(nt.qualname)

    # ---------------------------------------------------------------- (2) occurs check
    rule2 = "C11.2 T14 occurs-check"
    we = idx.func("model.walkers.simplifier.Simplifier.walk_exists")
    rep.note_function(we.qualname)
    subs = [c for c in walk_no_nested(we.node) if isinstance(c, ast.Call) and call_name(c) == "substitute" and c.args and isinstance(c.args[0], ast.Dict) and len(c.args[0].keys) == 1]
    if not subs:
        raise AnalysisError("anchor vanished: `.substitute({variable: value})` in Simplifier.walk_exists")
    key, val = subs[0].args[0].keys[0], subs[0].args[0].values[0]
    if not (isinstance(key, ast.Name) and isinstance(val, ast.Name)):
        rep.inconclusive(rule2, "substitution map is not {name: name}", we.loc(subs[0]), construct=norm(subs[0]))
    else:
        # the scan for the equality (and with it the occurs check) may live in a private helper of the class that
        # returns (…, variable, value): then the helper is analysed, with its own names for the two
        scan = we
        tests = [c for c in walk_no_nested(we.node) if isinstance(c, ast.Compare) and len(c.ops) == 1 and isinstance(c.ops[0], (ast.NotIn, ast.In)) and isinstance(c.comparators[0], ast.Name)]
        def _occurs_in(fn, k):
            fv = {a.targets[0].id for a in walk_no_nested(fn.node) if isinstance(a, ast.Assign) and isinstance(a.targets[0], ast.Name) and isinstance(a.value, ast.Call) and call_name(a.value) == "get_free_variables"}
            return [c for c in walk_no_nested(fn.node) if isinstance(c, ast.Compare) and len(c.ops) == 1 and isinstance(c.ops[0], (ast.NotIn, ast.In)) and isinstance(c.comparators[0], ast.Name) and c.comparators[0].id in fv and any(isinstance(x, ast.Name) and x.id == k for x in ast.walk(c.left))]

        if not _occurs_in(we, key.id):
            from ..rules2 import through_helper

            sim_cls = idx.cls("model.walkers.simplifier.Simplifier")
            tk, tv = through_helper(sim_cls, we, key.id), through_helper(sim_cls, we, val.id)
            if tk is not None and tv is not None and tk[0] is tv[0]:
                scan = tk[0]
                rep.note_function(scan.qualname)
                key, val = ast.Name(id=tk[1], ctx=ast.Load()), ast.Name(id=tv[1], ctx=ast.Load())
                tests = [c for c in walk_no_nested(scan.node) if isinstance(c, ast.Compare) and len(c.ops) == 1 and isinstance(c.ops[0], (ast.NotIn, ast.In)) and isinstance(c.comparators[0], ast.Name)]
        fv_assign = {}
        for a in walk_no_nested(scan.node):
            if isinstance(a, ast.Assign) and isinstance(a.targets[0], ast.Name) and isinstance(a.value, ast.Call) and call_name(a.value) == "get_free_variables":
                fv_assign.setdefault(a.targets[0].id, []).append(a)
        occurs = [t for t in tests if t.comparators[0].id in fv_assign and any(isinstance(x, ast.Name) and x.id == key.id for x in ast.walk(t.left))]
        if not occurs:
            rep.bad(rule2, "walk_exists: occurs check before eliminating a variable by an equality", we.loc(subs[0]), construct=norm(subs[0]), detail=f"`{key.id}` is replaced by `{val.id}` without testing that `{key.id}` does not occur in `{val.id}`", function=we.qualname)
        for t in occurs:
            cont = t.comparators[0].id
            for a in fv_assign[cont]:
                arg = a.value.args[0] if a.value.args else None
                ok = isinstance(arg, ast.Name) and arg.id == val.id
                rep.check(ok, rule2, f"walk_exists: the occurs check consults the free variables of the substituted value `{val.id}`", we.loc(a), construct=norm(a), detail="" if ok else f"the free variables are computed from `{norm(arg) if arg is not None else '?'}`, not from `{val.id}`: a value that mentions the eliminated variable is accepted (or a harmless one rejected)", function=we.qualname)
            # element type: the container holds Variables (annotation of get_free_variables), the tested value must be a Variable
            left = t.left
            is_variable_obj = isinstance(left, ast.Call) and call_name(left) == "variable"
            fnode_like = isinstance(left, ast.Name) and any(isinstance(c, ast.Call) and isinstance(c.func, ast.Attribute) and isinstance(c.func.value, ast.Name) and c.func.value.id == left.id and c.func.attr in ("is_variable_exp", "variable") for c in walk_no_nested(we.node))
            ret_ann = ""
            for g in idx.methods_by_name.get("get_free_variables", []):
                if g.node.returns is not None:
                    ret_ann = norm(g.node.returns)
            holds_variables = "Variable" in ret_ann
            if not holds_variables:
                rep.inconclusive(rule2, "element type of get_free_variables() not readable from its annotation", we.loc(t), construct=ret_ann)
            else:
                ok = is_variable_obj and not fnode_like
                rep.check(ok, rule2, "walk_exists: the occurs check tests a Variable against the set of free Variables", we.loc(t), construct=norm(t), detail="" if ok else f"`{norm(left)}` is an expression node (FNode) while `{cont}` holds Variable objects ({ret_ann}): the membership test is constantly false, so the check never fires", function=we.qualname)

    # ---------------------------------------------------------------- (3) T6
    rule3 = "C11.3 T6 operator-exhaustiveness"
    db = WalkerDB(idx)
    for cname in ("model.walkers.simplifier.Simplifier", "model.walkers.quantifier_simplifier.QuantifierSimplifier"):
        ci = idx.cls(cname)
        un = db.unhandled(ci)
        for m in db.ops.members:
            rep.check(m not in un, rule3, f"{ci.name} handles OperatorKind.{m}", ci.loc(), construct=m, detail="" if m not in un else f"no walk function: expressions containing {m} fall into walk_error", function=ci.qualname)
    rep.count("operator_kinds", len(db.ops.members))
