"""C35 — the simulated execution environment is faithful to its contingent problem (structural clauses).

Decides: (1) T1: the deterministic clone gives every fluent the problem's declared default by consulting a
*per-fluent* default source (fluents_defaults / initial_value / initial_values) — the per-type table alone cannot
reproduce a default declared for one fluent; explicit initial values of non-hidden fluents are copied;
(2) T1: the hidden initial state is drawn from a formula that contains every oneof constraint (as exactly-one)
and every or constraint (as a disjunction) over the hidden fluents, and every drawn value is written to the
deterministic problem before the simulator is created; (3) T2 in apply: the action is executed by the sequential
simulator on the current state, an inapplicable action raises, the state is advanced before observations are
read, and observations are the sensed fluents' values in that state.
Does not decide: the distribution of the hidden state or simulator semantics (C01).
"""
from __future__ import annotations

import ast

from ..index import AnalysisError, Index, call_name, norm, walk_no_nested
from ..report import Report
from ..rules import cfg_nodes_with_call, cfg_of, path_text

ENV = "model.contingent.execution_environment.SimulatedExecutionEnvironment"


def run(idx: Index, rep: Report, tier: str) -> None:
    rep.explanation = __doc__.strip()
    rule1 = "C35.1 T1 declared-defaults-consulted"
    f = idx.func(ENV + "._get_stateless_deterministic_problem_clone")
    rep.note_function(f.qualname)
    attrs = {n.attr for n in walk_no_nested(f.node) if isinstance(n, ast.Attribute)}
    calls = {call_name(c) for c in walk_no_nested(f.node) if isinstance(c, ast.Call)}
    per_fluent = {"fluents_defaults", "_fluents_defaults", "initial_values"} & attrs or ({"initial_value"} & calls)
    adds = [c for c in walk_no_nested(f.node) if isinstance(c, ast.Call) and call_name(c) == "add_fluent"]
    if not adds:
        raise AnalysisError("anchor vanished: add_fluent in _get_stateless_deterministic_problem_clone")
    rep.check(bool(per_fluent), rule1, "a per-fluent default source is consulted", f.loc(adds[0]), construct=f"reads {sorted(({'fluents_defaults', 'initial_defaults', 'initial_values', 'explicit_initial_values'} & attrs))}", detail="" if per_fluent else "only the per-type table initial_defaults is read: a default declared for one fluent (add_fluent(f, default_initial_value=True)) is replaced by the type default / False", function=f.qualname)
    rep.check("initial_defaults" in attrs or bool(per_fluent), rule1, "the per-type defaults are consulted", f.loc(), construct="initial_defaults", function=f.qualname)
    loops = [l for l in walk_no_nested(f.node) if isinstance(l, ast.For) and "explicit_initial_values" in norm(l.iter)]
    ok = bool(loops) and any(isinstance(c, ast.Call) and call_name(c) == "set_initial_value" for l in loops for c in ast.walk(l)) and any("hidden_fluents" in norm(t) for l in loops for t in ast.walk(l) if isinstance(t, ast.Compare))
    rep.check(ok, rule1, "explicit initial values of non-hidden fluents are copied", f.loc(loops[0]) if loops else f.loc(), construct=norm(loops[0].iter) if loops else "", function=f.qualname)
    floop = [l for l in walk_no_nested(f.node) if isinstance(l, ast.For) and norm(l.iter) == "problem.fluents"]
    rep.check(bool(floop), rule1, "every fluent of the problem is declared in the clone", f.loc(floop[0]) if floop else f.loc(), construct="for fluent in problem.fluents", function=f.qualname)

    rule2 = "C35.2 T1 hidden-state-satisfies-constraints"
    g = idx.func(ENV + "._randomly_set_full_initial_state")
    rep.note_function(g.qualname)
    # role: the constraint list is what the conjunction handed to all_smt is built from
    ch0 = [c for c in walk_no_nested(g.node) if isinstance(c, ast.Call) and call_name(c) == "all_smt" and c.args and isinstance(c.args[0], ast.Call) and call_name(c.args[0]) == "And" and c.args[0].args and isinstance(c.args[0].args[0], ast.Name)]
    if not ch0:
        raise AnalysisError("anchor vanished: all_smt(And(<constraints>), …) in _randomly_set_full_initial_state")
    clist = ch0[0].args[0].args[0].id
    for attr, ctor in (("oneof_constraints", "ExactlyOne"), ("or_constraints", "Or")):
        loops = [l for l in walk_no_nested(g.node) if isinstance(l, ast.For) and norm(l.iter) == f"problem.{attr}"]
        ok = bool(loops) and any(isinstance(c, ast.Call) and call_name(c) == "append" and norm(c.func.value) == clist and isinstance(c.args[0], ast.Call) and call_name(c.args[0]) == ctor for l in loops for c in ast.walk(l))
        rep.check(ok, rule2, f"every {attr[:-12]} constraint enters the formula as {ctor}", g.loc(loops[0]) if loops else g.loc(), construct=f"for c in problem.{attr}: constraints.append({ctor}(args))", detail="" if ok else f"the drawn hidden state need not satisfy the {attr}", function=g.qualname)
        # negated literals keep their polarity
        for l in loops:
            ifs = [i for i in ast.walk(l) if isinstance(i, ast.If) and norm(i.test).endswith(".is_not()")]
            ok2 = bool(ifs) and all(any(isinstance(c, ast.Call) and call_name(c) == "Not" for s in i.body for c in ast.walk(s)) and not any(isinstance(c, ast.Call) and call_name(c) == "Not" for s in i.orelse for c in ast.walk(s)) for i in ifs)
            rep.check(ok2, rule2, f"{attr}: negated literals are translated with Not, positive ones without", g.loc(l), construct="if x.is_not(): Not(sym[x.arg(0)]) else: sym[x]", function=g.qualname)
    ch = [c for c in walk_no_nested(g.node) if isinstance(c, ast.Call) and call_name(c) == "all_smt"]
    ok = bool(ch) and all(isinstance(c.args[0], ast.Call) and call_name(c.args[0]) == "And" and norm(c.args[0].args[0]) == clist for c in ch)
    rep.check(ok, rule2, "the state is drawn among the models of the conjunction of all constraints", g.loc(ch[0]) if ch else g.loc(), construct=norm(ch[0])[:90] if ch else "", function=g.qualname)
    sets = [c for c in walk_no_nested(g.node) if isinstance(c, ast.Call) and call_name(c) == "set_initial_value" and "_deterministic_problem" in norm(c.func.value)]
    rep.check(bool(sets), rule2, "every drawn value is written to the deterministic problem", g.loc(sets[0]) if sets else g.loc(), construct=norm(sets[0]) if sets else "", function=g.qualname)
    init = idx.func(ENV + ".__init__")
    rep.note_function(init.qualname)
    icfg = cfg_of(init)
    rnd = [n for n, c in cfg_nodes_with_call(icfg, "_randomly_set_full_initial_state")]
    sim = [n for n, c in cfg_nodes_with_call(icfg, "UPSequentialSimulator")]
    ok = bool(rnd) and bool(sim) and all(icfg.path_avoiding(icfg.entry, s, set(rnd)) is None for s in sim)
    rep.check(ok, rule2, "the simulator (and its initial state) is created after the hidden state was fixed", init.loc(sim[0].ast) if sim else init.loc(), construct="_randomly_set_full_initial_state precedes UPSequentialSimulator(...)", detail="" if ok else "the simulator caches an initial state that lacks the hidden values", function=init.qualname)

    rule3 = "C35.3 T2 apply-delegates-and-observes"
    ap = idx.func(ENV + ".apply")
    rep.note_function(ap.qualname)
    cfg = cfg_of(ap)
    sims = [(n, c) for n, c in cfg_nodes_with_call(cfg, "apply") if norm(c.func.value) == "self._simulator"]
    if not sims:
        raise AnalysisError("anchor vanished: self._simulator.apply in SimulatedExecutionEnvironment.apply")
    n0, c0 = sims[0]
    ok = norm(c0.args[0]) == "self._state" and "actual_parameters" in norm(c0.args[-1])
    rep.check(ok, rule3, "the action is executed by the sequential simulator on the current state", ap.loc(c0), construct=norm(c0), function=ap.qualname)
    st = [n for n in cfg.nodes if isinstance(n.ast, ast.Assign) and norm(n.ast.targets[0]) == "self._state"]
    ok = bool(st) and all(norm(n.ast.value) == norm(n0.ast.targets[0]) for n in st if isinstance(n0.ast, ast.Assign))
    rep.check(ok, rule3, "the environment's state becomes the simulator's successor", ap.loc(st[0].ast) if st else ap.loc(), construct=norm(st[0].ast) if st else "", function=ap.qualname)
    tests = [t for t in cfg.nodes if t.kind == "test" and norm(t.ast).endswith("is None")]
    from ..rules import raising_branch
    ok = bool(tests) and all(raising_branch(cfg, t, True) for t in tests)
    rep.check(ok, rule3, "an inapplicable action raises", ap.loc(tests[0].ast) if tests else ap.loc(), construct=norm(tests[0].ast) if tests else "", function=ap.qualname)
    obs = [(n, c) for n, c in cfg_nodes_with_call(cfg, "get_value")]
    # a StateEvaluator reads the state it is given: evaluate(<expression>, <state>)
    evs = [(n, c) for n, c in cfg_nodes_with_call(cfg, "evaluate") if len(c.args) + len(c.keywords) >= 2]
    if not obs and not evs:
        raise AnalysisError(f"{rule3}: apply() no longer reads an observation through get_value / evaluate")
    for n, c in evs:
        st_arg = c.args[1] if len(c.args) >= 2 else next((k.value for k in c.keywords if k.arg == "state"), None)
        ok = st_arg is not None and norm(st_arg) == "self._state"
        p = None
        for s_ in st:
            p = p or cfg.path_avoiding(cfg.entry, n, {s_})
        rep.check(ok and p is None, rule3, "observations are evaluated in the state after the action", ap.loc(c), construct=norm(c), detail="" if ok and p is None else "an observation can be evaluated in another state than the one the action led to", function=ap.qualname, path=path_text(p) if p else None)
    for n, c in obs:
        ok = norm(c.func.value) == "self._state"
        p = None
        for s in st:
            p = p or cfg.path_avoiding(cfg.entry, n, {s})
        rep.check(ok and p is None, rule3, "observations are read from the state after the action", ap.loc(c), construct=norm(c), detail="" if ok and p is None else "an observation can be read from the state before the action was applied", function=ap.qualname, path=path_text(p) if p else None)
    of = [l for l in cfg.nodes if l.kind == "for" and "observed_fluents" in norm(l.owner.iter)]
    rep.check(bool(of), rule3, "observations range over the sensing action's observed fluents", ap.loc(of[0].owner) if of else ap.loc(), construct=norm(of[0].owner.iter) if of else "", function=ap.qualname)
    sub = [c for _, c in cfg_nodes_with_call(cfg, "substitute")]
    maps = {norm(a.targets[0] if isinstance(a, ast.Assign) else a.target) for a in walk_no_nested(ap.node) if isinstance(a, (ast.Assign, ast.AnnAssign)) and a.value is not None and any(isinstance(x, ast.Attribute) and x.attr == "actual_parameters" for x in ast.walk(a.value)) and any(isinstance(x, ast.Call) and call_name(x) == "zip" for x in ast.walk(a.value))}
    rep.check(bool(sub) and all(c.args and norm(c.args[0]) in maps for c in sub), rule3, "observed fluents are grounded with the action's actual parameters", ap.loc(sub[0]) if sub else ap.loc(), construct=norm(sub[0]) if sub else "", function=ap.qualname)
    gr = idx.func(ENV + ".is_goal_reached")
    ok = any(isinstance(c, ast.Call) and call_name(c) == "is_goal" and norm(c.args[0]) == "self._state" for c in walk_no_nested(gr.node))
    rep.check(ok, rule3, "goal test delegates to the simulator on the current state", gr.loc(), construct="self._simulator.is_goal(self._state)", function=gr.qualname)
