"""C04 — time-triggered and sequential validation agree on instantaneous plans (structural clause).

Decides the clause the property spells out: *both validators enforce bounded numeric types and state
invariants*. T1 must-consult with two entry points (SequentialPlanValidator._validate and
TimeTriggeredPlanValidator._validate): in the call-graph closure of each (expression infrastructure excluded:
its reads of lower_bound concern the type of an expression, not a fluent's declared range) some function reads
problem.state_invariants and some function reads the bounds of the problem's fluents
(<problem>.fluents -> element -> .type -> .lower_bound / .upper_bound) and turns them into a checked condition.
Does not decide: equality of the two verdicts.
"""
from __future__ import annotations

import ast
from typing import Dict, List, Optional, Tuple

from ..callgraph import CallGraph
from ..dataflow import DefUse
from ..index import FuncInfo, Index, norm, walk_no_nested
from ..report import Report
from ..rules import cfg_of

EXPR_INFRA = (
    "unified_planning.model.walkers",
    "unified_planning.model.expression",
    "unified_planning.model.fnode",
    "unified_planning.model.types",
    "unified_planning.model.type_manager",
    "unified_planning.model.operators",
)
ENTRY = {
    "sequential": "engines.plan_validator.SequentialPlanValidator._validate",
    "time-triggered": "engines.plan_validator.TimeTriggeredPlanValidator._validate",
}


def fluent_bound_reads(f: FuncInfo, bound: str) -> List[Tuple[ast.AST, str]]:
    """Reads of `.bound` in f whose receiver derives from an element of `<x>.fluents` through `.type`."""
    hits = []
    attrs = [n for n in walk_no_nested(f.node) if isinstance(n, ast.Attribute) and n.attr == bound and isinstance(n.ctx, ast.Load)]
    if not attrs:
        return hits
    cfg = cfg_of(f)
    du = DefUse(cfg)
    for a in attrs:
        for node in cfg.node_containing(a):
            for ch in du.expanded_chains(a, node):
                if ch[-1] == bound and "type" in ch and ("fluents" in ch or "fluent()" in ch) :
                    hits.append((a, ".".join(ch)))
                    break
    return hits


def run(idx: Index, rep: Report, tier: str) -> None:
    rep.explanation = __doc__.strip()
    cg = CallGraph(idx)
    for label, q in ENTRY.items():
        root = idx.func(q)
        cl = cg.closure([root], exclude_module_prefixes=EXPR_INFRA, by_name=(tier == "quick" or True))
        rep.extra.setdefault("closure_sizes", {})[label] = len(cl)
        for qn in cl:
            rep.note_function(qn)
        # state invariants
        rule = "C04 T1 must-consult state_invariants"
        hit = None
        for qn, (f, _) in cl.items():
            for n in walk_no_nested(f.node):
                if isinstance(n, ast.Attribute) and n.attr == "state_invariants" and isinstance(n.ctx, ast.Load):
                    hit = (f, n)
                    break
            if hit:
                break
        rep.check(hit is not None, rule, f"{label} validator reads problem.state_invariants", hit[0].loc(hit[1]) if hit else root.loc(), construct=norm(hit[1]) if hit else "no read of .state_invariants in the closure", detail="" if hit else f"no function reachable from {root.short} reads the problem's state invariants", function=root.qualname, path=cg.chain_to(cl, hit[0].qualname) if hit else None)
        for bound in ("lower_bound", "upper_bound"):
            rule = "C04 T1 must-consult fluent bounds"
            found: Optional[Tuple[FuncInfo, ast.AST, str]] = None
            for qn, (f, _) in cl.items():
                hs = fluent_bound_reads(f, bound)
                if hs:
                    found = (f, hs[0][0], hs[0][1])
                    break
            rep.check(
                found is not None,
                rule,
                f"{label} validator reads the {bound} of the problem's numeric fluents",
                found[0].loc(found[1]) if found else root.loc(),
                construct=found[2] if found else f"no read of <fluent>.type.{bound} in the closure of {root.short}",
                detail="" if found else f"no function reachable from {root.short} ({len(cl)} functions, expression infrastructure excluded) reads a fluent's {bound}: bounded numeric types are not enforced by this validator",
                function=root.qualname,
                path=cg.chain_to(cl, found[0].qualname) if found else None,
            )
