"""C23 — the model only stores type-correct values (structural clauses).

Decides: (1) T2 guarded store: every store into the initial-value map, the per-fluent defaults and the
per-type defaults (in unified_planning/model) is dominated by a type-compatibility test on the stored value whose
failing branch raises, and by a constant-ness test — unless the stored value is itself read from one of those
checked maps; (2) every Effect(...) built by the add_*effect family is dominated by such a compatibility test;
(3) ActionInstance checks compatibility and constant-ness of every actual parameter; (4) T3: in those methods
nothing is written to the model on a path that later raises (a rejected call leaves the model unchanged).
Does not decide: compatibility of concrete values.
"""
from __future__ import annotations

import ast
from typing import List, Set, Tuple

from ..index import AnalysisError, FuncInfo, Index, call_name, norm, walk_no_nested
from ..report import Report
from ..rules import cfg_of, guards_dominating, path_text, raising_branch, tracked_writes, writes_then_raises

TRACKED = ("_initial_value", "_fluents_defaults", "_initial_defaults")


def _guard_facts(cfg, node) -> List[Tuple[str, bool, bool]]:
    """(test text, outcome that leads to node, other outcome raises)"""
    out = []
    # a single-assignment local used as a flag in a test stands for what it was bound to (`ok = a.is_compatible(b)`)
    binds = {}
    for m in cfg.nodes:
        if m.kind == "stmt" and isinstance(m.ast, ast.Assign) and len(m.ast.targets) == 1 and isinstance(m.ast.targets[0], ast.Name):
            binds.setdefault(m.ast.targets[0].id, []).append(m.ast.value)
    for t, outcome in guards_dominating(cfg, node):
        txt = norm(t.ast)
        for x in ast.walk(t.ast):
            if isinstance(x, ast.Name) and len(binds.get(x.id, ())) == 1:
                txt += f" [{x.id} = {norm(binds[x.id][0])}]"
        out.append((txt, outcome, raising_branch(cfg, t, not outcome) or _all_paths_raise(cfg, t, not outcome)))
    return out


def _all_paths_raise(cfg, test, outcome: bool) -> bool:
    """Every path that leaves `test` by `outcome` ends in a raise (no path reaches the normal exit)."""
    starts = [s_ for s_ in cfg.g.successors(test) if cfg.g[test][s_].get("label") is outcome or (isinstance(cfg.g[test][s_].get("label"), tuple) and outcome in cfg.g[test][s_].get("label"))]
    if not starts:
        return False
    seen, todo = set(), list(starts)
    while todo:
        n = todo.pop()
        if n in seen:
            continue
        seen.add(n)
        if n is cfg.exit:
            return False
        if n.kind == "return":
            return False
        todo += list(cfg.g.successors(n))
    return True


def _has_guard(facts, needle: str, value_names: Set[str]) -> bool:
    for txt, outcome, other_raises in facts:
        if needle in txt and other_raises and (not value_names or any(v in txt for v in value_names)):
            return True
    return False


def _guarded_on_every_feasible_path(cfg, node, needle: str, value_names: Set[str]) -> bool:
    """Every feasible path from the entry to `node` passes a test that mentions `needle` (and the stored
    value) and whose other outcome raises. Uses the light path-sensitivity of dataflow.feasible_path, so a
    check placed under `if x is not None:` guards a store placed under a later `if v is not None:` when v is
    only bound in the first branch."""
    from ..dataflow import feasible_path

    tests = []
    for t in cfg.nodes:
        if t.kind == "test" and needle in norm(t.ast) and (not value_names or any(v in norm(t.ast) for v in value_names)):
            if raising_branch(cfg, t, True) or raising_branch(cfg, t, False):
                tests.append(t)
    if not tests:
        return False
    return feasible_path(cfg, cfg.entry, node, avoid=set(tests)) is None


def run(idx: Index, rep: Report, tier: str) -> None:
    rep.explanation = __doc__.strip()
    rule1 = "C23.1 T2 guarded-store"
    n_sites = 0
    for f in idx.all_funcs():
        if not f.module.name.startswith("unified_planning.model") or f.name in ("_clone_to", "clone"):
            continue
        stores = []
        for n in walk_no_nested(f.node):
            if isinstance(n, ast.Assign):
                for t in n.targets:
                    if isinstance(t, ast.Subscript) and isinstance(t.value, ast.Attribute) and norm(t.value.value) == "self" and t.value.attr in TRACKED:
                        stores.append((n, t))
        if not stores:
            continue
        cfg = cfg_of(f)
        rep.note_function(f.qualname)
        ordinal = 0
        for st, tgt in stores:
            n_sites += 1
            ordinal += 1
            fld = tgt.value.attr
            val = st.value
            # value copied from another checked map
            if isinstance(val, ast.Subscript) and isinstance(val.value, ast.Attribute) and val.value.attr in TRACKED:
                rep.ok(rule1, f"{f.short}: store #{ordinal} into {fld} copies an already checked value", f.loc(st), construct=norm(st), function=f.qualname)
                continue
            node = cfg.nodes_for(st)[0]
            facts = _guard_facts(cfg, node)
            names = {x.id for x in ast.walk(val) if isinstance(x, ast.Name)}
            compat = _has_guard(facts, "is_compatible", names) or _guarded_on_every_feasible_path(cfg, node, "is_compatible", names)
            const = _has_guard(facts, "is_constant", names) or _guarded_on_every_feasible_path(cfg, node, "is_constant", names)
            # a loop over the arguments that raises on non-constants does not concern the stored value
            rep.check(compat, rule1, f"{f.short}: store #{ordinal} into {fld} is guarded by a type-compatibility test", f.loc(st), construct=f"{norm(st)} [#{ordinal} in {f.short}]", detail="" if compat else f"`{norm(val)}` is stored without testing that its type is compatible with the fluent/type it is stored for (a Boolean fluent accepts the default 5)", function=f.qualname)
            rep.check(const, rule1, f"{f.short}: store #{ordinal} into {fld} is guarded by a constant-ness test", f.loc(st), construct=f"{norm(st)} [#{ordinal} in {f.short}] is_constant", detail="" if const else f"`{norm(val)}` is stored as an initial value/default without testing that it is a constant", function=f.qualname)
    rep.count("tracked_store_sites", n_sites)
    rep.require_min(rule1, "tracked_store_sites", 4)

    # ---------------------------------------------------------------- (2) Effect construction
    rule2 = "C23.2 T2 effect-value-compatible"
    n_eff = 0
    for f in idx.all_funcs():
        if not f.module.name.startswith("unified_planning.model"):
            continue
        if not (f.name.startswith("add_") and "effect" in f.name) and f.name not in ("_add_continuous_effect",):
            continue
        ctor = [c for c in walk_no_nested(f.node) if isinstance(c, ast.Call) and norm(c.func).split(".")[-1] == "Effect"]
        if not ctor:
            continue
        cfg = cfg_of(f)
        rep.note_function(f.qualname)
        for c in ctor:
            n_eff += 1
            nodes = cfg.node_containing(c)
            facts = _guard_facts(cfg, nodes[0]) if nodes else []
            names = {norm(a) for a in c.args[:2]}
            ok = _has_guard(facts, "is_compatible", set())
            rep.check(ok, rule2, f"{f.short}: Effect(...) is built only after the value passed the compatibility test", f.loc(c), construct=norm(c)[:100], detail="" if ok else "an effect with a value of an incompatible type can be added", function=f.qualname)
    rep.count("effect_constructions", n_eff)
    rep.require_min(rule2, "effect_constructions", 6)

    # ---------------------------------------------------------------- (3) ActionInstance
    rule3 = "C23.3 action-instance-parameters-checked"
    ai = idx.func("plans.plan.ActionInstance.__init__")
    rep.note_function(ai.qualname)
    cfg = cfg_of(ai)
    loops = [l for l in cfg.nodes if l.kind == "for" and "parameters" in norm(l.owner.iter) and "_params" in norm(l.owner.iter)]
    ok = bool(loops)
    rep.check(ok, rule3, "every (formal, actual) parameter pair is visited", ai.loc(loops[0].owner) if loops else ai.loc(), construct=norm(loops[0].owner.iter) if loops else "", function=ai.qualname)
    for needle, what in (("is_compatible", "type-compatible"), ("is_constant", "a constant")):
        tests = [t for t in cfg.nodes if t.kind == "test" and needle in norm(t.ast) and loops and any(x is t.owner for s in loops[0].owner.body for x in ast.walk(s))]
        ok = bool(tests) and all(raising_branch(cfg, t, True) for t in tests if isinstance(t.ast, ast.UnaryOp))
        rep.check(ok, rule3, f"an actual parameter that is not {what} is rejected", ai.loc(tests[0].ast) if tests else ai.loc(), construct=norm(tests[0].ast) if tests else f"no {needle} test", detail="" if ok else f"ActionInstance accepts a parameter that is not {what}", function=ai.qualname)

    # ---------------------------------------------------------------- (4) T3 no write before a raise
    rule4 = "C23.4 T3 rejected-call-leaves-model-unchanged"
    targets = [
        ("model.mixins.fluents_set.FluentsSetMixin.add_fluent", {"_fluents", "_fluents_defaults"}),
        ("model.mixins.initial_state.InitialStateMixin.set_initial_value", {"_initial_value"}),
        ("model.multi_agent.ma_problem.MultiAgentProblem.set_initial_value", {"_initial_value"}),
    ]
    for q, fields in targets:
        f = idx.func(q)
        cfg = cfg_of(f)
        rep.note_function(f.qualname)
        ws = tracked_writes(cfg, fields)
        if not ws:
            raise AnalysisError(f"anchor vanished: no write to {sorted(fields)} in {q}")
        # registering callbacks handed to the mixin by the problem (self._add_user_type_method) write the model too
        for nd in cfg.nodes:
            if nd.ast is not None and nd.kind == "stmt":
                for c in ast.walk(nd.ast):
                    if isinstance(c, ast.Call) and isinstance(c.func, ast.Attribute) and norm(c.func.value) == "self" and c.func.attr.startswith("_add_") and c.func.attr.endswith("_method"):
                        ws.append((nd, f"the model (through self.{c.func.attr})"))
                        rep.count("callback_writes")
        for w, what in ws:
            p = writes_then_raises(cfg, w)
            rep.check(p is None, rule4, f"{f.short}: nothing raises after `{norm(w.ast)[:50]}`", f.loc(w.ast), construct=norm(w.ast)[:90], detail="" if p is None else f"{what} is modified and the call can still raise afterwards: a rejected call leaves the model changed", function=f.qualname, path=path_text(p) if p else None)
