"""C33 — ProblemKind ordering is a lattice consistent with equality and hashing (structural clauses).

Decides: (1) T9: __hash__ hashes the same *view* of the feature set that __eq__ compares — if __eq__ filters
`_features` (intersection with the features valid in the version) before comparing, __hash__ must apply the same
filter; everything hashed is compared; (2) T11 operators do not mutate their operands: an in-place set mutator
applied to a local that may alias `self._features` / `oth._features` — directly, or through a helper that can
return its argument unchanged (equalize_versions when the versions are already equal) — is a violation;
union / intersection build a new ProblemKind; clone copies the set; (3) T7: upgrade_functions_map has a key
(v, v+1) for every 1 <= v < LATEST_PROBLEM_KIND_VERSION and the function stored under (d-1, d) removes every
feature that FEATURES_VERSIONS deprecates at version d; every upgrade function works on a copy.
Does not decide: the lattice laws on concrete kinds.
"""
from __future__ import annotations

import ast
from typing import Dict, List, Optional, Set, Tuple

from ..dataflow import reaching_defs
from ..index import AnalysisError, FuncInfo, Index, call_name, norm, walk_no_nested
from ..kinddsl import KindTables
from ..report import Report
from ..rules import MUTATORS, cfg_of

PK = "model.problem_kind.ProblemKind"
SET_MUTATORS = MUTATORS | {"symmetric_difference_update"}


def may_return_params(f: FuncInfo) -> Dict[int, Set[str]]:
    """position in the returned tuple (0 for a scalar return) -> parameters that may be returned *unchanged*
    (the same object) on some path."""
    cfg = cfg_of(f)
    rd = reaching_defs(cfg)
    params = set(f.params())
    out: Dict[int, Set[str]] = {}
    for n in cfg.nodes:
        if n.kind != "return" or n.ast.value is None:
            continue
        elts = n.ast.value.elts if isinstance(n.ast.value, ast.Tuple) else [n.ast.value]
        for i, e in enumerate(elts):
            if isinstance(e, ast.Name) and e.id in params and cfg.entry in rd.get(n, {}).get(e.id, set()):
                out.setdefault(i, set()).add(e.id)
    return out


def run(idx: Index, rep: Report, tier: str) -> None:
    rep.explanation = __doc__.strip()
    cls = idx.cls(PK)
    eq, hs = cls.methods.get("__eq__"), cls.methods.get("__hash__")
    if eq is None or hs is None:
        raise AnalysisError("anchor vanished: ProblemKind.__eq__/__hash__")
    rep.note_function(eq.qualname)
    rep.note_function(hs.qualname)
    # ---------------------------------------------------------------- (1)
    rule1 = "C33.1 T9 hash-agrees-with-eq"
    def filters(fn) -> Set[str]:
        out = set()
        for c in walk_no_nested(fn.node):
            if isinstance(c, ast.Call) and isinstance(c.func, ast.Attribute) and norm(c.func.value) == "self._features" and c.func.attr in ("intersection", "difference", "__and__"):
                out.add(c.func.attr + "(" + ", ".join(norm(a) for a in c.args) + ")")
            if isinstance(c, ast.BinOp) and isinstance(c.op, ast.BitAnd) and norm(c.left) == "self._features":
                out.add("intersection(" + norm(c.right) + ")")
        return out
    ef, hf = filters(eq), filters(hs)
    def filter_sources(fn, fs) -> Set[str]:
        # what the filter argument is computed from (e.g. get_valid_features(self.version))
        src = set()
        for a in walk_no_nested(fn.node):
            if isinstance(a, ast.Assign) and isinstance(a.targets[0], ast.Name) and any(a.targets[0].id in s for s in fs):
                src.add(norm(a.value))
        return src | {s for s in fs if "(" in s and "get_valid_features" in s}
    raw_hash = any(isinstance(n, ast.Attribute) and norm(n) == "self._features" for n in walk_no_nested(hs.node))
    if ef:
        es = filter_sources(eq, ef)
        hs_src = filter_sources(hs, hf)
        ok = bool(hf) and any("get_valid_features" in s for s in (hs_src | hf)) == any("get_valid_features" in s for s in (es | ef))
        rep.check(ok, rule1, "__hash__ applies the filter __eq__ applies to _features", hs.loc(), construct=f"__eq__ compares self._features.{sorted(ef)[0]} ({sorted(es)[:1]}); __hash__ uses {sorted(hf) if hf else 'self._features unfiltered'}", detail="" if ok else "two kinds that differ only in features that are not valid in their version (deprecated ones) compare equal but hash differently", function=hs.qualname)
    else:
        rep.ok(rule1, "__eq__ compares the raw feature set", eq.loc(), function=eq.qualname)
    rep.check(raw_hash or bool(hf), rule1, "__hash__ depends on the features", hs.loc(), construct=norm(hs.node.body[-1])[:80], function=hs.qualname)
    ha = {n.attr for n in walk_no_nested(hs.node) if isinstance(n, ast.Attribute) and norm(n.value) == "self"}
    ea = {n.attr for n in walk_no_nested(eq.node) if isinstance(n, ast.Attribute) and norm(n.value) == "self"}
    extra = sorted(a for a in ha - ea if cls.lookup(a) is None)
    rep.check(not extra, rule1, "everything hashed is compared", hs.loc(), construct=f"hashed {sorted(ha)}; compared {sorted(ea)}", detail="" if not extra else f"{extra} hashed but not compared", function=hs.qualname)

    # ---------------------------------------------------------------- (2)
    rule2 = "C33.2 T11 operators-do-not-mutate-operands"
    ev = idx.func("model.problem_kind_versioning.equalize_versions")
    rep.note_function(ev.qualname)
    summ = may_return_params(ev)
    ev_params = ev.params()
    n_ops = 0
    for mname in ("__le__", "__eq__", "__lt__", "__ge__", "__gt__", "union", "intersection", "__hash__", "clone", "__str__", "__repr__"):
        m = cls.methods.get(mname)
        if m is None:
            continue
        n_ops += 1
        rep.note_function(m.qualname)
        # locals that may alias an operand's feature set
        alias: Dict[str, str] = {}
        for a in walk_no_nested(m.node):
            if isinstance(a, ast.Assign) and len(a.targets) == 1:
                t, v = a.targets[0], a.value
                if isinstance(t, ast.Name) and isinstance(v, ast.Attribute) and v.attr == "_features":
                    alias[t.id] = norm(v)
                if isinstance(v, ast.Call) and call_name(v) == "equalize_versions" and isinstance(t, ast.Tuple):
                    for i, e in enumerate(t.elts):
                        if isinstance(e, ast.Name) and i in summ:
                            for p in summ[i]:
                                pi = ev_params.index(p)
                                if pi < len(v.args) and norm(v.args[pi]).endswith("._features"):
                                    alias[e.id] = norm(v.args[pi]) + f" (equalize_versions returns `{p}` unchanged when no upgrade is needed)"
        muts = []
        for c in walk_no_nested(m.node):
            if isinstance(c, ast.Call) and isinstance(c.func, ast.Attribute) and c.func.attr in SET_MUTATORS:
                recv = c.func.value
                if isinstance(recv, ast.Name) and recv.id in alias:
                    muts.append((c, alias[recv.id]))
                elif isinstance(recv, ast.Attribute) and recv.attr == "_features" and mname not in ("__init__",):
                    muts.append((c, norm(recv)))
            if isinstance(c, ast.AugAssign) and isinstance(c.target, ast.Name) and c.target.id in alias and isinstance(c.op, (ast.BitAnd, ast.BitOr, ast.Sub)):
                muts.append((c, alias[c.target.id]))
        if muts:
            for c, what in muts:
                rep.bad(rule2, f"ProblemKind.{mname} leaves its operands unchanged", m.loc(c), construct=f"{norm(c)[:80]} mutates {what.split(' (')[0]}", detail=f"the receiver may be the very set stored in {what}: comparing two kinds of the same version removes features from them", function=m.qualname)
        else:
            rep.ok(rule2, f"ProblemKind.{mname} leaves its operands unchanged", m.loc(), function=m.qualname)
    rep.count("operators_checked", n_ops)
    rep.require_min(rule2, "operators_checked", 6)
    for mname in ("union", "intersection"):
        m = cls.methods[mname]
        rets = [r for r in walk_no_nested(m.node) if isinstance(r, ast.Return) and r.value is not None]
        ok = bool(rets) and all(isinstance(r.value, ast.Call) and call_name(r.value) == "ProblemKind" for r in rets)
        rep.check(ok, rule2, f"{mname} returns a new ProblemKind", m.loc(rets[0]) if rets else m.loc(), construct=norm(rets[0].value)[:90] if rets else "", function=m.qualname)
    init = cls.methods["__init__"]
    st = [a for a in walk_no_nested(init.node) if isinstance(a, (ast.Assign, ast.AnnAssign)) and norm(a.targets[0] if isinstance(a, ast.Assign) else a.target) == "self._features"]
    ok = bool(st) and all("set(features)" in norm(a.value) for a in st)
    rep.check(ok, rule2, "the constructor copies the given features (clone / union results are independent)", init.loc(st[0]) if st else init.loc(), construct=norm(st[0].value) if st else "", detail="" if ok else "a kind built from another kind's feature set shares it", function=init.qualname)

    # ---------------------------------------------------------------- (3)
    rule3 = "C33.3 T7 upgrade-table"
    tables = KindTables(idx)
    vm = idx.module("model.problem_kind_versioning")
    ufm = vm.assigns.get("upgrade_functions_map")
    if not isinstance(ufm, ast.Dict):
        raise AnalysisError("anchor vanished: upgrade_functions_map is not a dict display")
    keys: Dict[Tuple[int, int], str] = {}
    for k, v in zip(ufm.keys, ufm.values):
        try:
            keys[tuple(ast.literal_eval(k))] = norm(v)
        except ValueError:
            pass
    for v in range(1, tables.latest):
        ok = (v, v + 1) in keys
        rep.check(ok, rule3, f"upgrade function for {v} -> {v + 1}", "unified_planning/model/problem_kind_versioning.py:1", construct=f"({v}, {v + 1}): {keys.get((v, v + 1))}", detail="" if ok else "comparing kinds of these versions raises KeyError", function=vm.name)
    for feat, (added, dep) in sorted(tables.versions.items()):
        if dep is None:
            continue
        fn_name = keys.get((dep - 1, dep))
        if fn_name is None or fn_name not in vm.functions:
            rep.inconclusive(rule3, f"{feat}: upgrade function for version {dep} not resolvable", "unified_planning/model/problem_kind_versioning.py:1")
            continue
        uf = vm.functions[fn_name]
        rep.note_function(uf.qualname)
        removed = set()
        for c in walk_no_nested(uf.node):
            if isinstance(c, ast.Call) and isinstance(c.func, ast.Attribute) and c.func.attr in ("difference_update", "discard", "remove", "difference"):
                removed |= {x.value for x in ast.walk(c) if isinstance(x, ast.Constant) and isinstance(x.value, str)}
                # … or the set was bound to a local first: `deprecated = {…}; features.difference_update(deprecated)`
                for a_ in c.args:
                    if isinstance(a_, ast.Name):
                        for b_ in walk_no_nested(uf.node):
                            if isinstance(b_, ast.Assign) and len(b_.targets) == 1 and isinstance(b_.targets[0], ast.Name) and b_.targets[0].id == a_.id:
                                removed |= {x.value for x in ast.walk(b_.value) if isinstance(x, ast.Constant) and isinstance(x.value, str)}
        ok = feat in removed
        rep.check(ok, rule3, f"{fn_name} removes {feat} (deprecated in version {dep})", uf.loc(), construct=f"removed: {sorted(removed)}", detail="" if ok else f"an upgraded kind keeps the deprecated feature {feat}", function=uf.qualname)
    for fn_name in set(keys.values()):
        if fn_name in vm.functions:
            uf = vm.functions[fn_name]
            p = [x for x in uf.params()][0]
            copies = [a for a in walk_no_nested(uf.node) if isinstance(a, ast.Assign) and isinstance(a.value, ast.Call) and call_name(a.value) == "copy" and norm(a.value.func.value) == p]
            rets = [r for r in walk_no_nested(uf.node) if isinstance(r, ast.Return) and r.value is not None]
            ok = (bool(copies) and all(isinstance(r.value, ast.Name) and r.value.id == norm(copies[0].targets[0]) for r in rets)) or all(isinstance(r.value, ast.Call) and call_name(r.value) == "copy" for r in rets)
            muts = [c for c in walk_no_nested(uf.node) if isinstance(c, ast.Call) and isinstance(c.func, ast.Attribute) and c.func.attr in SET_MUTATORS and norm(c.func.value) == p]
            rep.check(ok and not muts, rule3, f"{fn_name} works on a copy of its argument", uf.loc(), construct=norm(copies[0]) if copies else (norm(rets[0]) if rets else ""), detail="" if ok and not muts else "upgrading mutates (or returns) the caller's feature set", function=uf.qualname)
