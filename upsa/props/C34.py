"""C34 — HTN task-network ordering extraction is exact (structural clauses).

Decides: (1) T2: a temporal constraint is turned into a precedence only if it passed *every* filter — it is a
strict `<`, both sides are timing expressions, both delays are zero, the left timepoint is an END and the right
one a START, both refer to a subtask — and the recorded pair is (left container, right container);
(2) a network is reported as an order only when every temporal constraint became a precedence, otherwise the
plain TemporalConstraints object (neither total nor partial) is returned; partial_order / total_order answer by
the class of that object; (3) a total order is reported only if at every step exactly one pending task has no
pending predecessor, and every task is placed; (4) the object returned for a qualitative network carries the
extracted precedences themselves.
Does not decide: correctness of the ordering procedure on concrete relations (a finite enumeration, i.e.
execution, would).
"""
from __future__ import annotations

import ast
from typing import List, Set

from ..index import AnalysisError, Index, call_name, norm, walk_no_nested
from ..report import Report
from ..rules import cfg_nodes_with_call, cfg_of, guards_dominating, path_text
from ..dataflow import DefUse

ORD = "model.htn.ordering"


def run(idx: Index, rep: Report, tier: str) -> None:
    rep.explanation = __doc__.strip()
    from ..roles import returned_names, with_roles

    f = idx.func(ORD + ".ordering")
    rep.note_function(f.qualname)
    # roles in ordering(): the constraint being translated, its two sides, the list of extracted pairs, the verdict
    roles = {}
    for l in walk_no_nested(f.node):
        if isinstance(l, ast.For) and isinstance(l.target, ast.Name) and isinstance(l.iter, ast.Name) and l.iter.id in f.params():
            roles[l.target.id] = "c"
            cvar = l.target.id
            for a in ast.walk(l):
                if isinstance(a, ast.Assign) and isinstance(a.targets[0], ast.Name) and isinstance(a.value, ast.Call) and call_name(a.value) == "arg" and norm(a.value.func.value) == cvar and a.value.args and isinstance(a.value.args[0], ast.Constant):
                    roles.setdefault(a.targets[0].id, "lhs" if a.value.args[0].value == 0 else "rhs")
                if isinstance(a, ast.Call) and call_name(a) == "append" and isinstance(a.func.value, ast.Name) and a.args and isinstance(a.args[0], ast.Tuple) and len(a.args[0].elts) == 2:
                    roles.setdefault(a.func.value.id, "precedences")
    for a in walk_no_nested(f.node):
        if isinstance(a, ast.Assign) and isinstance(a.targets[0], ast.Name) and isinstance(a.value, ast.Compare) and all(isinstance(x, ast.Call) and call_name(x) == "len" for x in [a.value.left] + a.value.comparators):
            roles.setdefault(a.targets[0].id, "qualitative")
    f = with_roles(f, roles)
    cfg = cfg_of(f)
    rule1 = "C34.1 T2 precedence-filters"
    apps = [(n, c) for n, c in cfg_nodes_with_call(cfg, "append") if norm(c.func.value) == "precedences"]
    if len(apps) != 1:
        raise AnalysisError("anchor vanished: precedences.append in ordering()")
    node, call = apps[0]
    facts: Set[str] = set()
    for t, outcome in guards_dominating(cfg, node):
        facts |= _atoms(t.ast, outcome)
    need = {
        "the constraint is a strict <": lambda F: any(a.endswith(".is_lt()") for a in F),
        "the left side is a timing expression": lambda F: "lhs.is_timing_exp()" in F,
        "the right side is a timing expression": lambda F: "rhs.is_timing_exp()" in F,
        "the left delay is zero": lambda F: "lhs.delay == 0" in F,
        "the right delay is zero": lambda F: "rhs.delay == 0" in F,
        "the left timepoint is the END of a task": lambda F: "lhs.kind == TimepointKind.END" in F,
        "the right timepoint is the START of a task": lambda F: "rhs.kind == TimepointKind.START" in F,
        "the left timepoint refers to a subtask": lambda F: "lhs.container is not None" in F,
        "the right timepoint refers to a subtask": lambda F: "rhs.container is not None" in F,
    }
    for what, pred in need.items():
        ok = pred(facts)
        rep.check(ok, rule1, f"a precedence is recorded only if {what}", f.loc(call), construct=what if ok else f"facts at the append: {sorted(facts)[:8]}", detail="" if ok else f"a temporal constraint that fails this filter (e.g. a delayed, non-strict or start-start constraint) is reported as a precedence: a network with another kind of temporal constraint reports an order", function=f.qualname)
    arg = call.args[0]
    ok = isinstance(arg, ast.Tuple) and [norm(e) for e in arg.elts] == ["lhs.container", "rhs.container"]
    rep.check(ok, rule1, "the recorded pair is (task that ends, task that starts)", f.loc(call), construct=norm(call), detail="" if ok else "precedences are recorded reversed / with the wrong components", function=f.qualname)
    # the filters end the translation (break), they do not skip the constraint
    for t in [t for t in cfg.nodes if t.kind == "test" and any(x is t.owner for s in _loop_body(f) for x in ast.walk(s))]:
        body = t.owner.body
        ok = len(body) == 1 and isinstance(body[0], ast.Break)
        rep.check(ok, rule1, f"a failed filter (`{norm(t.ast)[:50]}`) ends the translation", f.loc(t.ast), construct=norm(body[0]) if body else "", detail="" if ok else "a constraint that is no precedence is skipped (continue) instead of making the network non-qualitative", function=f.qualname)

    rule2 = "C34.2 neither-order-unless-all-precedences"
    from ..rules2 import path_facts

    QUAL = "len(precedences) == len(time_constraints)"
    # the verdict may be kept in a local (`qualitative = …; if not qualitative:`) or tested directly: the canonical
    # tree inlines a temporary that is read once, so the fact is looked for under both spellings
    q = [a for a in walk_no_nested(f.node) if isinstance(a, ast.Assign) and norm(a.value) == QUAL]
    qnames = {norm(a.targets[0]) for a in q}
    tests = [n for n in cfg.nodes if n.kind == "test" and QUAL in norm(n.ast).replace("!=", "==")]
    ok = bool(q) or bool(tests)
    rep.check(ok, rule2, "qualitative iff every temporal constraint became a precedence", f.loc(q[0]) if q else (f.loc(tests[0].ast) if tests else f.loc()), construct=norm(q[0]) if q else (norm(tests[0].ast) if tests else ""), function=f.qualname)
    for n in cfg.nodes:
        if n.kind != "return" or not isinstance(n.ast.value, ast.Call):
            continue
        cls_name = call_name(n.ast.value)
        facts = path_facts(cfg, n)
        is_qual = (QUAL, True) in facts or any((qn, True) in facts for qn in qnames)
        if cls_name in ("TotalOrder", "PartialOrder"):
            rep.check(is_qual, rule2, f"{cls_name} is returned only for a qualitative network", f.loc(n.ast), construct=norm(n.ast), detail="" if is_qual else "an order is reported although some temporal constraint is not a precedence", function=f.qualname)
        elif cls_name == "TemporalConstraints":
            rep.check(not is_qual, rule2, "a non-qualitative network gets the plain TemporalConstraints", f.loc(n.ast), construct=norm(n.ast), function=f.qualname)
    tn = idx.cls("model.htn.task_network.AbstractTaskNetwork")
    for meth, want in (("partial_order", "PartialOrder"), ("total_order", "TotalOrder")):
        m = tn.lookup(meth)
        if m is None:
            raise AnalysisError(f"anchor vanished: AbstractTaskNetwork.{meth}")
        rep.note_function(m.qualname)
        from ..rules2 import path_facts

        mcfg = cfg_of(m)
        answers = [nd for nd in mcfg.nodes if nd.kind == "return" and nd.ast.value is not None and not (isinstance(nd.ast.value, ast.Constant) and nd.ast.value.value is None)]
        nones = [nd for nd in mcfg.nodes if nd.kind == "return" and (nd.ast.value is None or (isinstance(nd.ast.value, ast.Constant) and nd.ast.value.value is None))]
        guarded = [any(txt.startswith("isinstance(") and txt.endswith(f", {want})") and val for txt, val in path_facts(mcfg, nd)) for nd in answers]
        ok = bool(answers) and all(guarded) and bool(nones)
        rep.check(ok, rule2, f"{meth}() answers only for a {want} and None otherwise", m.loc(), construct=f"{len(answers)} answer(s) under isinstance(…, {want}); {len(nones)} return None", function=m.qualname)
    tm = tn.lookup("_ordering")
    ok = False
    if tm is not None:
        tcfg = cfg_of(tm)
        tdu = DefUse(tcfg)
        for nd_, c in cfg_nodes_with_call(tcfg, "ordering"):
            reach = {x for a in list(c.args) + [k.value for k in c.keywords] for ch in tdu.expanded_chains(a, nd_) for x in ch} | {norm(c)}
            # single-assignment locals the arguments name, resolved to what they were bound to (comprehensions included)
            todo, seen_names = [x.id for x in ast.walk(c) if isinstance(x, ast.Name)], set()
            while todo:
                nm = todo.pop()
                if nm in seen_names:
                    continue
                seen_names.add(nm)
                st = [a for a in walk_no_nested(tm.node) if isinstance(a, ast.Assign) and len(a.targets) == 1 and isinstance(a.targets[0], ast.Name) and a.targets[0].id == nm]
                if len(st) == 1:
                    reach.add(norm(st[0].value))
                    todo += [x.id for x in ast.walk(st[0].value) if isinstance(x, ast.Name)]
            flat = " ".join(sorted(reach))
            ok = ok or (("temporal_constraints()" in flat or "temporal_constraints" in reach) and "subtasks" in flat)
    rep.check(ok, rule2, "the classification sees all subtasks and all temporal constraints", tm.loc() if tm else tn.loc(), construct="ordering(subtask ids, self.temporal_constraints())", function=tn.qualname)

    rule3 = "C34.3 total-order-unique"
    b = idx.func(ORD + "._build_total_order")
    rep.note_function(b.qualname)
    if _total_order_by_cases(b, rep, rule3, tier):
        _after_total_order(idx, rep, cfg, f)
        return
    broles = {}
    bparams = b.params()
    for a in walk_no_nested(b.node):
        if isinstance(a, ast.Assign) and isinstance(a.targets[0], ast.Name):
            t, v = a.targets[0].id, a.value
            if isinstance(v, ast.Call) and call_name(v) == "copy" and isinstance(v.func.value, ast.Name) and v.func.value.id in bparams:
                broles.setdefault(t, "pending_tasks" if v.func.value.id == bparams[0] else "pending_precedences")
            elif isinstance(v, ast.ListComp) and any(isinstance(x, ast.Call) and call_name(x) == "all" for x in ast.walk(v)):
                broles.setdefault(t, "firsts")
    for a in walk_no_nested(b.node):
        if isinstance(a, ast.Assign) and isinstance(a.targets[0], ast.Name) and isinstance(a.value, ast.Subscript) and norm(a.value.value) in broles and broles[norm(a.value.value)] == "firsts":
            broles.setdefault(a.targets[0].id, "first")
    for r in returned_names(b.node):
        broles.setdefault(r, "order")
    b = with_roles(b, broles)
    bc = cfg_of(b)
    tests = [t for t in bc.nodes if t.kind == "test" and norm(t.ast) == "len(firsts) != 1"]
    ok = bool(tests) and all(any(isinstance(s, ast.Return) and isinstance(s.value, ast.Constant) and s.value.value is None for s in t.owner.body) for t in tests)
    rep.check(ok, rule3, "no total order unless exactly one pending task has no pending predecessor", b.loc(tests[0].ast) if tests else b.loc(), construct="if len(firsts) != 1: return None", detail="" if ok else "a network with several admissible linearisations (or a cycle) is reported as totally ordered", function=b.qualname)
    wl = [w for w in walk_no_nested(b.node) if isinstance(w, ast.While)]
    ok = bool(wl) and norm(wl[0].test) in ("len(pending_tasks) > 0", "len(pending_tasks) != 0", "len(pending_tasks) >= 1", "len(pending_tasks)", "pending_tasks", "0 < len(pending_tasks)", "not len(pending_tasks) == 0")
    rep.check(ok, rule3, "every task is placed", b.loc(wl[0]) if wl else b.loc(), construct=norm(wl[0].test) if wl else "", function=b.qualname)
    firsts = [a for a in walk_no_nested(b.node) if isinstance(a, ast.Assign) and norm(a.targets[0]) == "firsts"]
    ok = bool(firsts) and "all(" in norm(firsts[0].value) and "tgt != t" in norm(firsts[0].value) and "pending_precedences" in norm(firsts[0].value) and "pending_tasks" in norm(firsts[0].value)
    rep.check(ok, rule3, "a leading task is one that is the target of no pending precedence", b.loc(firsts[0]) if firsts else b.loc(), construct=norm(firsts[0].value)[:110] if firsts else "", function=b.qualname)
    rm = [a for a in walk_no_nested(b.node) if isinstance(a, ast.Assign) and norm(a.targets[0]) == "pending_precedences" and isinstance(a.value, ast.ListComp)]
    ok = bool(rm) and "src != first" in norm(rm[0].value)
    rep.check(ok, rule3, "placing a task discharges exactly the precedences that start at it", b.loc(rm[0]) if rm else b.loc(), construct=norm(rm[0].value)[:90] if rm else "", function=b.qualname)
    muts = [c for c in walk_no_nested(b.node) if isinstance(c, ast.Call) and isinstance(c.func, ast.Attribute) and c.func.attr in ("remove", "pop", "clear", "append") and norm(c.func.value) in ("tasks", "precedences")]
    rep.check(not muts, rule3, "the caller's task set and precedence list are not modified", b.loc(muts[0]) if muts else b.loc(), construct=norm(muts[0]) if muts else "works on copies", function=b.qualname)

    _after_total_order(idx, rep, cfg, f)


def _total_order_by_cases(b, rep: Report, rule3: str, tier: str) -> bool:
    """_build_total_order is a pure function of a finite set of task names and a list of pairs of them, and it touches
    the names only through == / != / membership: its answer for n tasks is decided by interpreting its syntax tree
    on every relation over n names (all 2^(n*n) of them for n <= 3, all irreflexive ones for n = 4 in the thorough
    tier). Expected: the one linearisation compatible with the pairs when there is exactly one, None otherwise; the
    arguments are left as they were. Returns False (shape rules take over) when the function uses a construct the
    interpreter does not model."""
    import itertools

    from .extra3 import _OrderInterp, _Raised, _Returned, _Yielded

    params = [p for p in b.params() if p not in ("self", "cls")]
    if len(params) != 2:
        return False
    interp = _OrderInterp(b.node)
    interp.check_asserts = True
    sizes = [0, 1, 2, 3] + ([4] if tier == "thorough" else [])
    results = {}
    for n in sizes:
        names = [f"t{i}" for i in range(n)]
        pairs = [(a, c) for a in names for c in names if n <= 3 or a != c]
        wrong = None
        cases = 0
        for mask in range(1 << len(pairs)):
            rel = [pairs[i] for i in range(len(pairs)) if mask >> i & 1]
            lins = [list(pm) for pm in itertools.permutations(names) if all(pm.index(a) < pm.index(c) for a, c in rel if a != c) and all(a != c for a, c in rel)]
            want = lins[0] if len(lins) == 1 else None
            tasks, precs = set(names), list(rel)
            try:
                interp.run({params[0]: tasks, params[1]: precs})
                got = None
            except _Returned as r:
                got = r.value
            except _Yielded:
                got = None
            except _Raised as ex:
                got = f"raises {ex}"
            except _OrderInterp.Unsupported:
                return False
            except Exception:
                return False
            cases += 1
            if wrong is None and (got != want or tasks != set(names) or precs != rel):
                wrong = (rel, want, got, tasks != set(names) or precs != rel)
        results[n] = (cases, wrong)
    for n, (cases, wrong) in results.items():
        detail = ""
        if wrong is not None:
            rel, want, got, mutated = wrong
            detail = f"for the tasks {[f't{i}' for i in range(n)]} and the precedences {rel} the answer is {got}, expected {want}" + ("; the caller's arguments are modified" if mutated else "")
        rep.check(wrong is None, rule3, f"{n} task(s): a total order is answered exactly when one linearisation is compatible with the precedences, and it is that one", b.loc(), construct=f"{cases} relations over {n} names interpreted", detail=detail, function=b.qualname, strict=True)
    rep.count("total_order_cases", sum(c for c, _ in results.values()))
    return True


def _after_total_order(idx: Index, rep: Report, cfg, f) -> None:
    rule4 = "C34.4 returned-precedences-are-the-extracted-ones"
    for n in cfg.nodes:
        if n.kind == "return" and isinstance(n.ast.value, ast.Call) and call_name(n.ast.value) in ("TotalOrder", "PartialOrder"):
            c = n.ast.value
            args = [norm(a) for a in c.args] + [norm(k.value) for k in c.keywords]
            ok = "precedences" in args
            rep.check(ok, rule4, f"{call_name(c)}(...) receives the extracted precedences", f.loc(c), construct=norm(c), detail="" if ok else "the object is built from the linear order only; its `precedences` (what partial_order() returns) are re-derived as the chain of adjacent pairs, not the precedences of the network (a<b, a<c, b<c yields [(a,b),(b,c)])", function=f.qualname)


def _loop_body(f) -> List[ast.stmt]:
    loops = [l for l in walk_no_nested(f.node) if isinstance(l, ast.For) and norm(l.iter) == "time_constraints"]
    return loops[0].body if loops else []


def _atoms(test: ast.AST, outcome: bool) -> Set[str]:
    """Atomic facts (normalised, positive form) implied by `test` == outcome."""
    if isinstance(test, ast.UnaryOp) and isinstance(test.op, ast.Not):
        return _atoms(test.operand, not outcome)
    if isinstance(test, ast.BoolOp):
        if (isinstance(test.op, ast.Or) and not outcome) or (isinstance(test.op, ast.And) and outcome):
            out: Set[str] = set()
            for v in test.values:
                out |= _atoms(v, outcome)
            return out
        return set()
    if isinstance(test, ast.Compare) and len(test.ops) == 1:
        l, op, r = norm(test.left), test.ops[0], norm(test.comparators[0])
        if isinstance(op, ast.NotEq):
            return {f"{l} == {r}"} if not outcome else set()
        if isinstance(op, ast.Eq):
            return {f"{l} == {r}"} if outcome else set()
        if isinstance(op, ast.Is):
            return {f"{l} is {r}"} if outcome else {f"{l} is not {r}"}
        if isinstance(op, ast.IsNot):
            return {f"{l} is not {r}"} if outcome else {f"{l} is {r}"}
        return set()
    return {norm(test)} if outcome else set()
