"""C08 — compilers produce well-formed results (structural clauses).

Decides: (1) T12: the hook of CompilerResult that checks problem / map-back consistency and derives
plan_back_conversion from map_back_action_instance is spelled __post_init__ (a dataclass calls no other name);
the same sweep over every @dataclass of the package is reported as candidates;
(2) fresh names are fresh for the problem that receives them: the problem handed to get_fresh_name is never
(an alias of) the *input* problem of the compilation — decided by an interprocedural origin analysis
(INPUT / NEW / UNKNOWN) through parameters, fields and call sites;
(3) T7: what CompilersPipeline.compile consumes from each stage (map_back_action_instance) is what every
compiler class that can be a stage returns.
Does not decide: reference integrity of a concrete compiled problem.
"""
from __future__ import annotations

import ast
import re
from typing import Dict, List, Optional, Set, Tuple

from ..index import AnalysisError, ClassInfo, FuncInfo, Index, call_name, norm, walk_no_nested
from ..report import Report, is_excepted

INPUT, NEW, UNKNOWN = "INPUT", "NEW", "UNKNOWN"
NEW_CTORS = {"Problem", "MultiAgentProblem", "HierarchicalProblem", "ContingentProblem", "SchedulingProblem"}


# --------------------------------------------------------------------------- T12
def dataclass_hooks(idx: Index) -> List[Tuple[ClassInfo, FuncInfo, bool]]:
    """(class, near-miss hook method, has_caller) for every @dataclass class of the package."""
    out = []
    all_attr_refs: Optional[Set[str]] = None
    for ci in idx.classes.values():
        if not any(d.split("(")[0].split(".")[-1] == "dataclass" for d in ci.decorators()):
            continue
        for name, m in ci.methods.items():
            squashed = name.replace("_", "").lower()
            if squashed == "postinit" and name != "__post_init__":
                if all_attr_refs is None:
                    all_attr_refs = set()
                    for mod in idx.modules.values():
                        for n in ast.walk(mod.tree):
                            if isinstance(n, ast.Attribute):
                                all_attr_refs.add(n.attr)
                out.append((ci, m, name in all_attr_refs))
    return out


def count_dataclasses(idx: Index) -> int:
    return sum(1 for ci in idx.classes.values() if any(d.split("(")[0].split(".")[-1] == "dataclass" for d in ci.decorators()))


# --------------------------------------------------------------------------- origin analysis
class Origins:
    def __init__(self, idx: Index):
        self.idx = idx
        self.memo: Dict[Tuple[str, str], Set[str]] = {}
        self.calls_by_name: Dict[str, List[Tuple[FuncInfo, ast.Call]]] = {}
        for f in idx.all_funcs():
            if not f.module.name.startswith(("unified_planning.engines", "unified_planning.model.walkers")):
                continue
            for c in walk_no_nested(f.node):
                if isinstance(c, ast.Call):
                    nm = call_name(c)
                    if nm:
                        self.calls_by_name.setdefault(nm, []).append((f, c))

    def of_expr(self, e: ast.AST, f: FuncInfo, depth: int = 0) -> Set[str]:
        if depth > 6:
            return {UNKNOWN}
        if isinstance(e, ast.Call):
            nm = call_name(e)
            if nm == "clone" and not e.args:
                return {NEW}
            if nm in NEW_CTORS:
                return {NEW}
            if nm == "cast" and len(e.args) == 2:
                return self.of_expr(e.args[1], f, depth)
            if isinstance(e.func, ast.Call) and call_name(e.func) == "type":
                return {NEW}
            return {UNKNOWN}
        if isinstance(e, ast.Name):
            return self.of_name(e.id, f, depth)
        if isinstance(e, ast.Attribute) and isinstance(e.value, ast.Name) and e.value.id == "self" and f.cls is not None:
            return self.of_field(f.cls, e.attr, depth)
        return {UNKNOWN}

    def of_name(self, name: str, f: FuncInfo, depth: int) -> Set[str]:
        key = (f.qualname, name)
        if key in self.memo:
            return self.memo[key]
        self.memo[key] = {UNKNOWN}  # cycle guard
        res: Set[str] = set()
        params = f.params()
        assigned = [a for a in walk_no_nested(f.node) if isinstance(a, (ast.Assign, ast.AnnAssign)) and any(isinstance(t, ast.Name) and t.id == name for t in (a.targets if isinstance(a, ast.Assign) else [a.target])) and a.value is not None]
        for a in assigned:
            res |= self.of_expr(a.value, f, depth + 1)
        if name in params and not assigned:
            if f.name in ("_compile", "compile") and name == "problem":
                res.add(INPUT)
            else:
                res |= self.of_param(f, name, depth + 1)
        if not res:
            res = {UNKNOWN}
        self.memo[key] = res
        return res

    def of_param(self, f: FuncInfo, name: str, depth: int) -> Set[str]:
        params = [p for p in f.params() if p not in ("self", "cls")]
        if name not in params:
            return {UNKNOWN}
        pos = params.index(name)
        callee_names = [f.name] if f.name != "__init__" else ([f.cls.name] if f.cls else [])
        res: Set[str] = set()
        n_sites = 0
        for cn in callee_names:
            for caller, call in self.calls_by_name.get(cn, []):
                arg = None
                for k in call.keywords:
                    if k.arg == name:
                        arg = k.value
                if arg is None and pos < len(call.args) and not any(isinstance(a, ast.Starred) for a in call.args[: pos + 1]):
                    arg = call.args[pos]
                if arg is None:
                    continue
                n_sites += 1
                res |= self.of_expr(arg, caller, depth)
        return res or {UNKNOWN}

    def of_field(self, cls: ClassInfo, attr: str, depth: int) -> Set[str]:
        key = (cls.qualname, "self." + attr)
        if key in self.memo:
            return self.memo[key]
        self.memo[key] = {UNKNOWN}
        res: Set[str] = set()
        for c in cls.mro:
            for m in c.methods.values():
                for a in walk_no_nested(m.node):
                    if isinstance(a, (ast.Assign, ast.AnnAssign)) and a.value is not None:
                        tg = a.targets if isinstance(a, ast.Assign) else [a.target]
                        if any(isinstance(t, ast.Attribute) and isinstance(t.value, ast.Name) and t.value.id == "self" and t.attr == attr for t in tg):
                            res |= self.of_expr(a.value, m, depth + 1)
        res = res or {UNKNOWN}
        self.memo[key] = res
        return res


def run(idx: Index, rep: Report, tier: str) -> None:
    rep.explanation = __doc__.strip()
    # ---------------------------------------------------------------- (1) T12
    rule1 = "C08.1 T12 dataclass-hook-spelling"
    cr = idx.cls("engines.results.CompilerResult")
    if not any(d.split("(")[0].split(".")[-1] == "dataclass" for d in cr.decorators()):
        raise AnalysisError("anchor vanished: CompilerResult is no longer a @dataclass")
    hooks = dataclass_hooks(idx)
    rep.count("dataclasses_swept", count_dataclasses(idx))
    mine = [(c, m, called) for c, m, called in hooks if c is cr]
    # the derivation `self.plan_back_conversion = ...` must live in a method the dataclass machinery (or someone) calls
    deriv = [m for m in cr.methods.values() if any(isinstance(a, ast.Assign) and norm(a.targets[0]) == "self.plan_back_conversion" for a in walk_no_nested(m.node))]
    if not deriv:
        rep.bad(rule1, "CompilerResult derives plan_back_conversion from map_back_action_instance", cr.loc(), construct="no method assigns self.plan_back_conversion", detail="a plan back-conversion is not available for action-mapping compilers", function=cr.qualname)
    for m in deriv:
        rep.note_function(m.qualname)
        live = m.name == "__post_init__" or any(m.name == mm.name and called for _, mm, called in mine) or (m.name not in [mm.name for _, mm, _ in mine] and m.name != "__post_init__" and _has_caller(idx, m.name))
        rep.check(
            live,
            rule1,
            "CompilerResult: consistency/derivation hook is called",
            m.loc(),
            construct=f"def {m.name}(self)",
            detail="" if live else f"`{m.name}` is a near-miss of __post_init__ and nothing calls it: the problem/map-back consistency check never runs and plan_back_conversion stays None for every action-mapping compiler",
            function=m.qualname,
            strict=True,  # the rule is about this very function having no caller: its being new is the point
        )
    for c, m, called in hooks:
        if c is not cr:
            rep.candidate("T12 dataclass-hook-spelling", m.loc(), f"{c.name}.{m.name}", "near-miss of __post_init__ with no caller" if not called else "near-miss name, but it has a caller")

    # ---------------------------------------------------------------- (2) fresh names
    rule2 = "C08.2 fresh-name-checked-against-receiving-problem"
    org = Origins(idx)
    n_sites = 0
    for f in idx.all_funcs():
        if not f.module.name.startswith("unified_planning.engines.compilers"):
            continue
        ordinal = 0
        for c in walk_no_nested(f.node):
            if isinstance(c, ast.Call) and call_name(c) == "get_fresh_name" and c.args:
                n_sites += 1
                ordinal += 1
                rep.note_function(f.qualname)
                o = org.of_expr(c.args[0], f)
                inst = f"{f.short}: get_fresh_name #{ordinal} first argument `{norm(c.args[0])}`"
                if INPUT in o:
                    reason = is_excepted(rep.prop, rule2, f.qualname, norm(c.args[0]))
                    if reason:
                        rep.ok(rule2, inst, f.loc(c), construct=norm(c)[:100], detail="triaged exception: " + reason, function=f.qualname)
                        rep.count("triaged_exceptions")
                    else:
                        rep.bad(rule2, inst, f.loc(c), construct=f"get_fresh_name({norm(c.args[0])}, ...) in {f.short} #{ordinal}; origins {sorted(o)}", detail="the problem whose names are consulted can be the *input* problem of the compilation, which never receives the generated names: two generated names can coincide (e.g. move(a_b, c) and move(a, b_c) both become move_a_b_c) and the second add_action fails", function=f.qualname)
                elif o == {NEW}:
                    rep.ok(rule2, inst, f.loc(c), construct=norm(c)[:100] + "  [origin NEW]", function=f.qualname)
                else:
                    rep.inconclusive(rule2, inst, f.loc(c), construct=norm(c)[:100], detail=f"origin {sorted(o)}", function=f.qualname)
    rep.count("get_fresh_name_sites", n_sites)
    rep.require_min(rule2, "get_fresh_name_sites", 25)
    # get_fresh_name itself: loops until has_name is false on that problem, and joins with a separator
    gf = idx.func("engines.compilers.utils.get_fresh_name")
    rep.note_function(gf.qualname)
    wh = [w for w in walk_no_nested(gf.node) if isinstance(w, ast.While)]
    ok = bool(wh) and all(isinstance(w.test, ast.Call) and call_name(w.test) == "has_name" and norm(w.test.func.value) == "problem" for w in wh)
    rep.check(ok, rule2, "get_fresh_name loops while problem.has_name(candidate)", gf.loc(wh[0]) if wh else gf.loc(), construct=norm(wh[0].test) if wh else "no while loop", detail="" if ok else "the candidate is not re-checked against the problem's names", function=gf.qualname)
    rets = [r for r in walk_no_nested(gf.node) if isinstance(r, ast.Return)]
    ok = bool(wh) and bool(rets) and all(isinstance(r.value, ast.Name) and r.value.id == norm(wh[0].test.args[0]) for r in rets)
    rep.check(ok, rule2, "get_fresh_name returns the checked candidate", gf.loc(rets[0]) if rets else gf.loc(), construct=norm(rets[0]) if rets else "", function=gf.qualname)

    # ---------------------------------------------------------------- (3) pipeline consumption
    rule3 = "C08.3 T7 pipeline-consumes-what-stages-return"
    pc = idx.func("engines.compilers.compilers_pipeline.CompilersPipeline.compile")
    rep.note_function(pc.qualname)
    stage_results = {norm(a.targets[0]) for a in walk_no_nested(pc.node) if isinstance(a, ast.Assign) and isinstance(a.value, ast.Call) and call_name(a.value) in ("compile", "_compile")}
    consumed = {n.attr for n in walk_no_nested(pc.node) if isinstance(n, ast.Attribute) and norm(n.value) in stage_results and n.attr in ("map_back_action_instance", "plan_back_conversion")}
    if not consumed:
        raise AnalysisError("anchor vanished: CompilersPipeline.compile no longer reads res.map_back_action_instance / plan_back_conversion")
    mixin = idx.cls("engines.mixins.compiler.CompilerMixin")
    n_cls = 0
    for ci in idx.subclasses(mixin):
        results = [(m, c) for m in ci.methods.values() for c in walk_no_nested(m.node) if isinstance(c, ast.Call) and call_name(c) == "CompilerResult"]
        if not results or ci.name == "CompilersPipeline":
            continue
        n_cls += 1
        provides: Set[str] = set()
        only_pbc = []
        for m, c in results:
            prob = c.args[0] if c.args else None
            if prob is not None and isinstance(prob, ast.Constant) and prob.value is None:
                continue
            mb = c.args[1] if len(c.args) > 1 else next((k.value for k in c.keywords if k.arg == "map_back_action_instance"), None)
            pbc = next((k.value for k in c.keywords if k.arg == "plan_back_conversion"), None)
            has_mb = mb is not None and not (isinstance(mb, ast.Constant) and mb.value is None)
            has_pbc = pbc is not None and not (isinstance(pbc, ast.Constant) and pbc.value is None)
            if has_mb:
                provides.add("map_back_action_instance")
            if has_pbc:
                provides.add("plan_back_conversion")
            if has_pbc and not has_mb:
                only_pbc.append((m, c))
        if "map_back_action_instance" in consumed and "plan_back_conversion" not in consumed and only_pbc:
            m, c = only_pbc[0]
            rep.bad(rule3, f"{ci.name} as a pipeline stage", m.loc(c), construct=f"{ci.name} returns CompilerResult(problem, None, ..., plan_back_conversion=...)", detail="CompilersPipeline.compile asserts res.map_back_action_instance is not None and chains only action maps: a pipeline containing this compiler fails with AssertionError", function=m.qualname)
        else:
            rep.ok(rule3, f"{ci.name} as a pipeline stage", ci.loc(), construct=f"provides {sorted(provides)}; pipeline consumes {sorted(consumed)}", function=ci.qualname)
    rep.count("compiler_classes", n_cls)
    rep.require_min(rule3, "compiler_classes", 12)


def _has_caller(idx: Index, name: str) -> bool:
    for mod in idx.modules.values():
        for n in ast.walk(mod.tree):
            if isinstance(n, ast.Attribute) and n.attr == name:
                return True
    return False
