"""C32 — factory engine selection honours every requested requirement (structural clauses).

Decides: (1) T15 coverage of Factory._engine_satisfies_conditions: for every operation-mode branch and every
optional requirement (optimality guarantee, compilation kind, plan kind, anytime guarantee) the branch either
asserts the requirement is None or rejects (`return False`) an engine whose matching predicate
(satisfies / supports_compilation / supports_plan / ensures) is false for it; the engine must be of the
requested operation mode; the only non-False return is EngineClass.supports(problem_kind);
(2) T2 in _get_engine_class: an engine is returned by name or only after _engine_satisfies_conditions held for it
with the caller's arguments in the right positions; if the loop selects nothing every path ends in
`raise UPNoSuitableEngineAvailableException`; (3) the pipeline threading of C09.3 (shared);
(4) T7 registry: every DEFAULT_ENGINES / DEFAULT_META_ENGINES entry that points into this package names an
existing class; both preference lists are subsets of their registries.
Does not decide: the outcome for a concrete kind.
"""
from __future__ import annotations

import ast
from typing import Dict, List, Set

from ..index import AnalysisError, ClassInfo, Index, call_name, norm, walk_no_nested
from ..report import Report
from ..rules import cfg_nodes_with_call, cfg_of, guards_dominating, path_text

FACT = "engines.factory.Factory"
REQ_PRED = {"optimality_guarantee": "satisfies", "compilation_kind": "supports_compilation", "plan_kind": "supports_plan", "anytime_guarantee": "ensures"}


def _modes_of(test: ast.AST) -> Set[str]:
    return {x.attr for x in ast.walk(test) if isinstance(x, ast.Attribute) and norm(x.value).endswith("OperationMode")}


def _branch_handles(body: List[ast.stmt], req: str) -> str:
    """'assert-none' | 'checked' | ''"""
    for s in body:
        if isinstance(s, ast.Assert) and isinstance(s.test, ast.Compare) and norm(s.test) == f"{req} is None":
            return "assert-none"
    for s in body:
        if isinstance(s, ast.If):
            t = s.test
            rets_false = any(isinstance(r, ast.Return) and isinstance(r.value, ast.Constant) and r.value.value is False for r in s.body)
            if not rets_false:
                continue
            if isinstance(t, ast.BoolOp) and isinstance(t.op, ast.And) and len(t.values) == 2:
                a, b = t.values
                if norm(a) == f"{req} is not None" and isinstance(b, ast.UnaryOp) and isinstance(b.op, ast.Not) and isinstance(b.operand, ast.Call) and call_name(b.operand) == REQ_PRED[req] and norm(b.operand.func.value) == "EngineClass" and [norm(x) for x in b.operand.args] == [req]:
                    return "checked"
    return ""


def run(idx: Index, rep: Report, tier: str) -> None:
    rep.explanation = __doc__.strip()
    rule1 = "C32.1 T15 requirement-coverage"
    f = idx.func(FACT + "._engine_satisfies_conditions")
    rep.note_function(f.qualname)
    om = idx.cls("engines.engine.OperationMode") if "unified_planning.engines.engine.OperationMode" in idx.classes else None
    if om is None:
        cands = idx.classes_by_name.get("OperationMode", [])
        if not cands:
            raise AnalysisError("anchor vanished: OperationMode")
        om = cands[0]
    modes = [t.id for s in om.node.body if isinstance(s, ast.Assign) for t in s.targets if isinstance(t, ast.Name)]
    def _mode_chain_rule() -> None:
        chain_if = [s for s in f.node.body if isinstance(s, ast.If) and _modes_of(s.test)]
        if not chain_if:
            # a table-driven dispatch (a dict keyed by the operation modes) instead of the chain: the rule reads the chain
            # form only and says so; with neither a chain nor a table the anchor is lost
            tables = [d for d in ast.walk(f.node) if isinstance(d, ast.Dict) and d.keys and all(k is not None and norm(k).split(".")[-1] in modes for k in d.keys)]
            if not tables:
                raise AnalysisError("anchor vanished: operation-mode chain in _engine_satisfies_conditions")
            missing = sorted(set(modes) - {norm(k).split(".")[-1] for d in tables for k in d.keys})
            rep.inconclusive(rule1, "requirement coverage per operation mode", f.loc(tables[0]), construct=f"dispatch through a table over {len(tables[0].keys)} operation modes" + (f"; modes without a row: {missing}" if missing else ""), detail="not decided: the rule reads the if/elif chain over the operation modes only", function=f.qualname)
            return
        node = chain_if[0]
        branches: List = []
        default_body: List[ast.stmt] = []
        while isinstance(node, ast.If):
            branches.append((_modes_of(node.test), node.body, node))
            if len(node.orelse) == 1 and isinstance(node.orelse[0], ast.If) and _modes_of(node.orelse[0].test):
                node = node.orelse[0]
            else:
                default_body = node.orelse
                break
        covered: Set[str] = set()
        for ms, body, nd in branches:
            covered |= ms
            for req in REQ_PRED:
                h = _branch_handles(body, req)
                rep.check(bool(h), rule1, f"mode {'/'.join(sorted(ms))}: requirement {req} is asserted None or checked through EngineClass.{REQ_PRED[req]}", f.loc(nd), construct=f"{'/'.join(sorted(ms))} x {req}: {h or 'neither'}", detail="" if h else f"for this operation mode a requested {req} is silently ignored: the factory can return an engine that does not honour it", function=f.qualname)
        rest = [m for m in modes if m not in covered]
        for req in REQ_PRED:
            h = _branch_handles(default_body, req)
            rep.check(h == "assert-none", rule1, f"other modes ({len(rest)}): requirement {req} must not be given", f.loc(), construct=f"else: assert {req} is None" if h else "missing", detail="" if h else f"a {req} passed with an operation mode that cannot honour it is ignored", function=f.qualname)
        rep.count("mode_branches", len(branches))
        rep.require_min(rule1, "mode_branches", 5)
        # operation mode itself
        first = f.node.body[0] if not isinstance(f.node.body[0], ast.Expr) else f.node.body[1]
        ok = isinstance(first, ast.If) and "getattr(EngineClass, 'is_' + operation_mode.value)()" in norm(first.test) and isinstance(first.test, ast.UnaryOp) and any(isinstance(r, ast.Return) and isinstance(r.value, ast.Constant) and r.value.value is False for r in first.body)
        rep.check(ok, rule1, "an engine of another operation mode is rejected first", f.loc(first), construct=norm(first.test)[:90], detail="" if ok else "engines are not filtered by the requested operation mode", function=f.qualname)
        rets = [r for r in walk_no_nested(f.node) if isinstance(r, ast.Return)]
        other = [r for r in rets if not (isinstance(r.value, ast.Constant) and r.value.value is False)]
        ok = len(other) == 1 and norm(other[0].value) == "EngineClass.supports(problem_kind)" and other[0] is f.node.body[-1]
        rep.check(ok, rule1, "the only non-False verdict is EngineClass.supports(problem_kind)", f.loc(other[0]) if other else f.loc(), construct="; ".join(norm(r) for r in other)[:120], detail="" if ok else "an engine can be accepted without supporting the problem kind", function=f.qualname)

    _mode_chain_rule()

    # ---------------------------------------------------------------- (2)
    rule2 = "C32.2 T2 selection"
    g = idx.func(FACT + "._get_engine_class")
    rep.note_function(g.qualname)
    from ..roles import with_roles

    # role: the candidate class, i.e. whatever local is bound to self._engines[<name>]
    g = with_roles(g, {a.targets[0].id: "EngineClass" for a in walk_no_nested(g.node) if isinstance(a, ast.Assign) and isinstance(a.targets[0], ast.Name) and isinstance(a.value, ast.Subscript) and norm(a.value.value) == "self._engines"})
    cfg = cfg_of(g)
    sat = cfg_nodes_with_call(cfg, "_engine_satisfies_conditions")
    if not sat:
        raise AnalysisError("anchor vanished: _get_engine_class no longer calls _engine_satisfies_conditions")
    params = [p for p in f.params() if p != "self"]
    for n, c in sat:
        args = [norm(a) for a in c.args]
        ok = args == params
        rep.check(ok, rule2, "the conditions are evaluated with the caller's requirements, position by position", g.loc(c), construct=f"({', '.join(args)}) vs parameters ({', '.join(params)})", detail="" if ok else "a requirement is passed in the wrong position or dropped", function=g.qualname)
    for n in cfg.nodes:
        if n.kind != "return":
            continue
        v = norm(n.ast.value) if n.ast.value is not None else "None"
        from ..rules2 import path_facts

        fs = path_facts(cfg, n)
        if ("name is None", False) in fs:
            ok = v == "self._engines[name]" and ("name in self._engines", True) in fs
            rep.check(ok, rule2, "by name: the registered class of that name", g.loc(n.ast), construct=norm(n.ast), function=g.qualname)
        else:
            ok = v == "EngineClass" and any("_engine_satisfies_conditions" in t and o for t, o in fs)
            rep.check(ok, rule2, "without a name an engine is returned only after it satisfied the conditions", g.loc(n.ast), construct=norm(n.ast), detail="" if ok else "an engine class is returned without the requirement check", function=g.qualname)
    # falling out of the loop ends in the no-suitable-engine error
    loops = [l for l in cfg.nodes if l.kind == "for" and "_preference_list" in norm(l.owner.iter)]
    if not loops:
        raise AnalysisError("anchor vanished: loop over the preference list")
    for l in loops:
        after = [s for s in cfg.g.successors(l) if cfg.g[l][s].get("label") is False]
        p = None
        for s in after:
            p = p or cfg.path_avoiding(s, cfg.exit, set())
        rep.check(p is None, rule2, "when no engine qualifies every path raises", g.loc(l.owner), construct="for name in self._preference_list: ... ; raise UPNoSuitableEngineAvailableException", detail="" if p is None else "the function can return (None or an engine) although no registered engine qualified", function=g.qualname, path=path_text(p) if p else None)
    last = g.node.body[-1]
    ok = isinstance(last, ast.Raise) and last.exc is not None and "UPNoSuitableEngineAvailableException" in norm(last.exc)
    rep.check(ok, rule2, "the error raised is UPNoSuitableEngineAvailableException", g.loc(last), construct=norm(last)[:90], function=g.qualname)
    # engines iterated are the registered ones
    asg = [a for a in walk_no_nested(g.node) if isinstance(a, ast.Assign) and norm(a.targets[0]) == "EngineClass"]
    ok = bool(asg) and all(norm(a.value) == "self._engines[name]" for a in asg)
    rep.check(ok, rule2, "candidates are the registered classes of the preference list", g.loc(asg[0]) if asg else g.loc(), construct=norm(asg[0]) if asg else "", function=g.qualname)

    # ---------------------------------------------------------------- (4) registry
    rule4 = "C32.4 T7 registry"
    mod = idx.module("engines.factory")
    for table, pref in (("DEFAULT_ENGINES", "DEFAULT_ENGINE_PREFERENCE_LIST"), ("DEFAULT_META_ENGINES", "DEFAULT_META_ENGINES_PREFERENCE_LIST")):
        if table not in mod.assigns:
            raise AnalysisError(f"anchor vanished: {table}")
        try:
            reg = ast.literal_eval(mod.assigns[table])
        except ValueError:
            rep.inconclusive(rule4, f"{table} is not a literal", "unified_planning/engines/factory.py:1")
            continue
        n_local = 0
        for name, (m, c) in sorted(reg.items()):
            if not m.startswith("unified_planning"):
                continue
            n_local += 1
            ok = f"{m}.{c}" in idx.classes
            rep.check(ok, rule4, f"{table}['{name}'] names an existing class", "unified_planning/engines/factory.py:48", construct=f"{m}.{c}", detail="" if ok else "the registered engine cannot be imported", function="unified_planning.engines.factory")
            if ok:
                ci = idx.classes[f"{m}.{c}"]
                has = ci.lookup("supported_kind") is not None or ci.lookup("_supported_kind") is not None
                rep.check(has, rule4, f"{c} declares a supported kind", ci.loc(), construct=c, function=ci.qualname)
        rep.count("local_registry_entries", n_local)
        if pref in mod.assigns:
            try:
                pl = ast.literal_eval(mod.assigns[pref])
                extra = [p for p in pl if p not in reg]
                rep.check(not extra, rule4, f"{pref} is a subset of {table}", "unified_planning/engines/factory.py:1", construct=str(extra) if extra else f"{len(pl)} names", function="unified_planning.engines.factory")
            except ValueError:
                pass
    rep.require_min(rule4, "local_registry_entries", 15)
