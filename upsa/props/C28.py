"""C28 — timed-to-sequential plans convert back to valid temporal plans: the clause *every chosen duration lies
inside its action's duration interval*.

Decides (def-use on plan_back_conversion_callable): (1) on every path the duration appended for a DurativeAction
depends on the interval's lower bound (a value that ignores the lower bound cannot lie in ]l, u] or [l, u] for
every l); (2) the function consults the interval's upper bound and right-openness (a value chosen without them
cannot be guaranteed to lie below u); (3) fluent-dependent bounds are evaluated in the state in which the action
starts; the compiled action is mapped back through new_to_old with the same actual parameters.
Does not decide: validity of the resulting time-triggered plan.
"""
from __future__ import annotations

import ast

from ..dataflow import DefUse, def_value
from ..index import AnalysisError, Index, call_name, norm, walk_no_nested
from ..report import Report
from ..rules import cfg_nodes_with_call, cfg_of, path_text

F = "engines.compilers.timed_to_sequential.plan_back_conversion_callable"


def run(idx: Index, rep: Report, tier: str) -> None:
    rep.explanation = __doc__.strip()
    f = idx.func(F)
    rep.note_function(f.qualname)
    cfg = cfg_of(f)
    du = DefUse(cfg)
    rule1 = "C28.1 def-use duration-depends-on-lower-bound"
    apps = [(n, c) for n, c in cfg_nodes_with_call(cfg, "append") if c.args and isinstance(c.args[0], ast.Tuple) and len(c.args[0].elts) == 3]
    dur_sites = [(n, c) for n, c in apps if not (isinstance(c.args[0].elts[2], ast.Constant) and c.args[0].elts[2].value is None)]
    if not dur_sites:
        raise AnalysisError("anchor vanished: append((time, action_instance, duration)) in plan_back_conversion_callable")
    for n, c in dur_sites:
        d = c.args[0].elts[2]
        if not isinstance(d, ast.Name):
            rep.inconclusive(rule1, "duration expression is not a plain name", f.loc(c), construct=norm(d))
            continue
        defs = du.rd.get(n, {}).get(d.id, set())
        k = 0
        seen_txt = {}
        for dn in sorted(defs, key=lambda x: x.lineno):
            if dn is cfg.entry:
                continue
            # is this definition live at the append? (not overwritten on every path)
            v = def_value(dn, d.id)
            if v is None:
                continue
            k += 1
            chains = du.sources(v, dn)
            ok = any("lower" in ch for ch in chains)
            p = cfg.path_avoiding(dn, n, {x for x in defs if x is not dn})
            if p is None:
                continue
            seen_txt[norm(dn.ast)] = seen_txt.get(norm(dn.ast), 0) + 1
            tag = "" if seen_txt[norm(dn.ast)] == 1 else f" (occurrence {seen_txt[norm(dn.ast)]})"
            rep.check(ok, rule1, f"duration chosen on the path through `{norm(dn.ast)[:50]}`{tag} depends on duration.lower", f.loc(dn.ast), construct=f"{norm(dn.ast)}{tag} reaches {norm(c)}", detail="" if ok else "the duration is chosen without looking at the lower bound (for a left-open interval ]5, 10] the minimal time step 1/100 is used, which is outside the interval)", function=f.qualname, path=path_text(p))
    rule2 = "C28.2 T1 upper-bound-consulted"
    attrs = {norm(n) for n in walk_no_nested(f.node) if isinstance(n, ast.Attribute)}
    calls = {call_name(c) for c in walk_no_nested(f.node) if isinstance(c, ast.Call)}
    ok = any(a.endswith(".upper") for a in attrs)
    rep.check(ok, rule2, "the interval's upper bound is consulted", f.loc(), construct="duration.upper" if ok else "no read of .upper", detail="" if ok else "a duration is chosen without ever reading the upper bound: it cannot be guaranteed to lie inside the interval", function=f.qualname)
    ok = "is_right_open" in calls
    rep.check(ok, rule2, "right-openness of the interval is consulted", f.loc(), construct="is_right_open()" if ok else "no call of is_right_open()", detail="" if ok else "[l, u[ and [l, u] are treated alike", function=f.qualname)
    ok = "is_left_open" in calls
    rep.check(ok, rule2, "left-openness of the interval is consulted", f.loc(), construct="is_left_open()", function=f.qualname)

    rule3 = "C28.3 mapping-back"
    gv = [c for _, c in cfg_nodes_with_call(cfg, "get_value")]
    states = {norm(n.ast.targets[0]) for n in cfg.nodes if isinstance(n.ast, ast.Assign) and isinstance(n.ast.value, ast.Call) and call_name(n.ast.value) in ("apply", "apply_unsafe")}
    ok = any(norm(c.func.value) in states for c in gv)
    rep.check(ok, rule3, "fluent-dependent bounds are evaluated in the current simulated state", f.loc(gv[0]) if gv else f.loc(), construct="; ".join(norm(c) for c in gv)[:120], function=f.qualname)
    st = [n for n in cfg.nodes if isinstance(n.ast, ast.Assign) and isinstance(n.ast.value, ast.Call) and call_name(n.ast.value) in ("apply", "apply_unsafe") and n.ast.value.args and any(isinstance(x, ast.Name) and x.id == norm(n.ast.targets[0]) for x in ast.walk(n.ast.value.args[0]))]
    rep.check(bool(st), rule3, "the simulated state advances with every plan step", f.loc(st[0].ast) if st else f.loc(), construct=norm(st[0].ast) if st else "no state = simulator.apply(...)", detail="" if st else "later durations are evaluated in a stale state", function=f.qualname)
    ai = [c for c in walk_no_nested(f.node) if isinstance(c, ast.Call) and call_name(c) == "ActionInstance"]
    insts = {norm(l.target) for l in walk_no_nested(f.node) if isinstance(l, ast.For) and isinstance(l.iter, ast.Attribute) and l.iter.attr == "actions" and isinstance(l.target, ast.Name)}
    params = set(f.params())
    m = [a for a in walk_no_nested(f.node) if isinstance(a, ast.Assign) and isinstance(a.targets[0], ast.Name) and isinstance(a.value, ast.Subscript) and norm(a.value.value) in params and any(norm(a.value.slice) == f"{i}.action" for i in insts)]
    mapped = {norm(a.targets[0]) for a in m}
    ok = bool(ai) and all({k.arg: norm(k.value) for k in c.keywords}.get("action") in mapped and any({k.arg: norm(k.value) for k in c.keywords}.get("params") == f"{i}.actual_parameters" for i in insts) for c in ai)
    rep.check(ok, rule3, "the original action is instantiated with the compiled instance's parameters", f.loc(ai[0]) if ai else f.loc(), construct=norm(ai[0])[:120] if ai else "", function=f.qualname)
    ok = bool(m) and all(norm(a.value.value) == "new_to_old" for a in m)
    rep.check(ok, rule3, "the compiled action is mapped back through new_to_old", f.loc(m[0]) if m else f.loc(), construct=norm(m[0]) if m else "", function=f.qualname)
